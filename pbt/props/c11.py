"""C11 — the saved Hessian is M^(-1/2) (d2U/dr_i dr_j) M^(-1/2) of the documented pair energy.

Code under test: PyMatterSim/static/hessians.py: HessianMatrix.pair_matrix, HessianMatrix.diagonalize_hessian and its
three output files (<out>.hessianmatrix.npy, <out>.evecs.npy, <out>.omega_PR.csv); static/vector.py:
participation_ratio.

Facets
  lennard_jones / inverse_power_law / harmonic_hertz   (full pipeline, one per potential)
      Two geometries.  "blob": 1..14 jittered lattice sites placed anywhere in a cell wider than the blob + r_c, wrapped
      through the faces, optional lattice-image offsets.  "filled" (round 3): the lattice FILLS the periodic cell (edge k =
      n_k sites; every site or a random subset, N <= 36), so every particle has its shell and pairs interact through every
      face.  2D/3D, K = 1..4 species, equal and UNEQUAL masses, symmetric parameter matrices, shift on/off (and the
      default), all periodicity masks; cells: orthogonal, tilted (either sign), tilted slab (xy tilt, open z), and
      "general" = a tilted cell after an axis permutation (cell matrix not lower triangular).  Oracles:
        (a) analytic blocks from sympy-differentiated phi (40 digits) assembled to D = M^-1/2 K M^-1/2, compared
            entrywise with <out>.hessianmatrix.npy under a derived tolerance matrix;
        (b) central finite differences (float64) of the independently coded gradient of U (1e-5 of the term scale);
        (c) four-point second differences of the independently coded ENERGY itself (hand-coded s(r), 60 digits) at
            drawn index pairs;
        symmetry; annihilation of the d mass-weighted uniform translations (full periodicity); evecs are an
        orthonormal eigenbasis of the saved matrix (of the reference matrix when the matrix is not saved), omega =
        sqrt(lambda) for clearly positive lambda; the multiset of clearly positive omega^2 equals the multiset of clearly
        positive reference eigenvalues (BOTH directions, Weyl bound); PR in (0,1] and equal to the documented formula on
        <out>.evecs.npy, or - eigenvectors not saved - on the eigenvectors of the saved matrix for simple eigenvalues;
        file-saving flags, their documented defaults (keywords omitted), default / dotted / sub-directory output names.
      Species class (extension 1): K = 2..4 species are DECLARED in the parameter matrices / mass dict but one (sometimes
      two) of them does not occur in the snapshot, preferably not the highest one; the oracle indexes every parameter
      by type id - 1.  Minimal sizes N = 1, 2, 3 are a class of their own.
      Argument representations (extension 2/3): integer-valued epsilons / sigmas / r_cuts as int64 arrays, masses as
      Python ints or np.float64, mass-dict keys as np.int64, particle types as int32, ppp as int32, exponents /
      prefactors (ipl_n, ipl_A, alpha) as Python ints (n also odd); other unit systems (length unit 0.01 .. 100, energy
      unit 0.0104 / 120, mass unit 1e-3 / 39.948).
  large_system   (round 3: size-gated paths)
      filled geometry with N = 99, 100, 101, 102, 128, 129 or every site (121..260), one case in ten (2D) with N = 500,
      501, 512, 529: beyond the progress-log stride of 100 particles and any plausible chunk size; all three
      potentials; same oracles.  (Bulk jitter / images of more than 150 particles come from a drawn seed.)
  huge_system    (thorough tier only)  N = 1000, 1001, 1024.
  call_sequence  (extension 1: state carried between calls)
      ONE HessianMatrix object, 2-3 diagonalize_hessian calls: the same model with a changed ipl_n / ipl_A /
      harmonic_hertz_alpha, model A - model B - model A, free sequences; distinct output names, one name reused, default
      names; in a third of the cases a second configuration of the same particles is written into snapshot.positions
      IN PLACE between calls (HessianMatrix keeps the snapshot by reference and reads it at call time, L257-258).
      Every call's three files are compared with the oracle for that call's parameters and positions.
  pair_matrix
      the pair block as a pure function of (Rji, [s1, s1rc, s2]): s2 u u^T + (s1 - s1rc)(1 - u u^T)/r, and its
      negative, 2D and 3D; Rji as list / array / Python ints / int64 array, dudrs as list / tuple / array, other length
      scales, a second pair evaluated with the same object.

CLAUSES (statement + quantifier, split; tags are the class tags of evidence/C11.json, coverage.facets.*.classes)
  clause / axis                                   decided by                                   populated classes
  1 any 2D or 3D configuration                    (a) entrywise, all facets                    d2 d3; geom-blob geom-filled; N<=3 N>=4
                                                                                               N15-100 N>100 N~500 (N~1000); jittered lattice-exact;
                                                                                               images in-box; all-interacting some-isolated
  2 species masses, equal and unequal             (a) + translations                           mass-equal-1 mass-equal-m mass-unequal;
                                                                                               masses-float -pyint -npfloat; mass-keys-int
                                                                                               -np.int64; mass-dict-unordered -extra-key;
                                                                                               mass-scale-small -order-1 -large
  3 pair parameters (parameter matrices)          (a) (b) (c)                                  K1..K4; eps-int64; sigmas-int64; species-absent-*;
                                                                                               energy-unit-*; length-unit-int -small -large
  4 cutoffs                                       (a): blocks outside r_c exactly zero         r_cuts-int64 / -float64; interacting_pairs;
                                                                                               (pairs within 1e-6 of r_c: never generated)
  5 periodicity mask                              (a) with the reference minimum image          mask-full mask-partial; cellkind-ortho -tri
                                                                                               -tri-slab -general; tilt-negative -positive
                                                                                               -mixed-sign; ppp-int32
  6 each supported potential                      one facet each                               ipl-n-even -odd -real (-pyint); ipl-A-pyint;
                                                                                               hertz-alpha-pyint / -float
  7 force-shifted when shifting is on             (a) (b) (c) use phi with / without the term  shift-on shift-off (default omitted in half
                                                                                               of shift-on)
  8 equals ... by analytic and FD derivatives     (a) analytic, (b) FD of gradient, (c) energy  fd-gradient; extra.energy_probes
  9 symmetric                                     |D - D^T| <= 2T                              every case with the matrix saved
 10 annihilates the d translations (full ppp)     |D M^1/2 t_c| <= derived bound               translations-checked
 11 frequencies = sqrt(eigenvalues)               WAS one direction (every positive reference  positive_modes_checked,
                                                  eigenvalue has a row) and nothing about the  positive_rows_matched_back;
                                                  eigenvectors when the matrix was not saved;  unstable-modes-present;
                                                  NOW both directions + eigenvectors against   eigenpairs-checked,
                                                  the reference matrix                         eigenpairs-checked-against-reference
 12 participation ratios in (0, 1]                bounds; formula on saved evecs; NEW: formula  files-no-evecs -> pr-from-saved-matrix
                                                  on eigenvectors of the saved matrix (simple  (extra.pr_checked_without_evecs)
                                                  eigenvalues) when evecs are not saved
 13 observation points (three files, flags)       existence / absence per flag, default name   files-both -no-evecs -no-hessian -default-name
                                                                                               -kwargs-omitted; name-plain -dotted -subdir
 14 (history) one object, several calls           call_sequence                                pattern-*, names-*, positions-mutated-in-place
 15 pair block formula                            pair_matrix                                  Rji-list -array -int-list -int-array; dudrs-*
  Not asserted: what is reported for non-positive eigenvalues; the row order of omega_PR.csv; `<=` vs `<` exactly at
  the cut-off; asymmetric parameter matrices (no pair energy); parameters mutated in place between calls; the
  InteractionParams defaults (ipl_A = 0 gives the zero matrix); N above 1024.

Preconditions imposed on the generator (documented domain / what callers pass):
  * type ids within 1..K (K = number of declared species; in the 'absent' class not all occur); parameter matrices of shape (K,K), symmetric (hessians.py L149-185);
    masses dict {type: mass > 0};
  * no pair closer than 0.8 sigma_ab (by construction: lattice spacing minus jitter; a sheared or axis-permuted lattice
    keeps its shortest vector), no pair within 1e-6 (relative) of its cut-off (by construction: the offending cut-off is
    nudged - and then no longer passed as an integer), so cut-off membership is unambiguous;
  * cell: every perpendicular width > 2 max r_c (any image within r_c then has |fractional component| < 1/2, i.e. it is
    the one the fractional rounding of L279 selects, for ANY cell matrix); blob geometry: also > blob diameter + max r_c;
    tilted cells with full periodicity, or xy tilt with an open z boundary (LAMMPS rules);
  * harmonic/Hertz: r_c = sigma (potential defined for r <= sigma), alpha in [2, 3].
"""
from __future__ import annotations

import dataclasses
import itertools
import os
import warnings

import numpy as np
import pandas as pd
from hypothesis import strategies as st
from hypothesis.extra import numpy as hnp

from ..gen import fl, nice_float, snapshot_from
from ..harness import Facet, Violation
from ..ref import geom, hessref
from ..util import arr, col, columns, require

from PyMatterSim.static.hessians import HessianMatrix, InteractionParams, ModelName

RULE = ("configurations: blob = 1..14 particles on a jittered sub-lattice (min distance >= 0.8 sigma_max) anywhere in a cell "
        "with widths > 2 r_c,max, wrapped, optional image offsets; filled = the lattice fills the periodic cell (N <= 36; "
        "facet large_system: N 99..529, huge_system: ~1000); d in {2,3}; K in 1..4; cells orthogonal / tilted (either sign) / tilted slab / "
        "axis-permuted tilted (general matrix); masses equal / unequal, float / Python int / np.float64; symmetric "
        "epsilon, sigma, r_c matrices, float64 or integer-valued int64; unit systems (length 0.01..100, energy, mass); "
        "LJ, IPL (n in {6,7,9,10,12} or real, A; ints or floats), harmonic/Hertz (alpha in {2, 2.5, 3} or real, r_c = "
        "sigma); shift on/off/default; all periodicity masks; species declared but absent; file flags incl. omitted "
        "keywords, dotted / sub-directory names; call sequences on one object. non-trivial = every particle has an "
        "interacting partner and (>= 2 occurring species with unequal masses, or an absent species below an occurring one)")
ASSUMPTIONS = [
    "specification = truncated pair energy of the documented s(r), force-shifted with the documented cut-off slope when "
    "shifting is on (Hertz: documented slope 0); derivatives by sympy, 40-digit mpmath evaluation (trusted)",
    "entrywise tolerance of the matrix comparison is derived: 1e-10 x (sum of |terms| of s'' and (s'-s'(rc))/r) per pair "
    "+ variation of the reference when the pair distance moves by 64 eps_mach (max|x| + max|H|) (float64 positions); "
    "blocks of non-interacting pairs must be exactly zero",
    "finite differences: gradient route float64, h = 1e-5 sigma_min, tolerance 1e-5 of the largest pair term, skipped "
    "for non-integer Hertz exponents when a pair is within 3e-3 sigma of contact; energy route 60 digits, h = 1e-12 "
    "sigma_min, tolerance = analytic tolerance + 1e-9 of the largest pair term",
    "frequencies: every eigenvalue of the reference matrix > 1e-8 ||D|| + Weyl bound must appear as omega^2 of a row and "
    "every row with omega^2 above twice that threshold must match an eigenvalue (one-to-one, within the Weyl bound "
    "||T||_2 + 1e-10 ||D||); what is reported for non-positive eigenvalues is not asserted; row order of omega_PR.csv is "
    "tied to the columns of evecs.npy, not to a sort order",
    "eigenvectors not saved: PR is compared only for simple eigenvalues (gap > 1e-6 ||D||) of the saved matrix, with the "
    "eigenvector perturbation bound 1e-14 dN ||D|| / gap propagated to PR (factor 4 (N+1)); matrix not saved: the saved "
    "eigenvectors must have residual <= ||T||_2 + 1e-9 ||D|| with the reference matrix",
    "cut-off membership: no generated pair lies within 1e-6 r_c of its cut-off",
    "parameter matrices / mass dict are indexed by type id - 1 (documented: 'for all pairs of particle type', masses "
    "{1: .., 2: ..}) also when a declared species does not occur in the snapshot",
    "argument representations are value-preserving (asserted in the module): an int64 matrix holds exactly the values "
    "the oracle uses; integer dtypes are only used for integer-valued parameters",
    "any invertible cell matrix with perpendicular widths > 2 r_c is in the domain (the routine reads snapshot.hmatrix); "
    "generated: lower-triangular LAMMPS cells and their axis permutations",
    "call_sequence: the object holds the snapshot by reference; a result must reflect the interaction parameters and "
    "the snapshot contents at the time of the call (an implementation that copied the positions at construction "
    "would be reported by the in-place class); parameter arrays are NOT mutated between calls",
]
MANIFEST = {
    "text": ("Generated-configuration differential check of HessianMatrix.diagonalize_hessian / pair_matrix: the saved "
             "dN x dN matrix against an independently coded truncated(-and-force-shifted) pair energy via analytic "
             "blocks (sympy/mpmath, derived entrywise tolerance), finite differences of the reference gradient and "
             "60-digit second differences of the reference energy; symmetry, translation null vectors, eigenbasis / "
             "frequency (both directions) / participation-ratio consistency of the three output files, also when only "
             "some of them are saved; 2D/3D, K = 1..4, equal and unequal masses, declared-but-absent species, N = 1..36 "
             "(blob in a large cell, or a lattice filling the periodic cell) and 99..529 (thorough: 1024), three potentials, shift "
             "on/off/default, masks, orthogonal / tilted / slab / axis-permuted cells, integer-typed and rescaled "
             "parameters, omitted keywords and dotted output names; call sequences on one object (changed exponents / "
             "prefactors, A-B-A, reused output names, positions rewritten in place) (facets: lennard_jones, "
             "inverse_power_law, harmonic_hertz, large_system, huge_system, call_sequence, pair_matrix)."),
    "note": ("Sampling, not proof. N <= 260 particles; cells wide enough that a pair interacts through at most one "
             "image; pairs within 1e-6 of a cut-off are not generated; Hertz only with r_c = sigma. Trusted base: "
             "sympy, mpmath, numpy.linalg.eigh / eigvalsh."),
    "technique": ("property-based testing (Hypothesis): reference-model differential (independent energy -> analytic "
                  "and finite-difference Hessian) + algebraic invariants (symmetry, null space, eigen-decomposition)"),
}

MODELS = ("lennard_jones", "inverse_power_law", "harmonic_hertz")
# lattice spacing / sigma_max, smallest sigma ratio, cut-off factor range
GEOM = {"lennard_jones": ((0.95, 1.3), 0.7, (1.5, 2.5)),
        "inverse_power_law": ((0.9, 1.1), 0.75, (1.3, 1.8)),
        "harmonic_hertz": ((0.84, 0.92), 0.9, (1.0, 1.0))}
DMIN = 0.81   # guaranteed min distance / sigma_max (0.8 + room for the cut-off nudges)
NEAR = 2e-6   # relative distance to a cut-off that triggers a nudge (asserted 1e-6 in check)


# ----------------------------------------------------------------------------- strategy


def _sym(draw, K, lo, hi, special=()):
    m = np.zeros((K, K))
    for a in range(K):
        for b in range(a, K):
            v = draw(st.one_of(st.sampled_from(list(special)), nice_float(lo, hi))) if special else draw(nice_float(lo, hi))
            m[a, b] = m[b, a] = v
    return m


def perp_widths(H):
    Hi = np.linalg.inv(H)
    return 1.0 / np.sqrt((Hi * Hi).sum(axis=0))


@st.composite
def species_st(draw, N, K):
    """Type ids in 1..K.  Mostly every declared species occurs; in the 'absent' class one (sometimes two) declared
    species does not occur in the snapshot - preferably not the highest one (a pure-species-2 run analysed with the
    binary mixture's parameter file).  Returns (types, class tag)."""
    present = list(range(1, K + 1))
    if K >= 2 and draw(st.integers(0, 2)) == 0:
        present.remove(draw(st.sampled_from(list(range(1, K)) * 2 + [K])))
        if len(present) > 1 and draw(st.integers(0, 3)) == 0:
            present.remove(draw(st.sampled_from(present)))
    head = list(draw(st.permutations(present)))[:N]
    rest = draw(st.lists(st.sampled_from(present), min_size=N - len(head), max_size=N - len(head)))
    t = head + rest
    perm = draw(st.permutations(range(N)))
    types = np.array([t[i] for i in perm], dtype=int)
    occ = set(types.tolist())
    missing = [k for k in range(1, K + 1) if k not in occ]
    if not missing:
        tag = "species-all-present"
    elif any(k < max(occ) for k in missing):
        tag = "species-absent-below-a-present-one"
    else:
        tag = "species-absent-top-only"
    return types, tag


def _model_params(draw):
    # exponents / prefactors as callers write them: Python ints (ipl_n=10, also odd 7, 9), floats, arbitrary reals
    n = draw(st.sampled_from([6, 10, 12, 10.0, 12.0, 7, 9])) if draw(st.integers(0, 3)) else draw(fl(4.0, 14.0))
    A = draw(st.one_of(st.just(1.0), st.sampled_from([1, 2]), nice_float(0.5, 3.0)))
    alpha = draw(st.sampled_from([2.0, 2.5, 2, 2.5, 3.0, 3])) if draw(st.integers(0, 3)) else draw(fl(2.0, 3.0))
    return {"n": n, "A": A, "alpha": alpha}


FILES = ["both", "both", "both", "both", "no-evecs", "no-hessian", "default-name", "kwargs-omitted"]


def _steps(draw, base, two_positions):
    """Call sequence on ONE HessianMatrix object.  Hertz needs r <= sigma = r_c, so it only joins sequences on
    Hertz geometry; LJ and IPL are defined for any cut-off and appear on every geometry."""
    allowed = list(MODELS) if base == "harmonic_hertz" else ["lennard_jones", "inverse_power_law"]
    with_par = [m for m in allowed if m != "lennard_jones"]
    pattern = draw(st.sampled_from(["same-model-new-params", "same-model-new-params", "A-B-A", "free"]))
    nsteps = draw(st.integers(2, 3))
    steps = []
    if pattern == "same-model-new-params":
        m = draw(st.sampled_from(with_par))
        first = _model_params(draw)
        for k in range(nsteps):
            mp_ = dict(first)
            if k:
                which = "alpha" if m == "harmonic_hertz" else draw(st.sampled_from(["n", "A", "n"]))
                new = _model_params(draw)[which]
                if new == steps[-1][which]:
                    new = {"n": 8, "A": 1.75, "alpha": 2.25}[which] if new != {"n": 8, "A": 1.75, "alpha": 2.25}[which] \
                        else {"n": 9, "A": 2.5, "alpha": 2.75}[which]
                mp_ = {**steps[-1], which: new}
                mp_ = {k_: mp_[k_] for k_ in ("n", "A", "alpha")}
            steps.append({"model": m, **mp_})
    elif pattern == "A-B-A":
        ma = draw(st.sampled_from(allowed))
        mb = draw(st.sampled_from([m for m in allowed if m != ma]))
        pa = _model_params(draw)
        steps = [{"model": ma, **pa}, {"model": mb, **_model_params(draw)},
                 {"model": ma, **(pa if draw(st.booleans()) else _model_params(draw))}]
    else:
        steps = [{"model": draw(st.sampled_from(allowed)), **_model_params(draw)} for _ in range(nsteps)]
    names = draw(st.sampled_from(["distinct", "same", "same", "default"]))
    cur = 0
    for k, stp in enumerate(steps):
        stp["files"] = draw(st.sampled_from(FILES[:6] + ["kwargs-omitted"])) if names != "default" else "default-name"
        stp["out"] = {"distinct": f"c11seq{k}", "same": "c11seq", "default": ""}[names]
        if two_positions and k and draw(st.booleans()):
            cur = 1 - cur
        stp["pos"] = cur
    if two_positions and all(stp["pos"] == 0 for stp in steps):
        steps[-1]["pos"] = 1
    return steps, pattern, names


def _int_sym(draw, K, lo_of, hi_of):
    m = np.zeros((K, K))
    for a in range(K):
        for b in range(a, K):
            m[a, b] = m[b, a] = float(draw(st.integers(int(lo_of(a, b)), int(hi_of(a, b)))))
    return m


def _tilt_fractions(draw, d, cellkind):
    """Tilt factors as fractions of the edge they lean along, either sign, |t| <= 1/2 (LAMMPS convention)."""
    t = np.zeros((d, d))
    if cellkind == "ortho":
        return t
    t[1, 0] = draw(fl(-0.5, 0.5))
    if d == 3 and cellkind != "tri-slab":       # slab: periodic in x, y (tilt xy), open in z (xz = yz = 0)
        t[2, 0] = draw(fl(-0.5, 0.5))
        t[2, 1] = draw(fl(-0.5, 0.5))
    if not t.any():
        t[1, 0] = draw(st.sampled_from([0.3, -0.3]))
    return t


def _cell_matrix(L, t):
    Hm = np.diag(np.asarray(L, dtype=float))
    d = len(L)
    Hm[1, 0] = t[1, 0] * L[0]
    if d == 3:
        Hm[2, 0] = t[2, 0] * L[0]
        Hm[2, 1] = t[2, 1] * L[1]
    return Hm


@st.composite
def case_st(draw, model=None, seq=False, size="small"):
    if model is None:
        model = draw(st.sampled_from(MODELS))
    large = size in ("large", "huge")
    d = draw(st.sampled_from([2, 3]))
    K = draw(st.sampled_from([1, 2, 2, 3, 3, 4]))
    (fa_lo, fa_hi), smin, (c_lo, c_hi) = GEOM[model]
    geometry = "filled" if large else draw(st.sampled_from(["blob", "blob", "blob", "blob", "filled"]))
    if geometry == "filled" and model != "harmonic_hertz":
        c_hi = min(c_hi, 1.8 if large else 1.6)      # keeps the neighbour shells (and the 40-digit oracle) affordable
    # --- length scales.  'int' classes: integer-valued sigma / r_c handed over as int64 arrays (np.array([[1, 2], ..]))
    lengths_int = draw(st.sampled_from(["none"] * 9 + ["sig", "rc", "both"]))
    if lengths_int != "none":
        unit = float(draw(st.sampled_from([1, 2, 4, 10])))
        sig = _int_sym(draw, K, lambda a, b: np.ceil(smin * unit - 1e-9), lambda a, b: unit)
        if sig.max() < unit:
            sig[0, 0] = unit
        lunit = "int"
    else:
        unit = draw(st.sampled_from([1.0, 1.0, 1.0, 0.7, 1.6, 3.405, 0.01, 100.0]))
        sig = _sym(draw, K, smin, 1.0)
        sig = sig / sig.max() * unit
        lunit = "small" if unit < 0.1 else ("large" if unit > 10 else "order-1")
    smax = sig.max()
    if model == "harmonic_hertz":
        rc = sig.copy()
    elif lengths_int != "none":
        rc = _int_sym(draw, K, lambda a, b: np.ceil(c_lo * sig[a, b] - 1e-9),
                      lambda a, b: max(np.ceil(c_lo * sig[a, b] - 1e-9), np.floor(max(c_hi, 2.0) * sig[a, b] + 1e-9)))
    else:
        rc = sig * _sym(draw, K, c_lo, c_hi)
    eunit = draw(st.sampled_from([1.0, 1.0, 1.0, 0.0104, 120.0]))
    eps = _sym(draw, K, 0.5, 2.0, special=(1.0,)) * eunit
    # argument representation: integer-valued energy scales handed over as an int64 array (np.array([[1, 2], [2, 1]]));
    # a work array made with zeros_like(epsilons) inherited that dtype and truncated 1/sqrt(m_i m_j) (fix 8de5ede)
    eps_int = draw(st.integers(0, 4)) == 0
    if eps_int:
        eps = np.zeros((K, K))
        for a in range(K):
            for b in range(a, K):
                eps[a, b] = eps[b, a] = float(draw(st.integers(1, 3)))
        eunit = 1.0
    mmode = draw(st.sampled_from(["unequal", "unequal", "equal-1", "equal-m"])) if K > 1 else \
        draw(st.sampled_from(["equal-1", "equal-m"]))
    mass_repr = draw(st.sampled_from(["float", "float", "float", "pyint", "npfloat"]))
    if mass_repr == "pyint":       # masses = {1: 1, 2: 3}: Python ints
        if mmode == "equal-1":
            masses = np.ones(K)
        elif mmode == "equal-m":
            masses = np.full(K, float(draw(st.integers(2, 5))))
        else:
            masses = np.array(draw(st.lists(st.integers(1, 6), min_size=K, max_size=K, unique=True)), dtype=float)
    else:
        munit = draw(st.sampled_from([1.0, 1.0, 1.0, 39.948, 1e-3]))
        if mmode == "equal-1":
            masses = np.ones(K)
        elif mmode == "equal-m":
            masses = np.full(K, draw(nice_float(0.5, 5.0))) * munit
        else:
            masses = np.array(draw(st.lists(st.integers(5, 50), min_size=K, max_size=K, unique=True)), dtype=float) / 10.0 * munit
    # --- periodicity mask and cell kind
    ppp = np.ones(d, dtype=int)
    if draw(st.booleans()):
        ppp = np.array(draw(st.sampled_from(list(itertools.product([0, 1], repeat=d)))), dtype=int)
    cellkind = "ortho"
    if bool(ppp.all()):
        cellkind = draw(st.sampled_from(["ortho", "ortho", "ortho", "ortho", "tri", "tri", "general"]))
    elif d == 3 and tuple(ppp) == (1, 1, 0) and draw(st.booleans()):
        cellkind = "tri-slab"        # LAMMPS allows xy != 0 with an open z boundary
    if d == 3 and cellkind == "ortho" and draw(st.integers(0, 11)) == 0:
        ppp = np.array([1, 1, 0])
        cellkind = "tri-slab"
    tfrac = _tilt_fractions(draw, d, cellkind)
    # --- lattice sites
    a0 = smax * draw(fl(fa_lo, fa_hi))
    stretch = [0.0, 0.0, 0.03, 0.06] if model == "harmonic_hertz" else [0.0, 0.0, 0.1, 0.25]
    ak = a0 * (1.0 + np.array([draw(st.sampled_from(stretch)) for _ in range(d)]))
    jmax = (a0 - DMIN * smax) / (2.0 * np.sqrt(d))
    jf = draw(st.sampled_from([0.0, 0.3, 1.0, 1.0]))
    two_positions = seq and draw(st.integers(0, 2)) == 0
    if geometry == "blob":
        bl = [draw(st.integers(2, 4)) for _ in range(d)] if d == 2 else [draw(st.integers(1, 3)) for _ in range(d)]
        if int(np.prod(bl)) < 4:
            bl[0], bl[1] = 2, 2
        sites = np.array(list(itertools.product(*[range(b) for b in bl])), dtype=float)
        if draw(st.integers(0, 11)) == 0:
            N = draw(st.integers(1, 3))          # minimal sizes: one particle (no pair), one pair, three
        else:
            N = draw(st.integers(4, min(14, len(sites))))
        order = draw(st.permutations(range(len(sites))))
        sites = sites[list(order[:N])]
        lattice = sites * ak
        diam = float(np.linalg.norm((np.array(bl) - 1) * ak + 2 * max(jf, 0.3 if two_positions else 0.0) * jmax))
        W = 1.06 * max(2.0 * rc.max(), diam + rc.max())
        L = W * np.array([draw(st.sampled_from([1.0, 1.0, 1.3, 2.0])) for _ in range(d)])
        Hm = _cell_matrix(L, tfrac)
        w = perp_widths(Hm).min()
        if w < W:
            Hm = Hm * (W / w * 1.001)
    else:
        # the lattice FILLS the periodic cell (edge k = n_k sites): every particle has its shell, pairs interact through
        # every face; all sites occupied, or a random subset (vacancies) when there are more sites than the size limit
        W = 1.06 * 2.0 * rc.max()
        nk = np.maximum(np.ceil(W / ak), 2).astype(int) + np.array([draw(st.integers(0, 1)) for _ in range(d)])
        huge = size == "huge" or (large and d == 2 and draw(st.integers(0, 9)) == 7)
        if size == "huge":                  # ~1000 particles (thorough tier only)
            nk = np.maximum(nk, 32 if d == 2 else 10)
        elif huge:                          # ~500 particles (2D: dN ~ 1000)
            nk = np.maximum(nk, 23)
        elif large:
            nk = np.maximum(nk, draw(st.sampled_from([11, 12, 14, 16] if d == 2 else [5, 5, 6])))
        for _ in range(40):
            Hm = _cell_matrix(nk * ak, tfrac)
            if perp_widths(Hm).min() >= W:
                break
            nk = nk + 1
        nsites = int(np.prod(nk))
        if huge:
            N = min(nsites, draw(st.sampled_from([1000, 1001, 1024] if size == "huge" else [500, 501, 512, 529])))
        elif large:
            N = draw(st.sampled_from([nsites, 101, 129, 128, 102, nsites, 100, 99]))
            N = min(N, nsites, 260)
        elif draw(st.integers(0, 11)) == 0:
            N = draw(st.integers(1, 3))
        else:
            N = min(nsites, 36) if draw(st.booleans()) else draw(st.integers(4, min(nsites, 36)))
        idx = np.array(list(itertools.product(*[range(int(n_)) for n_ in nk])), dtype=float)
        seed = draw(st.integers(0, 2**32 - 1))
        pick = np.random.default_rng(seed).permutation(nsites)[:N]       # bulk choice of occupied sites: seeded
        lattice = (idx[pick] / nk) @ Hm
    if N > 150:         # bulk displacements from a drawn seed (Hypothesis' choice buffer holds ~1000 floats)
        bulk = np.random.default_rng(draw(st.integers(0, 2**32 - 1)))
        unit_box = lambda: bulk.uniform(-1.0, 1.0, (N, d))      # noqa: E731
    else:
        bulk = None
        unit_box = lambda: draw(hnp.arrays(np.float64, (N, d), elements=fl(-1.0, 1.0)))      # noqa: E731
    jit = jf * jmax * unit_box()
    locals_ = [lattice + jit]
    if two_positions:   # a second configuration of the same particles, written into snapshot.positions in place
        locals_.append(lattice + max(jf, 0.3) * jmax * unit_box())
    lo = np.zeros(d) if draw(st.booleans()) else np.array([draw(nice_float(-20.0, 20.0)) for _ in range(d)]) * unit
    origin = draw(hnp.arrays(np.float64, (d,), elements=fl(0.0, 1.0, exclude_max=True))) @ Hm
    images = np.zeros((N, d))
    if draw(st.booleans()):
        images = (bulk.integers(-1, 2, (N, d)) if bulk is not None else
                  draw(hnp.arrays(np.int64, (N, d), elements=st.integers(-1, 1)))).astype(float) * ppp
    pos_list = []
    for local in locals_:
        f = geom.frac_coords(origin + local, Hm)
        f = f - np.floor(f)      # wrapped through every face (also the open ones: then the halves do not interact)
        pos_list.append(lo + (f + images) @ Hm)
    if cellkind == "general":
        # a reader-style triclinic cell after an axis permutation (x<->y, cyclic, ...): P H P^T is not lower triangular
        perm = list(draw(st.permutations(range(d)).filter(lambda p_: list(p_) != list(range(d)))))
        Hm = Hm[perm][:, perm]
        lo = lo[perm]
        pos_list = [p_[:, perm] for p_ in pos_list]
    types, species_tag = draw(species_st(N, K))
    shift = draw(st.integers(0, 9)) % 2 == 0
    # --- keep every pair clear of its cut-off (construction, not rejection)
    geo = [hessref.pair_geometry(p_, Hm, ppp) for p_ in pos_list]
    ii, jj = geo[0][0], geo[0][1]
    ta, tb = types[ii] - 1, types[jj] - 1
    ta, tb = np.tile(ta, len(geo)), np.tile(tb, len(geo))
    r = np.concatenate([g_[4] for g_ in geo])
    nudges = 0
    for _ in range(60):
        near = np.abs(r - rc[ta, tb]) <= NEAR * rc[ta, tb]
        if not near.any():
            break
        for a_, b_ in {(int(x), int(y)) for x, y in zip(ta[near], tb[near])}:
            rc[a_, b_] = rc[b_, a_] = rc[a_, b_] * 1.0001
            if model == "harmonic_hertz":
                sig[a_, b_] = sig[b_, a_] = rc[a_, b_]
        nudges += 1
    if nudges:
        lengths_int = "none"          # a nudged cut-off is no longer an integer
    if seq:
        steps, pattern, names = _steps(draw, model, two_positions)
    else:
        files = draw(st.sampled_from(FILES))
        steps = [{"model": model, **_model_params(draw), "files": files,
                  "out": "" if files == "default-name" else "c11out", "pos": 0}]
        pattern, names = "single", "single"
    if draw(st.integers(0, 3)) == 0:       # output names with dots / in a sub-directory: '<outputfile>.hessianmatrix.npy'
        style = draw(st.sampled_from(["dotted", "dotted", "subdir"]))
        for stp in steps:
            if stp["out"]:
                stp["out"] = stp["out"].replace("c11", "c11.r1." if style == "dotted" else "c11dir/r.1/")
    probes = [(draw(st.integers(0, N * d - 1)), draw(st.integers(0, N * d - 1))) for _ in range(3 if not seq else 1)]
    return {"base": model, "d": d, "K": K, "H": Hm, "lo": lo, "tri": cellkind != "ortho", "cellkind": cellkind,
            "geometry": geometry, "pos_list": pos_list, "types": types,
            "ppp": ppp, "eps": eps, "eps_int": eps_int, "sig": sig, "rc": rc, "masses": masses, "mmode": mmode, "steps": steps,
            "lengths_int": lengths_int, "mass_repr": mass_repr, "lunit": lunit, "eunit": eunit,
            "mass_keys": draw(st.sampled_from(["int", "int", "np.int64"])),
            "types_dtype": draw(st.sampled_from(["int64", "int64", "int32"])),
            "ppp_dtype": draw(st.sampled_from(["int64", "int64", "int32"])),
            # the masses dictionary is looked up by type id: its insertion order carries no meaning (seeded C11-C took
            # the t-th inserted value for type t) and it may hold types that do not occur in the system
            "mass_order": list(draw(st.permutations(range(K)))) if draw(st.booleans()) else list(range(K)),
            "mass_extra": draw(st.sampled_from([None, None, 7.5])),
            "shift": shift, "probes": probes, "images": bool(np.any(images)), "jf": jf, "species": species_tag,
            "pattern": pattern, "names": names, "nudges": nudges, "default_shift": draw(st.booleans())}


# ----------------------------------------------------------------------------- running the code under test


def interaction_params(case):
    m = case["model"]
    if m == "lennard_jones":
        return InteractionParams(model_name=ModelName.lennard_jones)
    if m == "inverse_power_law":
        return InteractionParams(model_name=ModelName.inverse_power_law, ipl_n=case["n"], ipl_A=case["A"])
    return InteractionParams(model_name=ModelName.harmonic_hertz, harmonic_hertz_alpha=case["alpha"])


def make_hessian(case):
    kind = case.get("cellkind") or ("tri" if case["tri"] else "ortho")
    cell = {"H": case["H"], "lo": case["lo"], "kind": {"tri-slab": "tri"}.get(kind, kind)}
    snap = snapshot_from(cell, case["pos_list"][0].copy(), case["types"])
    if case.get("types_dtype", "int64") == "int32":
        snap = dataclasses.replace(snap, particle_type=snap.particle_type.astype(np.int32))   # same arrays otherwise
    as_key = np.int64 if case.get("mass_keys") == "np.int64" else int       # dict(zip(np.unique(types), [...]))
    as_val = {"pyint": lambda x: int(round(x)), "npfloat": np.float64}.get(case.get("mass_repr"), float)
    masses = {as_key(k + 1): as_val(case["masses"][k]) for k in case.get("mass_order", range(len(case["masses"])))}
    if case.get("mass_extra"):
        masses[len(case["masses"]) + 1] = float(case["mass_extra"])      # a species the system does not contain
    li = case.get("lengths_int", "none")
    eps = case["eps"].astype(np.int64) if case.get("eps_int") else case["eps"].copy()
    sig = case["sig"].astype(np.int64) if li in ("sig", "both") else case["sig"].copy()
    rc = case["rc"].astype(np.int64) if li in ("rc", "both") else case["rc"].copy()
    assert np.array_equal(eps, case["eps"]) and np.array_equal(sig, case["sig"]) and np.array_equal(rc, case["rc"]), \
        "generator: an integer-typed parameter matrix does not hold the oracle's values"
    assert all(float(masses[k + 1]) == float(case["masses"][k]) for k in range(len(case["masses"]))), "generator: masses"
    kw = dict(snapshot=snap, masses=masses, epsilons=eps, sigmas=sig, r_cuts=rc,
              ppp=case["ppp"].astype(np.int32) if case.get("ppp_dtype") == "int32" else case["ppp"].copy())
    if not (case["shift"] and case["default_shift"]):
        kw["shiftpotential"] = case["shift"]        # documented default: True
    return HessianMatrix(**kw), snap


def params_of(case):
    return hessref.Params(case["model"], case["shift"], case["eps"], case["sig"], case["rc"], case["n"], case["A"],
                          case["alpha"], case["masses"])


def brief(case):
    return {"model": case["model"], "step": case.get("step", 0), "sequence": case.get("sequence"), "d": case["d"], "N": int(len(case["types"])), "K": case["K"],
            "types": np.asarray(case["types"]).tolist(), "masses": np.asarray(case["masses"]).tolist(),
            "shift": case["shift"], "ppp": np.asarray(case["ppp"]).tolist(), "cell": case.get("cellkind") or ("tri" if case["tri"] else "ortho"),
            "geometry": case.get("geometry", "blob"), "int-typed": [k for k, f in (("eps", case.get("eps_int")), ("sig", case.get("lengths_int") in ("sig", "both")),
                                                                  ("rc", case.get("lengths_int") in ("rc", "both")), ("masses", case.get("mass_repr") == "pyint")) if f],
            "n": case["n"], "A": case["A"], "alpha": case["alpha"]}


def _worst(name, got, want, T, d, case, extra=0.0):
    bad = ~(np.abs(got - want) <= T + extra)
    if bad.any():
        err = np.where(bad, np.abs(got - want) - T - extra, -1)
        p, q = np.unravel_index(int(np.argmax(err)), err.shape)
        i, j = p // d, q // d
        t = case["types"]
        raise Violation(
            f"{name}: {int(bad.sum())}/{got.size} entries outside the tolerance; worst at [{p},{q}] = particles "
            f"({i},{j}) types ({int(t[i])},{int(t[j])}) axes ({p % d},{q % d}): got {got[p, q]!r}, reference "
            f"{want[p, q]!r}, allowed |diff| {T[p, q] + extra:.3e}; {brief(case)}")


def _unmatched(want, have, tol):
    """Both ascending.  Greedy one-to-one matching |want - have| <= tol; returns the first unmatched `want` or None."""
    k = 0
    for w in want:
        while k < len(have) and have[k] < w - tol:
            k += 1
        if k == len(have) or have[k] > w + tol:
            return float(w)
        k += 1
    return None


def check(case):
    """One HessianMatrix object, one or several diagonalize_hessian calls; every call is compared with the oracle for
    the parameters of THAT call and the snapshot contents at the time of THAT call."""
    case = _upgrade(case)
    h, snap = make_hessian(case)
    stems = {(st_["out"] or st_["model"]) for st_ in case["steps"]}
    for stem in stems:                  # the scratch cwd is shared by the cases of one worker
        if os.path.dirname(stem):
            os.makedirs(os.path.dirname(stem), exist_ok=True)
        for suffix in (".hessianmatrix.npy", ".evecs.npy", ".omega_PR.csv"):
            if os.path.exists(stem + suffix):
                os.remove(stem + suffix)
    seq = [(st_["model"], st_["n"], st_["A"], st_["alpha"], st_["pos"], st_["out"]) for st_ in case["steps"]]
    tags, extra, nontrivial = [], {}, True
    written = set()
    cur = 0
    for k, step in enumerate(case["steps"]):
        if step["pos"] != cur:          # the next configuration is written into the SAME positions array
            snap.positions[...] = case["pos_list"][step["pos"]]
            cur = step["pos"]
            tags.append("positions-mutated-in-place")
        c = {**case, **step, "pos": case["pos_list"][step["pos"]], "step": k,
             "sequence": seq if len(seq) > 1 else None}
        info = _one_call(c, h, snap, written)
        nontrivial = nontrivial and info["nontrivial"]
        tags += info["tags"] if k == 0 else [t for t in info["tags"] if t.startswith(("files-", "fd-", "eigen", "pr-"))]
        for key, val in info["extra"].items():
            extra[key] = extra.get(key, 0) + val
    if len(case["steps"]) > 1:
        tags += ["pattern-" + case["pattern"], "names-" + case["names"], f"calls{len(case['steps'])}"]
        st_ = case["steps"]
        changed = any(a["model"] == b["model"] and (a["n"], a["A"], a["alpha"]) != (b["n"], b["A"], b["alpha"])
                      and ((a["model"] == "inverse_power_law" and (a["n"], a["A"]) != (b["n"], b["A"])) or
                           (a["model"] == "harmonic_hertz" and a["alpha"] != b["alpha"]))
                      for i, a in enumerate(st_) for b in st_[i + 1:])
        tags.append("same-model-params-changed" if changed else "no-same-model-param-change")
        nontrivial = bool(info_all_interacting(tags) and (changed or "positions-mutated-in-place" in tags))
    return {"nontrivial": nontrivial, "tags": tags, "extra": extra}


def _upgrade(case):
    """Replay files written before the call-sequence extension hold a single call at top level."""
    if "pos_list" in case:
        return case
    files = case["files"]
    step = {"model": case["model"], "n": case["n"], "A": case["A"], "alpha": case["alpha"], "files": files,
            "out": "" if files == "default-name" else "c11out", "pos": 0}
    occ = set(int(t) for t in case["types"])
    return {**case, "base": case["model"], "pos_list": [case["pos"]], "steps": [step], "pattern": "single",
            "names": "single", "species": "species-all-present" if len(occ) == case["K"] else "species-absent"}


def info_all_interacting(tags):
    return "all-interacting" in tags


def _one_call(case, h, snap, written):
    d = case["d"]
    N = len(case["types"])
    dN = d * N
    pos0 = case["pos"].copy()
    files = case["files"]
    out = case["out"]
    stem = out or case["model"]
    if files == "kwargs-omitted":       # documented defaults: saveevecs=True, savehessian=False
        kw = dict(interaction_params=interaction_params(case))
    else:
        kw = dict(interaction_params=interaction_params(case), saveevecs=files != "no-evecs",
                  savehessian=files != "no-hessian")
    save_h = files not in ("no-hessian", "kwargs-omitted")
    save_v = files != "no-evecs"
    if out:
        kw["outputfile"] = out
    f_h, f_v, f_c = (f"{stem}.hessianmatrix.npy", f"{stem}.evecs.npy", f"{stem}.omega_PR.csv")
    with warnings.catch_warnings():
        warnings.simplefilter("ignore", RuntimeWarning)   # np.where(evals > 0, np.sqrt(evals), evals) warns on evals < 0
        ret = h.diagonalize_hessian(**kw)
    require(ret is None, f"diagonalize_hessian returned {type(ret).__name__}, documented: None")
    require(np.array_equal(snap.positions, pos0), "diagonalize_hessian modified the snapshot positions")
    require(os.path.exists(f_c), f"{f_c} was not written (files in cwd: {sorted(os.listdir('.'))})")
    dflt = " (keyword omitted: documented default)" if files == "kwargs-omitted" else ""
    for fn, flag, lab in ((f_h, save_h, "savehessian"), (f_v, save_v, "saveevecs")):
        if flag:
            require(os.path.exists(fn), f"{lab}=True{dflt} but {fn} is missing (files in cwd: {sorted(os.listdir('.'))})")
        elif fn not in written:         # an earlier call of this case may legitimately have left it there
            require(not os.path.exists(fn), f"{lab}=False{dflt} but {fn} was written")
    written.update(fn for fn, flag in ((f_h, save_h), (f_v, save_v)) if flag)

    par = params_of(case)
    ref = hessref.analytic(case["pos"], case["H"], case["ppp"], case["types"], par)
    # preconditions of the oracle (guaranteed by the strategy)
    gap = np.abs(ref.r_all - ref.rc_all) / ref.rc_all
    assert gap.size == 0 or gap.min() > 1e-6, "generator: a pair within 1e-6 of its cut-off"
    t0 = case["types"] - 1
    assert np.all(ref.r_all >= 0.8 * case["sig"][t0[ref.ii], t0[ref.jj]]), "generator: pair closer than 0.8 sigma"
    assert perp_widths(case["H"]).min() > 2 * case["rc"].max(), "generator: cell narrower than 2 r_c"
    Dref, T = ref.D, ref.T
    nrm = float(np.linalg.norm(Dref, 2)) if len(ref.r_in) else 0.0
    lam_ref = np.linalg.eigvalsh(Dref)
    tags = [f"d{d}", f"K{case['K']}", "shift-on" if case["shift"] else "shift-off",
            "mask-full" if case["ppp"].all() else "mask-partial", "cell-tri" if case["tri"] else "cell-ortho",
            "mass-" + case["mmode"], "files-" + files,
            "mass-dict-unordered" if case.get("mass_order", []) != sorted(case.get("mass_order", [])) else "mass-dict-ordered",
            "mass-dict-extra-key" if case.get("mass_extra") else "mass-dict-exact", "images" if case["images"] else "in-box",
            "lattice-exact" if case["jf"] == 0 else "jittered", case["species"],
            "N<=3" if N <= 3 else ("N>=4" if N <= 14 else ("N15-100" if N <= 100 else ("N>100" if N <= 300 else ("N~500" if N < 900 else "N~1000")))),
            "eps-int64" if case.get("eps_int") else "eps-float64"]
    kind = case.get("cellkind") or ("tri" if case["tri"] else "ortho")
    li = case.get("lengths_int", "none")
    off = case["H"] - np.diag(np.diag(case["H"]))
    n_ = case["n"]
    tags += ["cellkind-" + kind, "geom-" + case.get("geometry", "blob"),
             "sigmas-int64" if li in ("sig", "both") else "sigmas-float64",
             "r_cuts-int64" if li in ("rc", "both") else "r_cuts-float64",
             "masses-" + case.get("mass_repr", "float"), "mass-keys-" + case.get("mass_keys", "int"),
             "types-" + case.get("types_dtype", "int64"), "ppp-" + case.get("ppp_dtype", "int64"),
             "length-unit-" + case.get("lunit", "order-1"),
             "energy-unit-" + ("1" if case.get("eunit", 1.0) == 1.0 else ("small" if case.get("eunit", 1.0) < 1 else "large")),
             "mass-scale-" + ("order-1" if 0.05 <= float(np.max(case["masses"])) <= 10 else
                              ("small" if float(np.max(case["masses"])) < 0.05 else "large")),
             "name-subdir" if "/" in stem else ("name-dotted" if "." in stem else "name-plain")]
    if off.any():
        tags.append("tilt-" + ("negative" if (off <= 0).all() else ("positive" if (off >= 0).all() else "mixed-sign")))
    if case["model"] == "inverse_power_law":
        tags.append("ipl-n-" + ("real" if float(n_) != int(n_) else ("odd" if int(n_) % 2 else "even")) +
                    ("-pyint" if isinstance(n_, (int, np.integer)) else ""))
        tags.append("ipl-A-pyint" if isinstance(case["A"], (int, np.integer)) else "ipl-A-float")
    if case["model"] == "harmonic_hertz":
        tags.append("hertz-alpha-pyint" if isinstance(case["alpha"], (int, np.integer)) else "hertz-alpha-float")
    extra = {"interacting_pairs": int(len(ref.r_in)), "nudged_cutoffs": int(case["nudges"])}

    df = pd.read_csv(f_c)
    columns(f_c, df, ["omega", "PR"])
    omega = arr("omega column", col(f_c, df, "omega"), shape=(dN,)).astype(float)
    PR = arr("PR column", col(f_c, df, "PR"), shape=(dN,)).astype(float)
    require(np.all(np.isfinite(omega)) and np.all(np.isfinite(PR)), f"{f_c}: non-finite entries")
    require(np.all(PR > 0) and np.all(PR <= 1 + 1e-12),
            lambda: f"participation ratios outside (0, 1]: min {PR.min()!r} max {PR.max()!r}; {brief(case)}")

    D = None
    if save_h:
        D = arr(f_h, np.load(f_h), shape=(dN, dN)).astype(float)
        require(np.all(np.isfinite(D)), f"{f_h}: non-finite entries")
        # (a) analytic reference
        _worst("hessianmatrix.npy vs M^-1/2 K M^-1/2 of the reference energy (analytic)", D, Dref, T, d, case)
        # symmetry
        _worst("hessianmatrix.npy is not symmetric", D, D.T, 2 * T, d, case)
        # translations
        if case["ppp"].all():
            for c in range(d):
                t = np.zeros(dN)
                t[c::d] = ref.sqrtm[c::d]
                res = np.abs(D @ t)
                allow = 2 * (T @ np.abs(t)) + 1e-12 * (np.abs(D) @ np.abs(t))
                require(np.all(res <= allow),
                        lambda: f"uniform translation along axis {c} (mass weighted) is not annihilated: max |D t| = "
                                f"{res.max():.3e}, allowed {allow.max():.3e}, ||D|| = {nrm:.3e}; {brief(case)}")
            tags.append("translations-checked")
        # (b) finite differences of the reference gradient
        hertz_frac = case["model"] == "harmonic_hertz" and float(case["alpha"]) not in (2.0, 3.0)
        contact_gap = np.min(1.0 - ref.r_in / case["sig"][t0[ref.pairs[0]], t0[ref.pairs[1]]]) if len(ref.r_in) else 1.0
        if len(ref.r_in) and not (hertz_frac and contact_gap < 3e-3):
            g = hessref.gradient_fn(ref, case["H"], case["types"], par, d)
            Kfd = hessref.fd_hessian(g, case["pos"], 1e-5 * case["sig"].min())
            w = 1.0 / ref.sqrtm
            Dfd = Kfd * w[:, None] * w[None, :]
            tol_fd = 1e-5 * ref.scale
            assert np.abs(Dfd - Dref).max() <= tol_fd, \
                f"oracle self-check: analytic reference and FD of the reference gradient differ by " \
                f"{np.abs(Dfd - Dref).max():.3e} > {tol_fd:.3e}"
            _worst("hessianmatrix.npy vs central differences of the reference gradient", D, Dfd, 0 * T, d, case,
                   extra=tol_fd)
            tags.append("fd-gradient")
        else:
            tags.append("fd-gradient-skipped")
        # (c) second differences of the reference energy at the drawn entries
        for (p, q) in case["probes"]:
            if not len(ref.r_in):
                break
            val = hessref.energy_second_difference(ref, case["pos"], case["H"], case["types"], par, p, q)
            allow = T[p, q] + 1e-9 * ref.scale
            require(abs(D[p, q] - val) <= allow,
                    lambda: f"hessianmatrix.npy[{p},{q}] = {D[p, q]!r} but the second difference of the reference energy "
                            f"is {val!r} (allowed |diff| {allow:.3e}); {brief(case)}")
            assert abs(Dref[p, q] - val) <= allow, "oracle self-check: analytic reference vs energy second difference"
        extra["energy_probes"] = len(case["probes"])

    # spectrum: omega^2 for clearly positive eigenvalues = reference eigenvalues (Weyl: |dlambda| <= ||D - Dref||_2)
    tau = 1e-8 * nrm
    weyl = float(np.linalg.norm(T, 2)) + 1e-10 * nrm
    npos = int((lam_ref > tau + weyl).sum())
    if npos:
        want = np.sort(lam_ref[lam_ref > tau + weyl])
        have = np.sort(omega[omega > 0] ** 2)
        miss = _unmatched(want, have, weyl + 1e-10 * nrm)
        require(miss is None,
                lambda: f"positive eigenvalue {miss!r} of the reference matrix has no row with omega = sqrt(lambda) in "
                        f"{f_c}: omega^2 (positive rows) = {have[-8:].tolist()}, reference lambda = {want[-8:].tolist()} "
                        f"(allowed {weyl + 1e-10 * nrm:.3e}); {brief(case)}")
    # ... and the other direction: a row that reports a clearly positive frequency must BE the square root of an
    # eigenvalue (sqrt|lambda| for an unstable mode is not)
    big = np.sort(omega[omega > 0] ** 2)
    big = big[big > tau + 2.0 * (weyl + 1e-10 * nrm)]
    if len(big):
        stray = _unmatched(big, np.sort(lam_ref), weyl + 1e-10 * nrm)
        require(stray is None,
                lambda: f"{f_c}: a row reports omega = {np.sqrt(stray)!r} but omega^2 = {stray!r} is not an eigenvalue of the "
                        f"matrix (one-to-one matching within {weyl + 1e-10 * nrm:.3e}); reference eigenvalues = "
                        f"{np.sort(lam_ref)[-8:].tolist()} ... {np.sort(lam_ref)[:4].tolist()}; {brief(case)}")
    nneg = int((lam_ref < -(tau + 2.0 * (weyl + 1e-10 * nrm))).sum())
    tags.append("positive-modes>=half" if npos * 2 >= dN else "positive-modes<half")
    tags.append("unstable-modes-present" if nneg else "no-unstable-mode")
    extra["positive_modes_checked"] = npos
    extra["positive_rows_matched_back"] = int(len(big))

    if save_v:
        V = arr(f_v, np.load(f_v), shape=(dN, dN)).astype(float)
        require(np.all(np.isfinite(V)), f"{f_v}: non-finite entries")
        require(np.abs(V.T @ V - np.eye(dN)).max() <= 1e-8,
                lambda: f"{f_v}: columns are not orthonormal (max |V^T V - 1| = {np.abs(V.T @ V - np.eye(dN)).max():.3e})")
        # PR of row k = documented formula on column k
        pr_ref = np.array([hessref.participation_ratio(V[:, k].reshape(N, d)) for k in range(dN)])
        bad = np.abs(PR - pr_ref) > 1e-9 * pr_ref
        require(not bad.any(),
                lambda: f"PR column differs from the participation ratio of the saved eigenvectors at modes "
                        f"{np.nonzero(bad)[0][:5].tolist()}: csv {PR[bad][:5].tolist()} formula {pr_ref[bad][:5].tolist()}; "
                        f"{brief(case)}")
        if D is not None and nrm > 0:
            lam = (V * (D @ V)).sum(axis=0)
            resid = np.abs(D @ V - V * lam[None, :]).max()
            require(resid <= 1e-9 * nrm,
                    lambda: f"{f_v}: columns are not eigenvectors of the saved matrix (max residual {resid:.3e}, "
                            f"||D|| = {nrm:.3e})")
            pos_k = lam > tau
            require(np.all(omega[pos_k] > 0) and np.all(np.abs(omega[pos_k] ** 2 - lam[pos_k]) <= 1e-10 * nrm),
                    lambda: f"omega is not sqrt(eigenvalue) of the saved matrix for the positive modes: worst "
                            f"|omega^2 - lambda| = {np.abs(omega[pos_k] ** 2 - lam[pos_k]).max():.3e}, ||D|| = {nrm:.3e}")
            tags.append("eigenpairs-checked")
        elif nrm > 0:
            # the matrix itself was not saved: the eigenvectors must then be eigenvectors of the reference matrix, up to
            # the allowed deviation E of the library's matrix from it (|E| <= T entrywise, so ||E||_2 <= ||T||_2 = weyl)
            lam = (V * (Dref @ V)).sum(axis=0)
            resid = np.sqrt(((Dref @ V - V * lam[None, :]) ** 2).sum(axis=0)).max()
            require(resid <= weyl + 1e-9 * nrm,
                    lambda: f"{f_v}: columns are not eigenvectors of M^-1/2 K M^-1/2 of the reference energy (max residual "
                            f"{resid:.3e}, allowed {weyl + 1e-9 * nrm:.3e}, ||D|| = {nrm:.3e}); {brief(case)}")
            pos_k = lam > tau + weyl
            require(np.all(omega[pos_k] > 0) and np.all(np.abs(omega[pos_k] ** 2 - lam[pos_k]) <= weyl + 1e-10 * nrm),
                    lambda: f"omega is not sqrt(eigenvalue) for the positive modes (matrix not saved; Rayleigh quotients of "
                            f"the saved eigenvectors with the reference matrix): worst |omega^2 - lambda| = "
                            f"{np.abs(omega[pos_k] ** 2 - lam[pos_k]).max():.3e}, ||D|| = {nrm:.3e}; {brief(case)}")
            tags.append("eigenpairs-checked-against-reference")
    elif D is not None and nrm > 0:
        # eigenvectors not saved: the participation ratio of a mode with a SIMPLE eigenvalue is still determined by the
        # saved matrix.  Eigenvector perturbation of a backward-stable symmetric eigensolver: |dv| <= c eps dN ||D|| / gap
        # (c eps = 1e-14); PR = S^2 / (N Q) with |dS| <= 2 |dv|, |dQ| / Q <= 4 N |dv|  =>  |dPR| / PR <= 4 (N + 1) |dv|.
        lam_d, V_d = np.linalg.eigh(D)
        gap = np.full(dN, np.inf)
        if dN > 1:
            dl = np.diff(lam_d)
            gap[:-1] = dl
            gap[1:] = np.minimum(gap[1:], dl)
        simple = np.nonzero((gap > 1e-6 * nrm) & (lam_d > tau))[0]
        nchk = 0
        for k in simple:
            rows = np.nonzero(np.abs(omega ** 2 - lam_d[k]) <= 1e-9 * nrm)[0]
            rows = rows[omega[rows] > 0]
            if len(rows) != 1:
                continue
            dv = 1e-14 * dN * nrm / gap[k]
            want = hessref.participation_ratio(V_d[:, k].reshape(N, d))
            require(abs(PR[rows[0]] - want) <= (4.0 * (N + 1) * dv + 1e-9) * want,
                    lambda: f"eigenvectors not saved: the PR reported for omega = {omega[rows[0]]!r} is {PR[rows[0]]!r}, but the "
                            f"(simple, gap {gap[k]:.3e}) eigenvalue {lam_d[k]!r} of the saved matrix has an eigenvector with "
                            f"participation ratio {want!r}; {brief(case)}")
            nchk += 1
        extra["pr_checked_without_evecs"] = nchk
        tags.append("pr-from-saved-matrix" if nchk else "pr-from-saved-matrix-none-simple")

    everyone = bool(np.all(ref.coord >= 1))
    tags.append("all-interacting" if everyone else "some-isolated")
    occ = sorted(set(int(t) for t in case["types"]))
    two_masses = len({float(case["masses"][t - 1]) for t in occ}) >= 2
    nontrivial = bool(everyone and (two_masses or case["species"] == "species-absent-below-a-present-one"))
    return {"nontrivial": nontrivial, "tags": tags, "extra": extra}


def describe(case):
    case = _upgrade(case)
    out = brief({**case, **case["steps"][0]})
    out["steps"] = [{k: v for k, v in st_.items()} for st_ in case["steps"]]
    out["H"] = np.round(case["H"], 4).tolist()
    out["pos0"] = np.round(case["pos_list"][0][:3], 4).tolist()
    return out


# ----------------------------------------------------------------------------- pair_matrix as a pure function


@st.composite
def _one_block(draw, d):
    kind = draw(st.sampled_from(["generic", "generic", "axis", "small-component", "integer"]))
    if kind == "integer":       # h.pair_matrix([1, 3, 2], ...): integer components, as Python ints or an int64 array
        v = np.array([float(draw(st.integers(-3, 3))) for _ in range(d)])
        if not v.any():
            v[draw(st.integers(0, d - 1))] = float(draw(st.sampled_from([-2, 1, 3])))
        rep = draw(st.sampled_from(["int-list", "int-array", "list", "array"]))
    else:
        v = np.array([draw(st.one_of(st.integers(-30, 30).map(lambda k: k / 10.0), fl(-3.0, 3.0))) for _ in range(d)])
        if kind == "axis":
            keep = draw(st.integers(0, d - 1))
            v = np.where(np.arange(d) == keep, v, 0.0)
        elif kind == "small-component":
            v[draw(st.integers(0, d - 1))] *= 1e-6
        if np.linalg.norm(v) < 0.3:
            v[draw(st.integers(0, d - 1))] = draw(st.sampled_from([-1.0, 0.5, 1.25]))
        v = v * draw(st.sampled_from([1.0, 1.0, 1.0, 0.01, 100.0]))         # other length units
        rep = draw(st.sampled_from(["list", "array"]))
    s = [draw(st.one_of(st.sampled_from([0.0, 1.0, -1.0]), fl(-100.0, 100.0))) for _ in range(3)]
    return {"v": v, "s": s, "rep": rep, "kind": kind, "dudrs": draw(st.sampled_from(["list", "list", "tuple", "array"]))}


@st.composite
def block_st(draw):
    d = draw(st.sampled_from([2, 3]))
    first = draw(_one_block(d))
    out = {"d": d, **first, "as_list": first["rep"].endswith("list")}
    if draw(st.integers(0, 2)) == 0:
        out["second"] = draw(_one_block(d))         # another pair evaluated with the SAME HessianMatrix object
    return out


def _check_one_block(h, d, blk, label):
    v = blk["v"]
    s1, s1rc, s2 = blk["s"]
    rep = blk.get("rep") or ("list" if blk.get("as_list") else "array")
    if rep.startswith("int-"):
        vi = np.rint(v).astype(np.int64)
        assert np.array_equal(vi, v), "generator: integer representation of a non-integer vector"
        Rji = [int(x) for x in vi] if rep == "int-list" else vi
    else:
        Rji = v.tolist() if rep == "list" else v.copy()
    dudrs = {"list": list, "tuple": tuple, "array": lambda x: np.array(x, dtype=float)}[blk.get("dudrs", "list")]([s1, s1rc, s2])
    out = h.pair_matrix(Rji, dudrs)
    require(isinstance(out, tuple) and len(out) == 2, f"pair_matrix returned {type(out).__name__}, expected a pair")
    Bi = arr("dudr2i", out[0], shape=(d, d)).astype(float)
    Bj = arr("dudr2j", out[1], shape=(d, d)).astype(float)
    r = float(np.sqrt(np.sum(v * v)))
    u = v / r
    want = s2 * np.outer(u, u) + (s1 - s1rc) / r * (np.eye(d) - np.outer(u, u))
    tol = 1e-12 * (abs(s2) + abs(s1 - s1rc) / r) + 1e-300   # floor: the relative term underflows for tiny s
    bad = np.abs(Bi - want) > tol
    require(not bad.any(),
            lambda: f"pair_matrix block centred on i{label}: got {Bi.tolist()}, want s2 uu^T + (s1-s1rc)(1-uu^T)/r = "
                    f"{want.tolist()} (tol {tol:.2e}); Rji={Rji!r} [s1,s1rc,s2]={blk['s']}")
    require(np.array_equal(Bj, -Bi), lambda: f"pair_matrix{label}: block centred on j is not the negative of the block on i: "
                                             f"{Bj.tolist()} vs {Bi.tolist()}")
    if isinstance(Rji, np.ndarray):
        require(np.array_equal(Rji, v), f"pair_matrix{label} modified its input vector")
    nz = int(np.count_nonzero(v))
    return bool(nz == d and s1 != s1rc and s2 != 0), rep


def check_block(case):
    d = case["d"]
    h = HessianMatrix(snapshot=None, masses={1: 1.0}, epsilons=np.ones((1, 1)), sigmas=np.ones((1, 1)),
                      r_cuts=np.ones((1, 1)), ppp=np.ones(d, dtype=int))
    nt, rep = _check_one_block(h, d, case, "")
    mag = float(np.abs(case["v"]).max())
    tags = [f"d{d}", case["kind"], "Rji-" + rep, "dudrs-" + case.get("dudrs", "list"), "s1rc=0" if case["s"][1] == 0 else "s1rc!=0",
            "length-small" if mag < 0.05 else ("length-large" if mag > 5 else "length-order-1")]
    if case.get("second"):
        nt2, rep2 = _check_one_block(h, d, case["second"], " (second pair on the same object)")
        nt = nt or nt2
        tags.append("second-call-same-object")
    return {"nontrivial": nt, "tags": tags}


_RULE = ("full pipeline on generated configurations; oracles (a) analytic, (b) FD of gradient, (c) second differences of "
         "the energy, symmetry, translations, spectrum, PR; non-trivial = every particle interacting and (unequal masses "
         "among the occurring species or a declared species absent below an occurring one)")
FACETS = [
    Facet("lennard_jones", case_st("lennard_jones"), check, quick=600, thorough=24000, describe=describe, rule=_RULE,
          shards_quick=4),
    Facet("inverse_power_law", case_st("inverse_power_law"), check, quick=600, thorough=24000, describe=describe,
          rule=_RULE, shards_quick=4),
    Facet("harmonic_hertz", case_st("harmonic_hertz"), check, quick=600, thorough=24000, describe=describe, rule=_RULE,
          shards_quick=4),
    Facet("call_sequence", case_st(None, seq=True), check, quick=240, thorough=12000, describe=describe, shards_quick=4,
          rule="ONE HessianMatrix object, 2-3 diagonalize_hessian calls: same model with a changed exponent / prefactor, "
               "model A - model B - model A, free; distinct output names, the same name reused, default names; in a "
               "third of the cases a second configuration is written into snapshot.positions in place between calls; "
               "every call's files are compared with the oracle for that call; non-trivial = every particle "
               "interacting and (a same-model parameter change or an in-place position change)"),
    Facet("large_system", case_st(None, size="large"), check, quick=16, thorough=640, describe=describe, shards_quick=4,
          quick_budget_s=240.0, thorough_budget_s=1500.0,
          rule="the lattice fills the periodic cell: N = 99, 100, 101, 102, 128, 129 or every site (up to 260) - beyond the "
               "progress-log stride of 100 particles and any plausible chunk size; same oracles; non-trivial as above"),
    Facet("huge_system", case_st(None, size="huge"), check, quick=0, thorough=48, describe=describe,
          thorough_budget_s=3000.0, shards_thorough=4,
          rule="thorough tier only: filled geometry with N = 1000, 1001, 1024 (2D 32 x 32, 3D 10 x 10 x 10 sites); same oracles"),
    Facet("pair_matrix", block_st(), check_block, quick=600, thorough=100000,
          describe=lambda c: {"d": c["d"], "Rji": c["v"].tolist(), "s": c["s"], "rep": c.get("rep"), "second": bool(c.get("second"))},
          rule="Rji in [-3,3]^d x {1, 0.01, 100} (incl. axis-aligned, one tiny component, integer components as Python ints / "
               "int64), [s1, s1rc, s2] in [-100,100]^3 as list / tuple / array; optionally a second pair on the same "
               "object; non-trivial = all components non-zero, s1 != s1rc, s2 != 0"),
]
