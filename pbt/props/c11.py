"""C11 — the saved Hessian is M^(-1/2) (d2U/dr_i dr_j) M^(-1/2) of the documented pair energy.

Code under test: PyMatterSim/static/hessians.py: HessianMatrix.pair_matrix, HessianMatrix.diagonalize_hessian and its
three output files (<out>.hessianmatrix.npy, <out>.evecs.npy, <out>.omega_PR.csv); static/vector.py:
participation_ratio.

Facets
  lennard_jones / inverse_power_law / harmonic_hertz   (full pipeline, one per potential)
      "separated" configurations (blob of 4..14 jittered lattice sites, wrapped through the cell faces, optional
      lattice-image offsets), 2D/3D, K = 1..3 species, equal and UNEQUAL masses, symmetric float parameter matrices,
      shift on/off, periodicity masks, orthogonal and (fully periodic) tilted cells.  Oracles:
        (a) analytic blocks from sympy-differentiated phi (40 digits) assembled to D = M^-1/2 K M^-1/2, compared
            entrywise with <out>.hessianmatrix.npy under a derived tolerance matrix;
        (b) central finite differences (float64) of the independently coded gradient of U (1e-5 of the term scale);
        (c) four-point second differences of the independently coded ENERGY itself (hand-coded s(r), 60 digits) at
            drawn index pairs;
        symmetry; annihilation of the d mass-weighted uniform translations (full periodicity); evecs are an
        orthonormal eigenbasis of the saved matrix, omega = sqrt(lambda) for clearly positive lambda, spectrum equals
        the reference spectrum (Weyl bound); PR in (0,1] and equal to the documented formula on <out>.evecs.npy;
        file-saving flags and the default output name.
      Species class (extension 1): K = 2..3 species are DECLARED in the parameter matrices / mass dict but one (sometimes
      two) of them does not occur in the snapshot, preferably not the highest one; the oracle indexes every parameter
      by type id - 1.  Minimal sizes N = 1, 2, 3 are a class of their own.
  call_sequence  (extension 1: state carried between calls)
      ONE HessianMatrix object, 2-3 diagonalize_hessian calls: the same model with a changed ipl_n / ipl_A /
      harmonic_hertz_alpha, model A - model B - model A, free sequences; distinct output names, one name reused, default
      names; in a third of the cases a second configuration of the same particles is written into snapshot.positions
      IN PLACE between calls (HessianMatrix keeps the snapshot by reference and reads it at call time, L257-258).
      Every call's three files are compared with the oracle for that call's parameters and positions.
  pair_matrix
      the pair block as a pure function of (Rji, [s1, s1rc, s2]): s2 u u^T + (s1 - s1rc)(1 - u u^T)/r, and its
      negative, 2D and 3D, list or array input.

Preconditions imposed on the generator (documented domain / what callers pass):
  * type ids within 1..K (K = number of declared species; in the 'absent' class not all occur); float parameter matrices of shape (K,K), symmetric (hessians.py L149-185);
    masses dict {type: float > 0};
  * no pair closer than 0.8 sigma_ab (by construction: lattice spacing minus jitter), no pair within 1e-6 (relative)
    of its cut-off (by construction: the offending cut-off is nudged), so cut-off membership is unambiguous;
  * cell: every perpendicular width > 2 max r_c (at most one image of a pair can interact; L279 uses the single
    minimum image) and > blob diameter + max r_c; tilted cells only with full periodicity (LAMMPS rule);
  * harmonic/Hertz: r_c = sigma (potential defined for r <= sigma), alpha in [2, 3].
"""
from __future__ import annotations

import itertools
import os
import warnings

import numpy as np
import pandas as pd
from hypothesis import strategies as st
from hypothesis.extra import numpy as hnp

from ..gen import fl, nice_float, snapshot_from
from ..harness import Facet, Violation
from ..ref import geom, hessref
from ..util import arr, col, columns, require

from PyMatterSim.static.hessians import HessianMatrix, InteractionParams, ModelName

RULE = ("configurations: 4..14 particles on a jittered sub-lattice blob (min distance >= 0.8 sigma_max), placed anywhere "
        "in an orthogonal or tilted cell (widths > 2 r_c,max), wrapped, optional image offsets; d in {2,3}; K in 1..3; "
        "masses equal / unequal; symmetric float epsilon, sigma, r_c matrices; LJ, IPL (n in {6,10,12} or real, A), "
        "harmonic/Hertz (alpha in {2, 2.5} or real, r_c = sigma); shift on/off; all periodicity masks; "
        "species declared but absent; call sequences on one object. non-trivial = every particle has an interacting "
        "partner and (>= 2 occurring species with unequal masses, or an absent species below an occurring one)")
ASSUMPTIONS = [
    "specification = truncated pair energy of the documented s(r), force-shifted with the documented cut-off slope when "
    "shifting is on (Hertz: documented slope 0); derivatives by sympy, 40-digit mpmath evaluation (trusted)",
    "entrywise tolerance of the matrix comparison is derived: 1e-10 x (sum of |terms| of s'' and (s'-s'(rc))/r) per pair "
    "+ variation of the reference when the pair distance moves by 64 eps_mach (max|x| + max|H|) (float64 positions); "
    "blocks of non-interacting pairs must be exactly zero",
    "finite differences: gradient route float64, h = 1e-5 sigma_min, tolerance 1e-5 of the largest pair term, skipped "
    "for non-integer Hertz exponents when a pair is within 3e-3 sigma of contact; energy route 60 digits, h = 1e-12 "
    "sigma_min, tolerance = analytic tolerance + 1e-9 of the largest pair term",
    "frequencies are only asserted for eigenvalues > 1e-8 ||D|| (the statement defines omega = sqrt(lambda)); what is "
    "reported for non-positive eigenvalues is not asserted; row order of omega_PR.csv is tied to the columns of "
    "evecs.npy, not to a sort order",
    "cut-off membership: no generated pair lies within 1e-6 r_c of its cut-off",
    "parameter matrices / mass dict are indexed by type id - 1 (documented: 'for all pairs of particle type', masses "
    "{1: .., 2: ..}) also when a declared species does not occur in the snapshot",
    "call_sequence: the object holds the snapshot by reference; a result must reflect the interaction parameters and "
    "the snapshot contents at the time of the call (an implementation that copied the positions at construction "
    "would be reported by the in-place class)",
]
MANIFEST = {
    "text": ("Generated-configuration differential check of HessianMatrix.diagonalize_hessian / pair_matrix: the saved "
             "dN x dN matrix against an independently coded truncated(-and-force-shifted) pair energy via analytic "
             "blocks (sympy/mpmath, derived entrywise tolerance), finite differences of the reference gradient and "
             "60-digit second differences of the reference energy; symmetry, translation null vectors, eigenbasis / "
             "frequency / participation-ratio consistency of the three output files; 2D/3D, K = 1..3, equal and "
             "unequal masses, declared-but-absent species, N = 1..14, three potentials, shift on/off, masks, orthogonal "
             "and tilted cells; call sequences on one object (changed exponents / prefactors, A-B-A, reused output "
             "names, positions rewritten in place) (facets: lennard_jones, inverse_power_law, harmonic_hertz, "
             "call_sequence, pair_matrix)."),
    "note": ("Sampling, not proof. N <= 14 particles; cells wide enough that a pair interacts through at most one "
             "image; pairs within 1e-6 of a cut-off are not generated; Hertz only with r_c = sigma. Trusted base: "
             "sympy, mpmath, numpy.linalg.eigvalsh."),
    "technique": ("property-based testing (Hypothesis): reference-model differential (independent energy -> analytic "
                  "and finite-difference Hessian) + algebraic invariants (symmetry, null space, eigen-decomposition)"),
}

MODELS = ("lennard_jones", "inverse_power_law", "harmonic_hertz")
# lattice spacing / sigma_max, smallest sigma ratio, cut-off factor range
GEOM = {"lennard_jones": ((0.95, 1.3), 0.7, (1.5, 2.5)),
        "inverse_power_law": ((0.9, 1.1), 0.75, (1.3, 1.8)),
        "harmonic_hertz": ((0.84, 0.92), 0.9, (1.0, 1.0))}
DMIN = 0.81   # guaranteed min distance / sigma_max (0.8 + room for the cut-off nudges)
NEAR = 2e-6   # relative distance to a cut-off that triggers a nudge (asserted 1e-6 in check)


# ----------------------------------------------------------------------------- strategy


def _sym(draw, K, lo, hi, special=()):
    m = np.zeros((K, K))
    for a in range(K):
        for b in range(a, K):
            v = draw(st.one_of(st.sampled_from(list(special)), nice_float(lo, hi))) if special else draw(nice_float(lo, hi))
            m[a, b] = m[b, a] = v
    return m


def perp_widths(H):
    Hi = np.linalg.inv(H)
    return 1.0 / np.sqrt((Hi * Hi).sum(axis=0))


@st.composite
def species_st(draw, N, K):
    """Type ids in 1..K.  Mostly every declared species occurs; in the 'absent' class one (sometimes two) declared
    species does not occur in the snapshot - preferably not the highest one (a pure-species-2 run analysed with the
    binary mixture's parameter file).  Returns (types, class tag)."""
    present = list(range(1, K + 1))
    if K >= 2 and draw(st.integers(0, 2)) == 0:
        present.remove(draw(st.sampled_from(list(range(1, K)) * 2 + [K])))
        if len(present) > 1 and draw(st.integers(0, 3)) == 0:
            present.remove(draw(st.sampled_from(present)))
    head = list(draw(st.permutations(present)))[:N]
    rest = draw(st.lists(st.sampled_from(present), min_size=N - len(head), max_size=N - len(head)))
    t = head + rest
    perm = draw(st.permutations(range(N)))
    types = np.array([t[i] for i in perm], dtype=int)
    occ = set(types.tolist())
    missing = [k for k in range(1, K + 1) if k not in occ]
    if not missing:
        tag = "species-all-present"
    elif any(k < max(occ) for k in missing):
        tag = "species-absent-below-a-present-one"
    else:
        tag = "species-absent-top-only"
    return types, tag


def _model_params(draw):
    n = draw(st.sampled_from([6, 10, 12, 10.0, 12.0])) if draw(st.integers(0, 3)) else draw(fl(4.0, 14.0))
    A = draw(st.one_of(st.just(1.0), nice_float(0.5, 3.0)))
    alpha = draw(st.sampled_from([2.0, 2.5, 2.0, 2.5, 3.0])) if draw(st.integers(0, 3)) else draw(fl(2.0, 3.0))
    return {"n": n, "A": A, "alpha": alpha}


FILES = ["both", "both", "both", "both", "no-evecs", "no-hessian", "default-name"]


def _steps(draw, base, two_positions):
    """Call sequence on ONE HessianMatrix object.  Hertz needs r <= sigma = r_c, so it only joins sequences on
    Hertz geometry; LJ and IPL are defined for any cut-off and appear on every geometry."""
    allowed = list(MODELS) if base == "harmonic_hertz" else ["lennard_jones", "inverse_power_law"]
    with_par = [m for m in allowed if m != "lennard_jones"]
    pattern = draw(st.sampled_from(["same-model-new-params", "same-model-new-params", "A-B-A", "free"]))
    nsteps = draw(st.integers(2, 3))
    steps = []
    if pattern == "same-model-new-params":
        m = draw(st.sampled_from(with_par))
        first = _model_params(draw)
        for k in range(nsteps):
            mp_ = dict(first)
            if k:
                which = "alpha" if m == "harmonic_hertz" else draw(st.sampled_from(["n", "A", "n"]))
                new = _model_params(draw)[which]
                if new == steps[-1][which]:
                    new = {"n": 8, "A": 1.75, "alpha": 2.25}[which] if new != {"n": 8, "A": 1.75, "alpha": 2.25}[which] \
                        else {"n": 9, "A": 2.5, "alpha": 2.75}[which]
                mp_ = {**steps[-1], which: new}
                mp_ = {k_: mp_[k_] for k_ in ("n", "A", "alpha")}
            steps.append({"model": m, **mp_})
    elif pattern == "A-B-A":
        ma = draw(st.sampled_from(allowed))
        mb = draw(st.sampled_from([m for m in allowed if m != ma]))
        pa = _model_params(draw)
        steps = [{"model": ma, **pa}, {"model": mb, **_model_params(draw)},
                 {"model": ma, **(pa if draw(st.booleans()) else _model_params(draw))}]
    else:
        steps = [{"model": draw(st.sampled_from(allowed)), **_model_params(draw)} for _ in range(nsteps)]
    names = draw(st.sampled_from(["distinct", "same", "same", "default"]))
    cur = 0
    for k, stp in enumerate(steps):
        stp["files"] = draw(st.sampled_from(FILES[:6])) if names != "default" else "default-name"
        stp["out"] = {"distinct": f"c11seq{k}", "same": "c11seq", "default": ""}[names]
        if two_positions and k and draw(st.booleans()):
            cur = 1 - cur
        stp["pos"] = cur
    if two_positions and all(stp["pos"] == 0 for stp in steps):
        steps[-1]["pos"] = 1
    return steps, pattern, names


@st.composite
def case_st(draw, model=None, seq=False):
    if model is None:
        model = draw(st.sampled_from(MODELS))
    d = draw(st.sampled_from([2, 3]))
    K = draw(st.sampled_from([1, 2, 2, 3, 3]))
    (fa_lo, fa_hi), smin, (c_lo, c_hi) = GEOM[model]
    unit = draw(st.sampled_from([1.0, 1.0, 0.7, 1.6]))
    sig = _sym(draw, K, smin, 1.0)
    sig = sig / sig.max() * unit
    smax = sig.max()
    if model == "harmonic_hertz":
        rc = sig.copy()
    else:
        rc = sig * _sym(draw, K, c_lo, c_hi)
    eps = _sym(draw, K, 0.5, 2.0, special=(1.0,))
    # argument representation: integer-valued energy scales handed over as an int64 array (np.array([[1, 2], [2, 1]]));
    # a work array made with zeros_like(epsilons) inherited that dtype and truncated 1/sqrt(m_i m_j) (fix 8de5ede)
    eps_int = draw(st.integers(0, 4)) == 0
    if eps_int:
        eps = np.zeros((K, K))
        for a in range(K):
            for b in range(a, K):
                eps[a, b] = eps[b, a] = float(draw(st.integers(1, 3)))
    mmode = draw(st.sampled_from(["unequal", "unequal", "equal-1", "equal-m"])) if K > 1 else \
        draw(st.sampled_from(["equal-1", "equal-m"]))
    if mmode == "equal-1":
        masses = np.ones(K)
    elif mmode == "equal-m":
        masses = np.full(K, draw(nice_float(0.5, 5.0)))
    else:
        masses = np.array(draw(st.lists(st.integers(5, 50), min_size=K, max_size=K, unique=True)), dtype=float) / 10.0
    # --- blob of lattice sites
    a0 = smax * draw(fl(fa_lo, fa_hi))
    stretch = [0.0, 0.0, 0.03, 0.06] if model == "harmonic_hertz" else [0.0, 0.0, 0.1, 0.25]
    ak = a0 * (1.0 + np.array([draw(st.sampled_from(stretch)) for _ in range(d)]))
    bl = [draw(st.integers(2, 4)) for _ in range(d)] if d == 2 else [draw(st.integers(1, 3)) for _ in range(d)]
    if int(np.prod(bl)) < 4:
        bl[0], bl[1] = 2, 2
    sites = np.array(list(itertools.product(*[range(b) for b in bl])), dtype=float)
    if draw(st.integers(0, 11)) == 0:
        N = draw(st.integers(1, 3))          # minimal sizes: one particle (no pair), one pair, three
    else:
        N = draw(st.integers(4, min(14, len(sites))))
    order = draw(st.permutations(range(len(sites))))
    sites = sites[list(order[:N])]
    jmax = (a0 - DMIN * smax) / (2.0 * np.sqrt(d))
    jf = draw(st.sampled_from([0.0, 0.3, 1.0, 1.0]))
    jit = jf * jmax * draw(hnp.arrays(np.float64, (N, d), elements=fl(-1.0, 1.0)))
    locals_ = [sites * ak + jit]
    two_positions = seq and draw(st.integers(0, 2)) == 0
    if two_positions:   # a second configuration of the same particles, written into snapshot.positions in place
        locals_.append(sites * ak + max(jf, 0.3) * jmax * draw(hnp.arrays(np.float64, (N, d), elements=fl(-1.0, 1.0))))
    diam = float(np.linalg.norm((np.array(bl) - 1) * ak + 2 * max(jf, 0.3 if two_positions else 0.0) * jmax))
    # --- cell
    ppp = np.ones(d, dtype=int)
    if draw(st.booleans()):
        ppp = np.array(draw(st.sampled_from(list(itertools.product([0, 1], repeat=d)))), dtype=int)
    tri = bool(ppp.all()) and draw(st.integers(0, 2)) == 0
    W = 1.06 * max(2.0 * rc.max(), diam + rc.max())
    L = W * np.array([draw(st.sampled_from([1.0, 1.0, 1.3, 2.0])) for _ in range(d)])
    Hm = np.diag(L)
    if tri:
        Hm[1, 0] = draw(fl(-0.5, 0.5)) * L[0]
        if d == 3:
            Hm[2, 0] = draw(fl(-0.5, 0.5)) * L[0]
            Hm[2, 1] = draw(fl(-0.5, 0.5)) * L[1]
        if not np.any(Hm - np.diag(L)):
            Hm[1, 0] = 0.3 * L[0]
        w = perp_widths(Hm).min()
        if w < W:
            Hm = Hm * (W / w * 1.001)
    lo = np.zeros(d) if draw(st.booleans()) else np.array([draw(nice_float(-20.0, 20.0)) for _ in range(d)])
    origin = draw(hnp.arrays(np.float64, (d,), elements=fl(0.0, 1.0, exclude_max=True))) @ Hm
    images = np.zeros((N, d))
    if draw(st.booleans()):
        images = draw(hnp.arrays(np.int64, (N, d), elements=st.integers(-1, 1))).astype(float) * ppp
    pos_list = []
    for local in locals_:
        f = geom.frac_coords(origin + local, Hm)
        f = f - np.floor(f)      # wrapped through every face (also the open ones: then the halves do not interact)
        pos_list.append(lo + (f + images) @ Hm)
    types, species_tag = draw(species_st(N, K))
    shift = draw(st.integers(0, 9)) % 2 == 0
    # --- keep every pair clear of its cut-off (construction, not rejection)
    geo = [hessref.pair_geometry(p_, Hm, ppp) for p_ in pos_list]
    ii, jj = geo[0][0], geo[0][1]
    ta, tb = types[ii] - 1, types[jj] - 1
    ta, tb = np.tile(ta, len(geo)), np.tile(tb, len(geo))
    r = np.concatenate([g_[4] for g_ in geo])
    nudges = 0
    for _ in range(60):
        near = np.abs(r - rc[ta, tb]) <= NEAR * rc[ta, tb]
        if not near.any():
            break
        for a_, b_ in {(int(x), int(y)) for x, y in zip(ta[near], tb[near])}:
            rc[a_, b_] = rc[b_, a_] = rc[a_, b_] * 1.0001
            if model == "harmonic_hertz":
                sig[a_, b_] = sig[b_, a_] = rc[a_, b_]
        nudges += 1
    if seq:
        steps, pattern, names = _steps(draw, model, two_positions)
    else:
        files = draw(st.sampled_from(FILES))
        steps = [{"model": model, **_model_params(draw), "files": files,
                  "out": "" if files == "default-name" else "c11out", "pos": 0}]
        pattern, names = "single", "single"
    probes = [(draw(st.integers(0, N * d - 1)), draw(st.integers(0, N * d - 1))) for _ in range(3 if not seq else 1)]
    return {"base": model, "d": d, "K": K, "H": Hm, "lo": lo, "tri": tri, "pos_list": pos_list, "types": types,
            "ppp": ppp, "eps": eps, "eps_int": eps_int, "sig": sig, "rc": rc, "masses": masses, "mmode": mmode, "steps": steps,
            # the masses dictionary is looked up by type id: its insertion order carries no meaning (seeded C11-C took
            # the t-th inserted value for type t) and it may hold types that do not occur in the system
            "mass_order": list(draw(st.permutations(range(K)))) if draw(st.booleans()) else list(range(K)),
            "mass_extra": draw(st.sampled_from([None, None, 7.5])),
            "shift": shift, "probes": probes, "images": bool(np.any(images)), "jf": jf, "species": species_tag,
            "pattern": pattern, "names": names, "nudges": nudges, "default_shift": draw(st.booleans())}


# ----------------------------------------------------------------------------- running the code under test


def interaction_params(case):
    m = case["model"]
    if m == "lennard_jones":
        return InteractionParams(model_name=ModelName.lennard_jones)
    if m == "inverse_power_law":
        return InteractionParams(model_name=ModelName.inverse_power_law, ipl_n=case["n"], ipl_A=case["A"])
    return InteractionParams(model_name=ModelName.harmonic_hertz, harmonic_hertz_alpha=case["alpha"])


def make_hessian(case):
    cell = {"H": case["H"], "lo": case["lo"], "kind": "tri" if case["tri"] else "ortho"}
    snap = snapshot_from(cell, case["pos_list"][0].copy(), case["types"])
    masses = {k + 1: float(case["masses"][k]) for k in case.get("mass_order", range(len(case["masses"])))}
    if case.get("mass_extra"):
        masses[len(case["masses"]) + 1] = float(case["mass_extra"])      # a species the system does not contain
    eps = case["eps"].astype(np.int64) if case.get("eps_int") else case["eps"].copy()
    kw = dict(snapshot=snap, masses=masses, epsilons=eps, sigmas=case["sig"].copy(),
              r_cuts=case["rc"].copy(), ppp=case["ppp"].copy())
    if not (case["shift"] and case["default_shift"]):
        kw["shiftpotential"] = case["shift"]        # documented default: True
    return HessianMatrix(**kw), snap


def params_of(case):
    return hessref.Params(case["model"], case["shift"], case["eps"], case["sig"], case["rc"], case["n"], case["A"],
                          case["alpha"], case["masses"])


def brief(case):
    return {"model": case["model"], "step": case.get("step", 0), "sequence": case.get("sequence"), "d": case["d"], "N": int(len(case["types"])), "K": case["K"],
            "types": np.asarray(case["types"]).tolist(), "masses": np.asarray(case["masses"]).tolist(),
            "shift": case["shift"], "ppp": np.asarray(case["ppp"]).tolist(), "tri": case["tri"],
            "n": case["n"], "A": case["A"], "alpha": case["alpha"]}


def _worst(name, got, want, T, d, case, extra=0.0):
    bad = ~(np.abs(got - want) <= T + extra)
    if bad.any():
        err = np.where(bad, np.abs(got - want) - T - extra, -1)
        p, q = np.unravel_index(int(np.argmax(err)), err.shape)
        i, j = p // d, q // d
        t = case["types"]
        raise Violation(
            f"{name}: {int(bad.sum())}/{got.size} entries outside the tolerance; worst at [{p},{q}] = particles "
            f"({i},{j}) types ({int(t[i])},{int(t[j])}) axes ({p % d},{q % d}): got {got[p, q]!r}, reference "
            f"{want[p, q]!r}, allowed |diff| {T[p, q] + extra:.3e}; {brief(case)}")


def _unmatched(want, have, tol):
    """Both ascending.  Greedy one-to-one matching |want - have| <= tol; returns the first unmatched `want` or None."""
    k = 0
    for w in want:
        while k < len(have) and have[k] < w - tol:
            k += 1
        if k == len(have) or have[k] > w + tol:
            return float(w)
        k += 1
    return None


def check(case):
    """One HessianMatrix object, one or several diagonalize_hessian calls; every call is compared with the oracle for
    the parameters of THAT call and the snapshot contents at the time of THAT call."""
    case = _upgrade(case)
    h, snap = make_hessian(case)
    stems = {(st_["out"] or st_["model"]) for st_ in case["steps"]}
    for stem in stems:                  # the scratch cwd is shared by the cases of one worker
        for suffix in (".hessianmatrix.npy", ".evecs.npy", ".omega_PR.csv"):
            if os.path.exists(stem + suffix):
                os.remove(stem + suffix)
    seq = [(st_["model"], st_["n"], st_["A"], st_["alpha"], st_["pos"], st_["out"]) for st_ in case["steps"]]
    tags, extra, nontrivial = [], {}, True
    written = set()
    cur = 0
    for k, step in enumerate(case["steps"]):
        if step["pos"] != cur:          # the next configuration is written into the SAME positions array
            snap.positions[...] = case["pos_list"][step["pos"]]
            cur = step["pos"]
            tags.append("positions-mutated-in-place")
        c = {**case, **step, "pos": case["pos_list"][step["pos"]], "step": k,
             "sequence": seq if len(seq) > 1 else None}
        info = _one_call(c, h, snap, written)
        nontrivial = nontrivial and info["nontrivial"]
        tags += info["tags"] if k == 0 else [t for t in info["tags"] if t.startswith(("files-", "fd-", "eigen"))]
        for key, val in info["extra"].items():
            extra[key] = extra.get(key, 0) + val
    if len(case["steps"]) > 1:
        tags += ["pattern-" + case["pattern"], "names-" + case["names"], f"calls{len(case['steps'])}"]
        st_ = case["steps"]
        changed = any(a["model"] == b["model"] and (a["n"], a["A"], a["alpha"]) != (b["n"], b["A"], b["alpha"])
                      and ((a["model"] == "inverse_power_law" and (a["n"], a["A"]) != (b["n"], b["A"])) or
                           (a["model"] == "harmonic_hertz" and a["alpha"] != b["alpha"]))
                      for i, a in enumerate(st_) for b in st_[i + 1:])
        tags.append("same-model-params-changed" if changed else "no-same-model-param-change")
        nontrivial = bool(info_all_interacting(tags) and (changed or "positions-mutated-in-place" in tags))
    return {"nontrivial": nontrivial, "tags": tags, "extra": extra}


def _upgrade(case):
    """Replay files written before the call-sequence extension hold a single call at top level."""
    if "pos_list" in case:
        return case
    files = case["files"]
    step = {"model": case["model"], "n": case["n"], "A": case["A"], "alpha": case["alpha"], "files": files,
            "out": "" if files == "default-name" else "c11out", "pos": 0}
    occ = set(int(t) for t in case["types"])
    return {**case, "base": case["model"], "pos_list": [case["pos"]], "steps": [step], "pattern": "single",
            "names": "single", "species": "species-all-present" if len(occ) == case["K"] else "species-absent"}


def info_all_interacting(tags):
    return "all-interacting" in tags


def _one_call(case, h, snap, written):
    d = case["d"]
    N = len(case["types"])
    dN = d * N
    pos0 = case["pos"].copy()
    files = case["files"]
    out = case["out"]
    stem = out or case["model"]
    kw = dict(interaction_params=interaction_params(case), saveevecs=files != "no-evecs",
              savehessian=files != "no-hessian")
    if out:
        kw["outputfile"] = out
    f_h, f_v, f_c = (f"{stem}.hessianmatrix.npy", f"{stem}.evecs.npy", f"{stem}.omega_PR.csv")
    with warnings.catch_warnings():
        warnings.simplefilter("ignore", RuntimeWarning)   # np.where(evals > 0, np.sqrt(evals), evals) warns on evals < 0
        ret = h.diagonalize_hessian(**kw)
    require(ret is None, f"diagonalize_hessian returned {type(ret).__name__}, documented: None")
    require(np.array_equal(snap.positions, pos0), "diagonalize_hessian modified the snapshot positions")
    require(os.path.exists(f_c), f"{f_c} was not written (files in cwd: {sorted(os.listdir('.'))})")
    for fn, flag, lab in ((f_h, files != "no-hessian", "savehessian"), (f_v, files != "no-evecs", "saveevecs")):
        if flag:
            require(os.path.exists(fn), f"{lab}=True but {fn} is missing")
        elif fn not in written:         # an earlier call of this case may legitimately have left it there
            require(not os.path.exists(fn), f"{lab}=False but {fn} was written")
    written.update(fn for fn, flag in ((f_h, files != "no-hessian"), (f_v, files != "no-evecs")) if flag)

    par = params_of(case)
    ref = hessref.analytic(case["pos"], case["H"], case["ppp"], case["types"], par)
    # preconditions of the oracle (guaranteed by the strategy)
    gap = np.abs(ref.r_all - ref.rc_all) / ref.rc_all
    assert gap.size == 0 or gap.min() > 1e-6, "generator: a pair within 1e-6 of its cut-off"
    t0 = case["types"] - 1
    assert np.all(ref.r_all >= 0.8 * case["sig"][t0[ref.ii], t0[ref.jj]]), "generator: pair closer than 0.8 sigma"
    assert perp_widths(case["H"]).min() > 2 * case["rc"].max(), "generator: cell narrower than 2 r_c"
    Dref, T = ref.D, ref.T
    nrm = float(np.linalg.norm(Dref, 2)) if len(ref.r_in) else 0.0
    lam_ref = np.linalg.eigvalsh(Dref)
    tags = [f"d{d}", f"K{case['K']}", "shift-on" if case["shift"] else "shift-off",
            "mask-full" if case["ppp"].all() else "mask-partial", "cell-tri" if case["tri"] else "cell-ortho",
            "mass-" + case["mmode"], "files-" + files,
            "mass-dict-unordered" if case.get("mass_order", []) != sorted(case.get("mass_order", [])) else "mass-dict-ordered",
            "mass-dict-extra-key" if case.get("mass_extra") else "mass-dict-exact", "images" if case["images"] else "in-box",
            "lattice-exact" if case["jf"] == 0 else "jittered", case["species"],
            "N<=3" if N <= 3 else "N>=4", "eps-int64" if case.get("eps_int") else "eps-float64"]
    extra = {"interacting_pairs": int(len(ref.r_in)), "nudged_cutoffs": int(case["nudges"])}

    df = pd.read_csv(f_c)
    columns(f_c, df, ["omega", "PR"])
    omega = arr("omega column", col(f_c, df, "omega"), shape=(dN,)).astype(float)
    PR = arr("PR column", col(f_c, df, "PR"), shape=(dN,)).astype(float)
    require(np.all(np.isfinite(omega)) and np.all(np.isfinite(PR)), f"{f_c}: non-finite entries")
    require(np.all(PR > 0) and np.all(PR <= 1 + 1e-12),
            lambda: f"participation ratios outside (0, 1]: min {PR.min()!r} max {PR.max()!r}; {brief(case)}")

    D = None
    if files != "no-hessian":
        D = arr(f_h, np.load(f_h), shape=(dN, dN)).astype(float)
        require(np.all(np.isfinite(D)), f"{f_h}: non-finite entries")
        # (a) analytic reference
        _worst("hessianmatrix.npy vs M^-1/2 K M^-1/2 of the reference energy (analytic)", D, Dref, T, d, case)
        # symmetry
        _worst("hessianmatrix.npy is not symmetric", D, D.T, 2 * T, d, case)
        # translations
        if case["ppp"].all():
            for c in range(d):
                t = np.zeros(dN)
                t[c::d] = ref.sqrtm[c::d]
                res = np.abs(D @ t)
                allow = 2 * (T @ np.abs(t)) + 1e-12 * (np.abs(D) @ np.abs(t))
                require(np.all(res <= allow),
                        lambda: f"uniform translation along axis {c} (mass weighted) is not annihilated: max |D t| = "
                                f"{res.max():.3e}, allowed {allow.max():.3e}, ||D|| = {nrm:.3e}; {brief(case)}")
            tags.append("translations-checked")
        # (b) finite differences of the reference gradient
        hertz_frac = case["model"] == "harmonic_hertz" and float(case["alpha"]) not in (2.0, 3.0)
        contact_gap = np.min(1.0 - ref.r_in / case["sig"][t0[ref.pairs[0]], t0[ref.pairs[1]]]) if len(ref.r_in) else 1.0
        if len(ref.r_in) and not (hertz_frac and contact_gap < 3e-3):
            g = hessref.gradient_fn(ref, case["H"], case["types"], par, d)
            Kfd = hessref.fd_hessian(g, case["pos"], 1e-5 * case["sig"].min())
            w = 1.0 / ref.sqrtm
            Dfd = Kfd * w[:, None] * w[None, :]
            tol_fd = 1e-5 * ref.scale
            assert np.abs(Dfd - Dref).max() <= tol_fd, \
                f"oracle self-check: analytic reference and FD of the reference gradient differ by " \
                f"{np.abs(Dfd - Dref).max():.3e} > {tol_fd:.3e}"
            _worst("hessianmatrix.npy vs central differences of the reference gradient", D, Dfd, 0 * T, d, case,
                   extra=tol_fd)
            tags.append("fd-gradient")
        else:
            tags.append("fd-gradient-skipped")
        # (c) second differences of the reference energy at the drawn entries
        for (p, q) in case["probes"]:
            if not len(ref.r_in):
                break
            val = hessref.energy_second_difference(ref, case["pos"], case["H"], case["types"], par, p, q)
            allow = T[p, q] + 1e-9 * ref.scale
            require(abs(D[p, q] - val) <= allow,
                    lambda: f"hessianmatrix.npy[{p},{q}] = {D[p, q]!r} but the second difference of the reference energy "
                            f"is {val!r} (allowed |diff| {allow:.3e}); {brief(case)}")
            assert abs(Dref[p, q] - val) <= allow, "oracle self-check: analytic reference vs energy second difference"
        extra["energy_probes"] = len(case["probes"])

    # spectrum: omega^2 for clearly positive eigenvalues = reference eigenvalues (Weyl: |dlambda| <= ||D - Dref||_2)
    tau = 1e-8 * nrm
    weyl = float(np.linalg.norm(T, 2)) + 1e-10 * nrm
    npos = int((lam_ref > tau + weyl).sum())
    if npos:
        want = np.sort(lam_ref[lam_ref > tau + weyl])
        have = np.sort(omega[omega > 0] ** 2)
        miss = _unmatched(want, have, weyl + 1e-10 * nrm)
        require(miss is None,
                lambda: f"positive eigenvalue {miss!r} of the reference matrix has no row with omega = sqrt(lambda) in "
                        f"{f_c}: omega^2 (positive rows) = {have[-8:].tolist()}, reference lambda = {want[-8:].tolist()} "
                        f"(allowed {weyl + 1e-10 * nrm:.3e}); {brief(case)}")
    tags.append("positive-modes>=half" if npos * 2 >= dN else "positive-modes<half")
    extra["positive_modes_checked"] = npos

    if files != "no-evecs":
        V = arr(f_v, np.load(f_v), shape=(dN, dN)).astype(float)
        require(np.all(np.isfinite(V)), f"{f_v}: non-finite entries")
        require(np.abs(V.T @ V - np.eye(dN)).max() <= 1e-8,
                lambda: f"{f_v}: columns are not orthonormal (max |V^T V - 1| = {np.abs(V.T @ V - np.eye(dN)).max():.3e})")
        # PR of row k = documented formula on column k
        pr_ref = np.array([hessref.participation_ratio(V[:, k].reshape(N, d)) for k in range(dN)])
        bad = np.abs(PR - pr_ref) > 1e-9 * pr_ref
        require(not bad.any(),
                lambda: f"PR column differs from the participation ratio of the saved eigenvectors at modes "
                        f"{np.nonzero(bad)[0][:5].tolist()}: csv {PR[bad][:5].tolist()} formula {pr_ref[bad][:5].tolist()}; "
                        f"{brief(case)}")
        if D is not None and nrm > 0:
            lam = np.einsum("ik,ij,jk->k", V, D, V)
            resid = np.abs(D @ V - V * lam[None, :]).max()
            require(resid <= 1e-9 * nrm,
                    lambda: f"{f_v}: columns are not eigenvectors of the saved matrix (max residual {resid:.3e}, "
                            f"||D|| = {nrm:.3e})")
            pos_k = lam > tau
            require(np.all(omega[pos_k] > 0) and np.all(np.abs(omega[pos_k] ** 2 - lam[pos_k]) <= 1e-10 * nrm),
                    lambda: f"omega is not sqrt(eigenvalue) of the saved matrix for the positive modes: worst "
                            f"|omega^2 - lambda| = {np.abs(omega[pos_k] ** 2 - lam[pos_k]).max():.3e}, ||D|| = {nrm:.3e}")
            tags.append("eigenpairs-checked")

    everyone = bool(np.all(ref.coord >= 1))
    tags.append("all-interacting" if everyone else "some-isolated")
    occ = sorted(set(int(t) for t in case["types"]))
    two_masses = len({float(case["masses"][t - 1]) for t in occ}) >= 2
    nontrivial = bool(everyone and (two_masses or case["species"] == "species-absent-below-a-present-one"))
    return {"nontrivial": nontrivial, "tags": tags, "extra": extra}


def describe(case):
    case = _upgrade(case)
    out = brief({**case, **case["steps"][0]})
    out["steps"] = [{k: v for k, v in st_.items()} for st_ in case["steps"]]
    out["H"] = np.round(case["H"], 4).tolist()
    out["pos0"] = np.round(case["pos_list"][0][:3], 4).tolist()
    return out


# ----------------------------------------------------------------------------- pair_matrix as a pure function


@st.composite
def block_st(draw):
    d = draw(st.sampled_from([2, 3]))
    kind = draw(st.sampled_from(["generic", "generic", "axis", "small-component"]))
    v = np.array([draw(st.one_of(st.integers(-30, 30).map(lambda k: k / 10.0), fl(-3.0, 3.0))) for _ in range(d)])
    if kind == "axis":
        keep = draw(st.integers(0, d - 1))
        v = np.where(np.arange(d) == keep, v, 0.0)
    elif kind == "small-component":
        v[draw(st.integers(0, d - 1))] *= 1e-6
    if np.linalg.norm(v) < 0.3:
        v[draw(st.integers(0, d - 1))] = draw(st.sampled_from([-1.0, 0.5, 1.25]))
    s = [draw(st.one_of(st.sampled_from([0.0, 1.0, -1.0]), fl(-100.0, 100.0))) for _ in range(3)]
    return {"d": d, "v": v, "s": s, "as_list": draw(st.booleans()), "kind": kind}


def check_block(case):
    d, v = case["d"], case["v"]
    s1, s1rc, s2 = case["s"]
    h = HessianMatrix(snapshot=None, masses={1: 1.0}, epsilons=np.ones((1, 1)), sigmas=np.ones((1, 1)),
                      r_cuts=np.ones((1, 1)), ppp=np.ones(d, dtype=int))
    Rji = v.tolist() if case["as_list"] else v.copy()
    out = h.pair_matrix(Rji, [s1, s1rc, s2])
    require(isinstance(out, tuple) and len(out) == 2, f"pair_matrix returned {type(out).__name__}, expected a pair")
    Bi = arr("dudr2i", out[0], shape=(d, d)).astype(float)
    Bj = arr("dudr2j", out[1], shape=(d, d)).astype(float)
    r = float(np.sqrt(np.sum(v * v)))
    u = v / r
    want = s2 * np.outer(u, u) + (s1 - s1rc) / r * (np.eye(d) - np.outer(u, u))
    tol = 1e-12 * (abs(s2) + abs(s1 - s1rc) / r) + 1e-300   # floor: the relative term underflows for tiny s
    bad = np.abs(Bi - want) > tol
    require(not bad.any(),
            lambda: f"pair_matrix block centred on i: got {Bi.tolist()}, want s2 uu^T + (s1-s1rc)(1-uu^T)/r = "
                    f"{want.tolist()} (tol {tol:.2e}); Rji={v.tolist()} [s1,s1rc,s2]={case['s']}")
    require(np.array_equal(Bj, -Bi), lambda: f"pair_matrix: block centred on j is not the negative of the block on i: "
                                             f"{Bj.tolist()} vs {Bi.tolist()}")
    nz = int(np.count_nonzero(v))
    return {"nontrivial": bool(nz == d and s1 != s1rc and s2 != 0),
            "tags": [f"d{d}", case["kind"], "list" if case["as_list"] else "array", "s1rc=0" if s1rc == 0 else "s1rc!=0"]}


_RULE = ("full pipeline on generated configurations; oracles (a) analytic, (b) FD of gradient, (c) second differences of "
         "the energy, symmetry, translations, spectrum, PR; non-trivial = every particle interacting and (unequal masses "
         "among the occurring species or a declared species absent below an occurring one)")
FACETS = [
    Facet("lennard_jones", case_st("lennard_jones"), check, quick=600, thorough=8000, describe=describe, rule=_RULE,
          shards_quick=4),
    Facet("inverse_power_law", case_st("inverse_power_law"), check, quick=600, thorough=8000, describe=describe,
          rule=_RULE, shards_quick=4),
    Facet("harmonic_hertz", case_st("harmonic_hertz"), check, quick=600, thorough=8000, describe=describe, rule=_RULE,
          shards_quick=4),
    Facet("call_sequence", case_st(None, seq=True), check, quick=240, thorough=6000, describe=describe, shards_quick=4,
          rule="ONE HessianMatrix object, 2-3 diagonalize_hessian calls: same model with a changed exponent / prefactor, "
               "model A - model B - model A, free; distinct output names, the same name reused, default names; in a "
               "third of the cases a second configuration is written into snapshot.positions in place between calls; "
               "every call's files are compared with the oracle for that call; non-trivial = every particle "
               "interacting and (a same-model parameter change or an in-place position change)"),
    Facet("pair_matrix", block_st(), check_block, quick=600, thorough=40000,
          describe=lambda c: {"d": c["d"], "Rji": c["v"].tolist(), "s": c["s"]},
          rule="Rji in [-3,3]^d (incl. axis-aligned and one tiny component), [s1, s1rc, s2] in [-100,100]^3; "
               "non-trivial = all components non-zero, s1 != s1rc, s2 != 0"),
]
