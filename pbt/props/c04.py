"""C04 — S(q): every total and partial column equals the density-mode definition; default wave-vector set.

Oracle: pbt/ref/sqref.py (density modes by one matrix product per frame, written from the definition; frame k is
evaluated with frame k's OWN species labels).
Facets
  explicit_vectors   caller-supplied integer wave-vector lists (duplicates, sign flips, permutations, Pythagorean mates)
  default_range      qrange + onlypositive: the class must use the default set for numofq = int(2 qrange / min(2 pi / L))
  analytic_lattice   (centred) lattices: S is known in closed form (Bragg peaks), independent of the reference code
  default_vectors    exhaustive: choosewavevector(d, numofq, onlypositive) equals the enumerated set
  minimal_sizes      smallest inputs the statement still defines: N = K (one particle per species), N = 1, N = 2, one
                     species with a single particle, K = 6 with N <= 8 (only q, Sq), one frame, ONE wave vector, one
                     |q| group, the smallest qrange whose documented default set is not empty
  repeat_calls       state between calls: getresults() twice on one object; sq objects built alternately on two
                     Snapshots objects (also of identical shapes); on ONE Snapshots object whose positions / label
                     arrays were overwritten in place between the constructions; with same-shaped qvector arrays of
                     other contents; with ONE qvector array overwritten in place.  Every result must equal the
                     definition for the contents at call time (memo keyed by id()/shape, cached species indices,
                     cached scaled wave-vector tables)
  wavevector_calls   sequences of choosewavevector(ndim, numofq, onlypositive) calls whose arguments differ in one
                     argument or not at all; the caller overwrites every returned array; sq(..., qrange=...) objects
                     are built in between.  Every call equals the enumerated documented set regardless of history
  size_boundaries    (round 3) ONE size axis on a block boundary B-1, B, B+1, 2B-1, 2B+1, B+B//3 for B in 32, 50, 64, 100,
                     128, 200, 256: particles N = 31..513 (few vectors), supplied wave vectors M = 31..513 (few particles),
                     frames T = 31..201 (B <= 100); or a qrange whose default set holds hundreds of vectors; K 1..6;
                     arrays from a Hypothesis-drawn numpy seed; the vectorised reference stays exact.  Caught: C04-F
                     (blocks of 100 particles with reused work arrays).  size_boundaries_deep (thorough only): N, M up to
                     2049, T up to 1001, numofq up to 160 (2D) / 36 (3D)
  representations    (round 3) value-equal arguments in other numpy representations: int64 cell / coordinates, float32 or
                     Fortran-ordered coordinates, labels as float64 / int32 / int8
Input classes present in the explicit-list facets (round 3):
  * qrep-*: the integer list as int64 / int32 / int16 / int8 / float64 (what np.loadtxt returns) / float32 / Fortran
    order / strided view / read-only array; the oracle is evaluated for the VALUES.  Caught: C04-E (floating dtypes
    reinterpreted as physical wave vectors).  Nested Python lists raise on the unchanged tree: out of domain.
  * batch-*: properties of the WHOLE list a short-cut could test: every component in {-1,0,1}; all vectors on one
    axis; all rows equal; no negative component; components up to 100; a single vector (nvec=1).
  * all-particles-outside (the whole configuration in another periodic image), timesteps-repeated / -going-back
    (S(q) averages the frames supplied, whatever their TIMESTEP labels).
repeat_calls / wavevector_calls additionally keep EVERY returned DataFrame / table alive and require, at the end of the
case, that each still equals bit for bit the copy taken when it was returned (results handed out earlier must stay what
they were), and call the public per-composition methods unary() .. quinary() directly.

CLAUSES (statement + quantifier of C04, split; deciding assertion; populated class tags of evidence/C04.json)
  1 one to five species (quantifier: counts 1..6)    every column of sqref.column_names(K) compared in
                                                     compare_with_reference; K = 6 must return q, Sq only      K1..K6
  2 orthogonal 2D / 3D cell, unequal edges           same                          d2 d3 edges-unequal/-pair-equal/-cubic
  3 any wave-number range                            default_range, minimal (smallest-range), size axis `range`:
                                                     columns vs reference on sqref.default_vectors(d, int(2 qrange /
                                                     min(2pi/L)), onlypositive)     numofq<=6/<=12/>12, default-set-M<=512
       WAS WEAK: numofq <= 24 (2D) / 12 (3D) inside sq -> now up to 64 / 20 (thorough 160 / 36)
  4 explicit integer wave-vector list                explicit_vectors, minimal, lattice, representations, size axis M
       WAS WEAK: only int64 / int32 arrays, components in [-6, 6], <= 20 vectors -> qrep-* (12 representations),
       batch-large-components (|n| <= 100), M = 31..513, batch-* classes
  5 S_ab = frame average of Re[rho_a rho_b*]/sqrt(N_a N_b), q = 2 pi n / L
                                                     close(column, atol 1.01e-6) for ALL columns; per-vector CSV
                                                     unaveraged; closed-form Bragg values (analytic_lattice)
       WAS WEAK: N <= 30, 1..3 frames -> size-boundary-N=31..513, size-boundary-T=31..201; labels-per-frame kept
  6 averaged over supplied vectors of equal |q| after rounding to 1e-6
                                                     sqref.grouped emulation      shared-q group-mixes-directions
                                                     group-with-different-float-norms duplicate-vectors batch-all-equal
  7 default set = all non-zero integer vectors of the documented range with integer norm
                                                     default_vectors (exhaustive + large), wavevector_calls
  8 sum rule N S = sum N_a S_aa + 2 sum sqrt(N_a N_b) S_ab     on the returned numbers, K 2..5
  9 diagonal terms non-negative                      Sq, Sq_aa >= -1e-9 on the returned numbers
 10 onlypositive options                             False / True / 'x' / 'y' / 'z' tags in default_range, default_vectors
 11 frame counts                                     frames1..3, size axis T, timesteps-* classes
 12 observed at getresults() and the optional CSV files       csv, qvectors-csv
 13 (histories) several evaluations / objects in one process   repeat_calls, wavevector_calls; results-held=3..6,
                                                     held-results-of-equal-shape, held-tables>=2, direct-method-call
EXTENSION_3 classes 5 / 6: size axis M draws `all-vectors-in-one-shell` lists (every row a sign flip of one vector: one
|q| group of >= 130 / >= 260 members; tags group-size>=130 / >=260, species-count>=130 / >=260); every library call
runs inside process_state_unchanged(): np.geterr(), print options, warnings filters, cwd, environment, logging root,
both global random generators, pandas display options and the number of open file descriptors are as before the call.
Not asserted on purpose: numofq when 2 qrange / min(2 pi / L) lies within 1e-6 of an integer (the quotient is not the same
double under every order of the divisions: not crisp); what an sq object built BEFORE an in-place change of its inputs
returns; labels other than 1..K (the selectors `== 1 ... else` hard-code them).

Input class present in every facet that draws a trajectory (system_st): "labels-per-frame" — about 40 % of the
multi-frame cases with 2..5 species carry a different arrangement of the same multiset of labels in every frame (swap
Monte Carlo, `fix atom/swap`): sq reads snapshot.particle_type of EACH frame, only the counts come from frame 0.  The
total, the sum rule and positivity are blind to a routine that keeps frame 0's labels, the partial columns are not.

Preconditions imposed by construction (what callers pass):
  * orthogonal cell, same N / box in all frames (asserted in sq.__init__, sq.py L147-150); the same COMPOSITION (count
    of every species) in all frames; the labels themselves may move between frames
  * type ids exactly 1..K, all present (the selectors `== 1 ... else` in sq.py assume it)
  * integer wave vectors, no zero vector (docs/sq.md: n_x, n_y, n_z integers)
  * saveqvectors only together with an outputfile (sq.py slices outputfile[:-4])
  * default range: numofq chosen so that the documented set is not empty and 2 qrange/min(2pi/L) is not within 0.05
    of an integer (the int() truncation is then unambiguous)
  * repeat_calls only evaluates objects constructed AFTER the last in-place change of their inputs (whether an older
    object sees later changes of arrays it was given is not promised either way); an array returned by
    choosewavevector is only overwritten when it is writeable
Tolerances (derived, DESIGN 1.4): the library rounds each per-vector value to 1e-6 before averaging; a float
difference of 1e-12 between the two computations can flip one rounding, i.e. move a group mean by at most 1e-6;
hence atol 1.01e-6 on every S column after emulating the rounding.  Grouping key |q| rounded to 6 decimals: cases
where some |q| lies within 1e-12 of a rounding boundary are excluded and counted.  The new facets use the same
comparison (compare_with_reference / _default_set_call): nothing is compared bit for bit between two calls.
"""
from __future__ import annotations

import contextlib
import itertools
import os

import numpy as np
from hypothesis import strategies as st
from hypothesis.extra import numpy as hnp

from .. import gen
from ..gen import fl, nice_float
from ..harness import Facet, Violation
from ..ref import sqref
from ..util import arr, close, col, columns, require

from PyMatterSim.static.sq import sq
from PyMatterSim.utils.wavevector import choosewavevector

RULE = ("orthogonal 2D/3D boxes (unequal / partly equal / cubic / commensurate edges, any origin) x K 1..6 species "
        "(all present, arbitrary composition) x N <= 30 x 1..3 frames (species labels fixed, or permuted between "
        "frames with the composition fixed; timesteps even, repeated or going back) x positions inside the box, partly "
        "outside or all in another periodic image x "
        "{explicit integer wave-vector lists in 12 numpy representations (integer and floating dtypes, layouts) and "
        "batch classes | qrange with onlypositive in False,True,'x','y','z'}; size boundaries (N, M = 31..513, "
        "T = 31..201 around block sizes 32..256; thorough up to 2049 / 1001); value-equal snapshot arrays in other "
        "dtypes; plus minimal sizes "
        "(N = K, N = 1, N = 2, one vector, one |q| group, smallest non-empty default range), several calls in one "
        "process (same objects overwritten in place, alternating inputs, getresults() twice) and sequences of "
        "choosewavevector calls; non-trivial (main facets) = 2 <= K <= 5 with unequal species counts and not all "
        "edges equal and >= 2 supplied vectors share one |q|")
ASSUMPTIONS = [
    "type ids exactly 1..K with all K present; same N and box in every frame; the same number of particles of every "
    "species in every frame (the labels may be arranged differently in every frame)",
    "integer wave vectors without the zero vector; saveqvectors only with an outputfile",
    "the 'documented range' of the default set is the half-open integer range [-floor(numofq/2), floor(numofq/2)) "
    "that the golden tests encode (DESIGN C04 scope decision)",
    "per-vector values are rounded to 1e-6 before the |q| average (stated in the property); comparison atol 1.01e-6",
    "cases with some |q| within 1e-12 of a 6-decimal rounding boundary are excluded (counted in extra.excluded_boundary)",
    "onlypositive='z' is only meaningful in 3D and is not generated in 2D",
    "N = 1 (K = 1) is inside the statement: rho(q) is one phase factor and S(q) = 1",
    "an sq object is evaluated only if it was constructed after the last in-place change of its input arrays; the "
    "caller may overwrite a (writeable) array returned by choosewavevector without affecting later calls",
    "an explicit list is a numpy array holding the integer VALUES: any integer or floating dtype and any memory layout "
    "(the unchanged sq does qvector.astype(float64)); nested Python lists / tuples raise AttributeError on the unchanged "
    "tree and are not generated",
    "snapshot arrays may be int64 (hand-built cell and integer coordinates), float32 / Fortran-ordered coordinates, "
    "labels of any numeric dtype; a float32 boxlength is NOT generated (2 pi / L would be evaluated in single precision)",
    "a DataFrame / wave-vector table returned earlier is not changed by later calls (compared bit for bit with a copy "
    "taken at return; tables the caller overwrote, or that share memory with one, are exempt)",
    "the public methods unary() .. quinary() may be called directly on a system of the matching composition "
    "(getresults() only dispatches on the number of species)",
    "size classes draw their arrays from numpy's generator seeded by a Hypothesis-drawn integer",
    "a call of sq / getresults / choosewavevector leaves the process-wide state (numpy error handling and print options, "
    "warnings filters, cwd, environment, logging root, global random generators, pandas display options, number of "
    "open file descriptors) as it found it",
]

ATOL = 1.01e-6
HALF = 0.505e-6  # %.6f formatting / one rounding: half a unit of the 6th decimal (+1%)

PYTH = {
    2: [(3, 4), (4, 3), (5, 0), (0, 5), (-3, 4), (4, -3), (-5, 0), (0, -5), (-4, -3)],
    3: [(1, 2, 2), (2, 1, 2), (2, 2, 1), (3, 0, 0), (0, 3, 0), (0, 0, 3), (-2, 1, 2), (2, -2, -1),
        (3, 4, 0), (0, 3, 4), (4, 0, 3), (5, 0, 0), (0, 0, 5), (0, -5, 0), (2, 3, 6), (6, 2, 3), (7, 0, 0), (0, 7, 0),
        (4, 4, 2), (6, 0, 0), (2, 4, 4), (0, 0, -6)],
}


# ----------------------------------------------------------------------------- generators


@st.composite
def box_st(draw, d):
    cell = draw(gen.cell_st(d, "ortho", lmin=1.0, lmax=30.0, origin="any"))
    pat = draw(st.sampled_from(["unequal", "unequal", "unequal", "pair-equal", "cubic", "commensurate"]))
    L = np.diag(cell["H"]).copy()
    if pat == "cubic":
        L[:] = L[0]
    elif pat == "pair-equal":
        i, j = draw(st.sampled_from(list(itertools.combinations(range(d), 2))))
        L[j] = L[i]
    elif pat == "commensurate":
        ratios = [draw(st.sampled_from([1.0, 2.0, 0.5, 1.5, 0.75, 3.0, 1.25])) for _ in range(d)]
        L = np.clip(L[0] * np.array(ratios), 0.5, 90.0)
    lo = cell["lo"].copy()
    if cell["origin"] == "centred":
        lo = -L / 2.0
    return {"d": d, "kind": "ortho", "H": np.diag(L), "lo": lo, "origin": cell["origin"]}


@st.composite
def frame_labels_st(draw, types, T):
    """Per-frame species labels of a swap-Monte-Carlo / `fix atom/swap` trajectory: every frame carries its own
    arrangement of the SAME multiset of labels (composition fixed).  Frame 0 keeps `types`; at least one later frame
    differs from frame 0.  Needs >= 2 species and T >= 2."""
    types = np.asarray(types)
    N = len(types)
    out = [types.copy()]
    for _ in range(T - 1):
        how = draw(st.sampled_from(["shuffle", "swap", "swap"]))
        if how == "shuffle":
            perm = np.array(draw(st.permutations(range(N))))
            out.append(types[perm])
        else:  # a few identity swaps of unlike particles, starting from the previous frame (what swap MC does)
            t = out[-1].copy()
            for _ in range(draw(st.integers(1, 3))):
                i = draw(st.integers(0, N - 1))
                other = np.flatnonzero(t != t[i])
                j = int(other[draw(st.integers(0, len(other) - 1))])
                t[i], t[j] = t[j], t[i]
            out.append(t)
    if all(np.array_equal(t, types) for t in out[1:]):
        t = out[-1].copy()
        i = int(np.flatnonzero(t == 1)[0])
        j = int(np.flatnonzero(t == 2)[0])
        t[i], t[j] = t[j], t[i]
        out[-1] = t
    return out


@st.composite
def timesteps_st(draw, T):
    """TIMESTEP values of the T frames.  S(q) is the average over the frames SUPPLIED, in whatever order and with
    whatever timestep labels (EXTENSION_2 class 7): evenly spaced (usual), a frame repeated under the same timestep,
    timesteps going back (restart files concatenated), all equal."""
    t0 = draw(st.integers(0, 10 ** 6))
    dt = draw(st.integers(1, 5000))
    ts = [t0 + k * dt for k in range(T)]
    how = draw(st.sampled_from(["even", "even", "even", "repeat", "back", "all-equal"])) if T >= 2 else "even"
    if how == "repeat":
        k = draw(st.integers(1, T - 1))
        ts[k] = ts[k - 1]
    elif how == "back":
        ts = ts[::-1] if draw(st.booleans()) else ts[1:] + ts[:1]
    elif how == "all-equal":
        ts = [t0] * T
    return ts


def _timestep_tag(ts):
    if len(ts) < 2:
        return None
    dif = np.diff(np.asarray(ts, dtype=np.int64))
    if np.all(dif > 0):
        return "timesteps-increasing"
    return "timesteps-repeated" if np.all(dif >= 0) else "timesteps-going-back"


@st.composite
def system_st(draw, frames=(1, 3), nmax=30, kmax=6, nmin=2, labels=True):
    d = draw(st.sampled_from([2, 3]))
    cell = draw(box_st(d))
    K = draw(st.sampled_from([k for k in (1, 2, 2, 3, 3, 4, 4, 5, 5, 6) if k <= kmax]))
    f0, kind = draw(gen.frac_config_st(d, nmin=max(nmin, K), nmax=nmax))
    N = len(f0)
    T = draw(st.integers(*frames))
    fr = [f0] + [draw(gen.frac_st(N, d)) for _ in range(T - 1)]
    offs = np.zeros((N, d))
    where = draw(st.sampled_from(["inside", "inside", "inside", "some-outside", "some-outside", "all-outside"]))
    if where == "some-outside":
        offs = draw(hnp.arrays(np.int64, (N, d), elements=st.integers(-2, 2))).astype(float)
    elif where == "all-outside":
        # the WHOLE configuration sits in another periodic image (every particle outside the box: a batch-wide
        # property, EXTENSION_3 class 4), optionally with further per-particle images on top
        shift = np.array(draw(st.lists(st.sampled_from([-3, -2, -1, 1, 2]), min_size=d, max_size=d)), dtype=float)
        offs = np.tile(shift, (N, 1))
    pos = [cell["lo"] + (f + offs) @ cell["H"] for f in fr]
    types = draw(gen.types_st(N, K))
    # class "labels-per-frame" (EXTENSION_1 item 6): ~40 % of the multi-frame cases with partial columns
    types_frames = None
    if labels and T >= 2 and 2 <= K <= 5 and draw(st.sampled_from([True, True, False, False, False])):
        types_frames = draw(frame_labels_st(types, T))
    outfile = draw(st.booleans())
    return {"d": d, "cell": cell, "pos": pos, "types": types, "types_frames": types_frames, "K": K, "kind": kind,
            "timesteps": draw(timesteps_st(T)), "outside": bool(np.any(offs)), "all_outside": where == "all-outside",
            "outfile": outfile, "saveq": bool(outfile and draw(st.booleans()))}


def labels_of(case):
    """Label array of every frame (list of T arrays)."""
    tf = case.get("types_frames")
    if tf is None:
        return [np.asarray(case["types"])] * len(case["pos"])
    return [np.asarray(t) for t in tf]


def snapshots_of(case):
    """Like gen.snapshots_from, but every frame gets its own label array (gen.snapshots_from only knows one array
    for all frames).  Every SingleSnapshot owns fresh copies of positions and labels."""
    import dataclasses

    from PyMatterSim.reader.reader_utils import Snapshots

    snaps = [gen.snapshot_from(case["cell"], p, t, ts)
             for p, t, ts in zip(case["pos"], labels_of(case), case["timesteps"])]
    rep = case.get("argrep")
    if rep:
        snaps = [dataclasses.replace(s, **_snapshot_fields(s, rep)) for s in snaps]
    return Snapshots(nsnapshots=len(snaps), snapshots=snaps)


# Representations of the snapshot arrays (EXTENSION_2 class 3).  Probed on the unchanged tree: all of them give the
# results of the float64 / int64 arrays bit for bit.  NOT accepted / not value-equal, hence out of domain: positions as
# nested lists (AttributeError), a float32 boxlength (2 pi / L is then evaluated in single precision), string labels.
ARGREPS = ["int-positions", "int-box", "int-positions+box", "types-float64", "types-int32", "types-int8",
           "positions-float32", "positions-fortran"]


def _snapshot_fields(s, rep):
    """Fields of a SingleSnapshot in another representation of the SAME values (harness error if not exact)."""
    out = {}
    if "int-" in rep and "positions" in rep:
        out["positions"] = s.positions.astype(np.int64)
    if "int-" in rep and "box" in rep:
        out["boxlength"] = s.boxlength.astype(np.int64)
        out["hmatrix"] = s.hmatrix.astype(np.int64)
        out["boxbounds"] = s.boxbounds.astype(np.int64)
    if rep == "positions-float32":
        out["positions"] = s.positions.astype(np.float32)
    if rep == "positions-fortran":
        out["positions"] = np.asfortranarray(s.positions)
    if rep.startswith("types-"):
        kind = rep.split("-")[1]
        out["particle_type"] = s.particle_type.astype(np.dtype(kind))
    for k, v in out.items():
        if not np.array_equal(np.asarray(v, dtype=float), np.asarray(getattr(s, k), dtype=float)):
            raise RuntimeError(f"harness: representation {rep} changes the values of {k}")
    return out


# Representations of an explicit integer wave-vector list (EXTENSION_2 class 3, EXTENSION_3 class 2).  The unchanged
# sq.__init__ does `qvector.astype(np.float64) * (2 pi / L)`: every numpy array holding the integer VALUES gives the
# same wave vectors whatever its dtype or memory layout (probed: int64/32/16/8, float64 -- what np.loadtxt returns --,
# float32, Fortran order, a strided view, a read-only array).  Nested Python lists / tuples raise AttributeError
# ('list' object has no attribute 'astype') on the unchanged tree and the signature says npt.NDArray: out of domain.
QREPS = ["int64", "int64", "int32", "int16", "int8", "float64", "float64", "float64", "float32", "float32",
         "float64-fortran", "int64-fortran", "float64-strided", "int32-strided", "float64-readonly", "int64-readonly"]
QREPS_PLAIN = ["int64", "int32", "int16", "float64", "float64", "float32"]  # writeable, contiguous (in-place classes)


def q_argument(q, rep):
    """The array object handed to sq(qvector=...): the integer values of `q` in representation `rep`."""
    q = np.asarray(q)
    if rep in (None, "as-is"):
        return q.copy()
    dt, _, layout = rep.partition("-")
    a = q.astype(np.dtype(dt))
    if layout == "fortran":
        a = np.asfortranarray(a)
    elif layout == "strided":
        wide = np.repeat(a, 2, axis=1)
        wide[:, 1::2] = 77  # the gaps of the view hold other numbers
        a = wide[:, ::2]
    elif layout == "readonly":
        a = a.copy()
        a.flags.writeable = False
    if not np.array_equal(a.astype(np.int64), q.astype(np.int64)):
        raise RuntimeError(f"harness: representation {rep} does not hold the wave vectors exactly")
    return a


def _qrep_tags(rep, q):
    rep = rep or ("as-is-" + str(np.asarray(q).dtype))
    dt = rep.split("-")[0] if not rep.startswith("as-is") else rep.split("-")[-1]
    return ["qrep-" + rep, "qdtype-floating" if dt.startswith("float") else "qdtype-integer"]


BATCHES = ["mixed", "mixed", "mixed", "mixed", "all-unit", "all-one-axis", "all-equal", "all-nonnegative",
           "large-components"]


@st.composite
def qbatch_st(draw, d, L, batch=None):
    """An explicit list plus the batch class it belongs to (EXTENSION_3 class 4: a property of the WHOLE list that a
    short-cut could test -- every component in {-1,0,1}; every vector on one axis; all rows equal; no negative
    component; large components).  'mixed' is the free generator."""
    batch = batch or draw(st.sampled_from(BATCHES))
    if batch in ("mixed", "all-nonnegative"):
        q = draw(qvector_st(d, L))
        if batch == "all-nonnegative":
            q = np.abs(q)
        return {"q": q, "batch": batch}
    if batch == "all-unit":
        units = [v for v in itertools.product((-1, 0, 1), repeat=d) if any(v)]
        diag = [v for v in units if sum(1 for c in v if c) >= 2]
        idx = draw(st.lists(st.integers(0, len(units) - 1), min_size=1, max_size=10))
        rows = [units[i] for i in idx] + [draw(st.sampled_from(diag))]
    elif batch == "all-one-axis":
        ax = draw(st.integers(0, d - 1))
        ks = draw(st.lists(st.sampled_from([-8, -5, -3, -2, -1, 1, 2, 3, 4, 6, 9]), min_size=1, max_size=8))
        rows = [[k if i == ax else 0 for i in range(d)] for k in ks]
    elif batch == "all-equal":
        v = list(draw(st.one_of(st.sampled_from(PYTH[d]), st.tuples(*[st.integers(-6, 6)] * d))))
        if not any(v):
            v[draw(st.integers(0, d - 1))] = draw(st.sampled_from([-2, 1, 3]))
        rows = [v] * draw(st.integers(2, 6))
    else:  # large-components: |n| up to 100 (still exact in int8), with Pythagorean mates so that groups are shared
        big = {2: [(60, 80), (80, 60), (100, 0), (0, 100), (-60, 80), (28, 96), (96, -28), (65, 72), (97, 0)],
               3: [(36, 48, 80), (48, 36, 80), (100, 0, 0), (0, 0, 100), (64, 48, 60), (0, 60, 80), (12, 16, 99),
                   (99, 12, 16), (0, 101, 0)]}[d]
        rows = [list(draw(st.sampled_from(big))) for _ in range(draw(st.integers(1, 5)))]
        rows += [list(r) for r in draw(hnp.arrays(np.int64, (draw(st.integers(1, 5)), d), elements=st.integers(-100, 100)))
                 if np.any(r)]
    order = draw(st.permutations(range(len(rows))))
    return {"q": np.array([rows[i] for i in order], dtype=np.int64).reshape(-1, d), "batch": batch}


@st.composite
def qvector_st(draw, d, L):
    nb = draw(st.integers(1, 8))
    base = draw(hnp.arrays(np.int64, (nb, d), elements=st.integers(-6, 6)))
    rows = []
    for r in base:
        r = r.copy()
        if not r.any():
            r[draw(st.integers(0, d - 1))] = draw(st.sampled_from([-5, -3, -2, -1, 1, 2, 3, 4, 6]))
        rows.append(r)
    equal_axes = [(i, j) for i, j in itertools.combinations(range(d), 2) if L[i] == L[j]]
    for _ in range(draw(st.integers(0, 12))):
        src = rows[draw(st.integers(0, len(rows) - 1))]
        how = draw(st.sampled_from(["dup", "neg", "flip", "perm", "pyth", "pyth"]))
        if how == "dup":
            new = src.copy()
        elif how == "neg":
            new = -src
        elif how == "flip":
            signs = np.array([draw(st.sampled_from([-1, 1])) for _ in range(d)])
            new = src * signs
        elif how == "perm":
            new = src.copy()
            if equal_axes:
                i, j = draw(st.sampled_from(equal_axes))
                new[i], new[j] = src[j], src[i]
            else:
                new = src[::-1].copy()
        else:
            new = np.array(draw(st.sampled_from(PYTH[d])), dtype=np.int64)
        rows.append(new)
    order = draw(st.permutations(range(len(rows))))
    return np.array([rows[i] for i in order], dtype=np.int64)


@st.composite
def explicit_case(draw):
    case = draw(system_st())
    case["mode"] = "explicit"
    qb = draw(qbatch_st(case["d"], np.diag(case["cell"]["H"])))
    case["qvector"], case["batch"] = qb["q"], qb["batch"]
    case["qrep"] = draw(st.sampled_from(QREPS))
    return case


@st.composite
def range_case(draw):
    case = draw(system_st(nmax=24))
    d = case["d"]
    ops = [False, False, False, True, True, "x", "y"] + (["z", "z"] if d == 3 else [])
    op = draw(st.sampled_from(ops))
    lo_m = 2 if op is False else 4  # the documented set is then not empty
    top_m = 12 if d == 3 else 24
    m = draw(st.one_of(st.integers(lo_m, top_m), st.integers(4, top_m)))
    f = draw(st.one_of(st.sampled_from([0.05, 0.5, 0.95]), fl(0.05, 0.95)))
    Lmax = float(np.diag(case["cell"]["H"]).max())
    case["mode"] = "range"
    case["onlypositive"] = op
    case["m"] = m
    case["qrange"] = float((m + f) * np.pi / Lmax)
    return case


# ----------------------------------------------------------------------------- process-wide state (EXTENSION_3 class 6)


def process_state():
    """What a call can leave behind without touching any array it returns: the process-wide settings and resources that
    LATER calls (of any routine) depend on.  {label: comparable value}."""
    import logging
    import random
    import warnings

    import pandas as pd

    st_ = np.random.get_state()
    try:
        nfd = len(os.listdir("/proc/self/fd"))
    except OSError:
        nfd = -1
    opts = {}
    for k in ("display.precision", "display.max_rows", "display.max_columns", "display.width", "display.float_format"):
        try:
            opts[k] = repr(pd.get_option(k))
        except Exception:  # noqa: BLE001 - option unknown to this pandas
            pass
    return {"np.geterr()": dict(np.geterr()), "np.geterrcall()": repr(np.geterrcall()),
            "np.get_printoptions()": sorted((k, repr(v)) for k, v in np.get_printoptions().items()),
            "len(warnings.filters)": len(warnings.filters), "os.getcwd()": os.getcwd(), "os.environ": dict(os.environ),
            "logging root (level, handlers, disable)": (logging.root.level, len(logging.root.handlers),
                                                        logging.root.manager.disable),
            "np.random global state": (st_[0], st_[1].tobytes(), st_[2], st_[3], st_[4]),
            "random.getstate()": random.getstate(), "pandas display options": opts,
            "open file descriptors": nfd}


@contextlib.contextmanager
def process_state_unchanged(what):
    """The calls made inside the block leave np.geterr(), the print options, the warnings filters, the working
    directory, the environment, the logging root, both global random generators, pandas' display options and the number
    of open file descriptors as they found them (on normal return; an exception propagates unchanged)."""
    before = process_state()
    yield
    now = process_state()
    for label, v in before.items():
        if now[label] != v:
            a, b = v, now[label]
            if isinstance(v, dict):
                keys = sorted(k for k in set(v) | set(b) if v.get(k) != b.get(k))[:4]
                a, b = {k: v.get(k) for k in keys}, {k: b.get(k) for k in keys}
            elif label.endswith("state") or label.endswith("getstate()"):
                a, b = "<state before>", "<another state: the global generator was used or reseeded>"
            # put the numeric settings back so that the other cases of this process are judged in a clean state
            np.seterr(**before["np.geterr()"])
            raise Violation(f"{what} left process-wide state changed: {label}: {a!r} -> {b!r}")


# ----------------------------------------------------------------------------- checking


def _read_csv(name, path, header):
    require(os.path.exists(path), f"{name}: file {os.path.basename(path)} was not written")
    with open(path) as fh:
        lines = [ln.strip() for ln in fh if ln.strip()]
    require(len(lines) >= 1, f"{name}: empty file")
    require(lines[0].split(",") == list(header), f"{name}: header {lines[0]!r} != {','.join(header)!r}")
    try:
        data = np.array([[float(x) for x in ln.split(",")] for ln in lines[1:]], dtype=float)
    except ValueError as e:
        raise Violation(f"{name}: unparsable row ({e})")
    if data.size == 0:
        data = data.reshape(0, len(header))
    require(data.ndim == 2 and data.shape[1] == len(header), f"{name}: ragged table, shape {data.shape}")
    return data


def compare_with_reference(case, nvec, res, tagprefix=""):
    """Shared by the explicit and the default-range facets.  Returns (info dict)."""
    d, K = case["d"], case["K"]
    L = np.diag(case["cell"]["H"])
    types = case["types"]
    labels = labels_of(case)
    cols = sqref.column_names(K)
    columns("sq.getresults()", res, cols)
    # frame k is evaluated with frame k's own labels (the counts N_a are those of the trajectory)
    pv, counts = sqref.per_vector(case["pos"], labels, nvec, L)
    if sqref.boundary_ambiguous(pv["q"]):
        return {"nontrivial": False, "tags": ["excluded-boundary"], "extra": {"excluded_boundary": 1}}
    exp, gsize = sqref.grouped(pv, cols)
    G = len(exp["q"])
    got = {}
    for c in cols:
        got[c] = arr(f"column {c}", col("sq.getresults()", res, c), shape=(G,)).astype(float)
    # the statement fixes how vectors are grouped, not that the reported |q| itself is rounded: half a unit allowed
    close("column q", got["q"], exp["q"], rtol=0.0, atol=HALF)
    for c in cols[1:]:
        close(f"column {c} (K={K}, counts={counts.astype(int).tolist()})", got[c], exp[c], rtol=0.0, atol=ATOL)
    N = float(len(types))
    # total and diagonal terms are non-negative
    for c in ["Sq"] + [f"Sq{a}{a}" for a in range(1, K + 1) if f"Sq{a}{a}" in cols]:
        require(np.all(got[c] >= -1e-9), lambda c=c: f"{c} negative: min {got[c].min()!r}")
    # sum rule on the returned numbers: each column carries a rounding error <= 0.5e-6
    if 2 <= K <= 5:
        rhs = np.zeros(G)
        weight = 1.0
        for a in range(1, K + 1):
            rhs += counts[a - 1] / N * got[f"Sq{a}{a}"]
            weight += counts[a - 1] / N
            for b in range(a + 1, K + 1):
                w = 2.0 * np.sqrt(counts[a - 1] * counts[b - 1]) / N
                rhs += w * got[f"Sq{a}{b}"]
                weight += w
        close("sum rule N S = sum N_a S_aa + 2 sum sqrt(N_a N_b) S_ab (divided by N)", got["Sq"], rhs,
              rtol=0.0, atol=HALF * weight + 1e-10)
    # files
    if case["outfile"]:
        data = _read_csv("outputfile", os.path.join(os.getcwd(), "sq_out.csv"), cols)
        require(data.shape[0] == G, f"outputfile has {data.shape[0]} rows, returned frame has {G}")
        for k, c in enumerate(cols):
            close(f"outputfile column {c} vs returned", data[:, k], got[c], rtol=0.0, atol=HALF)
    if case["saveq"]:
        hdr = [f"q{i}" for i in range(d)] + cols
        data = _read_csv("qvectors file", os.path.join(os.getcwd(), "sq_out_qvectors.csv"), hdr)
        M = len(nvec)
        require(data.shape[0] == M, f"qvectors file has {data.shape[0]} rows for {M} wave vectors")
        ints = np.rint(data[:, :d])
        require(np.all(np.abs(ints - data[:, :d]) < 1e-9), "qvectors file: non-integer wave-vector components")
        want = np.asarray(nvec, dtype=np.int64)
        o_got = np.lexsort(ints.T[::-1])
        o_want = np.lexsort(want.T[::-1])
        require(np.array_equal(ints[o_got].astype(np.int64), want[o_want]),
                lambda: f"qvectors file lists other wave vectors than used: {ints[o_got][:6].tolist()} ... vs "
                        f"{want[o_want][:6].tolist()} ...")
        for k, c in enumerate(cols):
            close(f"qvectors file column {c} (per vector, unaveraged)", data[o_got, d + k], pv[c][o_want],
                  rtol=0.0, atol=HALF + 1e-9)

    # classification
    uneq_counts = len(set(counts.tolist())) > 1
    nuniqL = len(set(L.tolist()))
    shared = bool(gsize.max() >= 2)
    key = np.round(pv["q"], 6)
    floatsplit = any(len(set(pv["q"][key == k].tolist())) > 1 for k in np.unique(key))
    absn = np.sort(np.abs(np.asarray(nvec, dtype=np.int64)), axis=1)
    mixed = any(len({tuple(r) for r in absn[key == k]}) > 1 for k in np.unique(key))
    dup = len({tuple(r) for r in np.asarray(nvec).tolist()}) < len(nvec)
    tags = [f"d{d}", f"K{K}", f"frames{len(case['pos'])}",
            "edges-unequal" if nuniqL == d else ("edges-cubic" if nuniqL == 1 else "edges-pair-equal"),
            "counts-unequal" if uneq_counts else "counts-equal",
            "shared-q" if shared else "no-shared-q", "outside" if case["outside"] else "inside",
            "cfg-" + case["kind"].split("-")[0], "origin-" + case["cell"]["origin"]]
    if gsize.max() >= 130:  # EXTENSION_3 class 5: more members of one |q| group than an int8 / uint8 counter holds
        tags.append("group-size>=260" if gsize.max() >= 260 else "group-size>=130")
    if counts.max() >= 130:
        tags.append("species-count>=260" if counts.max() >= 260 else "species-count>=130")
    if floatsplit:
        tags.append("group-with-different-float-norms")
    if mixed:
        tags.append("group-mixes-directions")
    if dup:
        tags.append("duplicate-vectors")
    if counts.min() == 1 and K > 1:
        tags.append("some-N_a=1")
    if len(case["pos"]) >= 2 and 2 <= K <= 5:
        moved = sum(int(np.any(t != labels[0])) for t in labels[1:])
        tags.append("labels-per-frame" if moved else "labels-same-in-all-frames")
    if case["outfile"]:
        tags.append("csv")
    if case["saveq"]:
        tags.append("qvectors-csv")
    if case.get("all_outside"):
        tags.append("all-particles-outside")
    tt = _timestep_tag(case["timesteps"])
    if tt:
        tags.append(tt)
    if case.get("argrep"):
        tags.append("argrep-" + case["argrep"])
    nontrivial = bool(2 <= K <= 5 and uneq_counts and nuniqL > 1 and shared)
    return {"nontrivial": nontrivial, "tags": tags, "extra": {"vectors": int(len(nvec)), "groups": int(G)},
            "_exp": exp}


def check_explicit(case):
    snaps = snapshots_of(case)
    qin = case["qvector"]
    qv = q_argument(qin, case.get("qrep"))
    with process_state_unchanged("sq(qvector=...).getresults()"):
        res = sq(snaps, qvector=qv, saveqvectors=case["saveq"],
                 outputfile="sq_out.csv" if case["outfile"] else None).getresults()
    info = compare_with_reference(case, qin, res)
    info.pop("_exp", None)
    if "excluded-boundary" in info["tags"]:
        return info
    info["tags"] += _qrep_tags(case.get("qrep"), qin)
    info["tags"].append("nvec<=8" if len(qin) <= 8 else "nvec>8")
    info["tags"].append("nvec=1" if len(qin) == 1 else "nvec>1")
    if case.get("batch"):
        info["tags"].append("batch-" + case["batch"])
    return info


def check_range(case):
    d = case["d"]
    L = np.diag(case["cell"]["H"])
    op, m, qrange = case["onlypositive"], case["m"], case["qrange"]
    x = qrange * 2.0 / (2.0 * np.pi / L).min()
    if abs(x - round(x)) < 1e-6 or int(x) != m:
        return {"nontrivial": False, "tags": ["excluded-numofq-ambiguous"], "extra": {"excluded_numofq": 1}}
    snaps = snapshots_of(case)
    with process_state_unchanged("sq(qrange=...).getresults()"):
        res = sq(snaps, qrange=qrange, onlypositive=op, saveqvectors=case["saveq"],
                 outputfile="sq_out.csv" if case["outfile"] else None).getresults()
    nvec = np.array(sqref.default_vectors(d, m, op), dtype=np.int64).reshape(-1, d)
    if len(nvec) == 0:
        raise RuntimeError("harness: empty default set generated")
    info = compare_with_reference(case, nvec, res)
    info.pop("_exp", None)
    if "excluded-boundary" in info["tags"]:
        return info
    info["tags"] += [f"onlypositive={op!r}", "numofq-odd" if m % 2 else "numofq-even",
                     "numofq<=6" if m <= 6 else ("numofq<=12" if m <= 12 else "numofq>12")]
    return info


def describe(case):
    out = {"d": case["d"], "L": np.diag(case["cell"]["H"]).tolist(), "lo": np.round(case["cell"]["lo"], 4).tolist(),
           "K": case["K"], "types": np.asarray(case["types"]).tolist(), "frames": len(case["pos"]),
           "types_frames": None if case.get("types_frames") is None else [np.asarray(t).tolist() for t in case["types_frames"]],
           "pos0": np.round(case["pos"][0][:3], 4).tolist(), "outfile": case["outfile"], "saveq": case["saveq"]}
    if case.get("mode") == "explicit":
        out["qvector"] = np.asarray(case["qvector"]).tolist()[:12]
        out["qrep"], out["batch"] = case.get("qrep"), case.get("batch")
    if case.get("argrep"):
        out["argrep"] = case["argrep"]
    elif case.get("mode") == "range":
        out.update(qrange=case["qrange"], onlypositive=case["onlypositive"], numofq=case["m"])
    return out


# ----------------------------------------------------------------------------- analytic lattice


@st.composite
def lattice_case(draw):
    d = draw(st.sampled_from([2, 3]))
    reps = [draw(st.integers(1, 3)) for _ in range(d)]
    cell = draw(box_st(d))
    centred = draw(st.booleans())
    twotypes = draw(st.booleans()) if centred else False
    corners = np.array(list(itertools.product(*[range(r) for r in reps])), dtype=float) / np.array(reps, dtype=float)
    f = corners
    types = np.ones(len(corners), dtype=int)
    if centred:
        f = np.vstack([corners, corners + 0.5 / np.array(reps, dtype=float)])
        types = np.concatenate([types, np.full(len(corners), 2 if twotypes else 1)])
    N = len(f)
    shift = draw(hnp.arrays(np.float64, (d,), elements=fl(-1.0, 1.0)))
    offs = draw(hnp.arrays(np.int64, (N, d), elements=st.integers(-1, 1))).astype(float)
    perm = np.array(draw(st.permutations(range(N))))
    T = draw(st.integers(1, 2))
    pos = []
    for _ in range(T):
        pos.append((cell["lo"] + (f + shift + offs) @ cell["H"])[perm])
        shift = shift + draw(hnp.arrays(np.float64, (d,), elements=fl(-1.0, 1.0)))
    hmax = draw(st.integers(1, 2))
    rng = [range(-hmax * r, hmax * r + 1) for r in reps]
    allv = [v for v in itertools.product(*rng) if any(v)]
    idx = draw(st.lists(st.integers(0, len(allv) - 1), min_size=1, max_size=min(40, len(allv)), unique=True))
    qv = np.array([allv[i] for i in idx], dtype=np.int64)
    return {"d": d, "cell": cell, "pos": pos, "types": types[perm], "K": 2 if twotypes else 1, "reps": reps,
            "centred": centred, "timesteps": list(range(T)), "qvector": qv, "kind": "lattice",
            "qrep": draw(st.sampled_from(QREPS))}


def check_lattice(case):
    d, K, reps = case["d"], case["K"], np.array(case["reps"])
    L = np.diag(case["cell"]["H"])
    snaps = snapshots_of(case)
    nvec = case["qvector"]
    with process_state_unchanged("sq(qvector=...).getresults()"):
        res = sq(snaps, qvector=q_argument(nvec, case.get("qrep"))).getresults()
    cols = sqref.column_names(K)
    columns("sq.getresults()", res, cols)
    _, qn = sqref.wave_vectors(nvec, L)
    if sqref.boundary_ambiguous(qn):
        return {"nontrivial": False, "tags": ["excluded-boundary"], "extra": {"excluded_boundary": 1}}
    ncorner = int(np.prod(reps))
    bragg = np.all(nvec % reps == 0, axis=1)
    parity = np.where(bragg, (-1.0) ** ((nvec // reps).sum(axis=1) % 2), 0.0)
    N1 = float(ncorner)
    N2 = float(ncorner) if case["centred"] else 0.0
    N = N1 + N2
    pv = {"q": qn, "Sq": np.where(bragg, (N1 + N2 * parity) ** 2 / N, 0.0)}
    if K == 2:
        pv["Sq11"] = np.where(bragg, N1, 0.0)
        pv["Sq22"] = np.where(bragg, N2, 0.0)
        pv["Sq12"] = np.where(bragg, np.sqrt(N1 * N2) * parity, 0.0)
    exp, gsize = sqref.grouped(pv, cols)
    for c in cols:
        got = arr(f"column {c}", col("sq.getresults()", res, c), shape=(len(exp["q"]),)).astype(float)
        close(f"lattice: column {c} vs closed form", got, exp[c], rtol=0.0, atol=HALF if c == "q" else ATOL)
    nb = int(bragg.sum())
    tags = [f"d{d}", f"K{K}", "centred" if case["centred"] else "primitive", f"frames{len(case['pos'])}",
            "bragg0" if nb == 0 else "bragg+", "odd-parity-peak" if np.any(parity < 0) else "no-odd-peak"]
    tags += _qrep_tags(case.get("qrep"), nvec)
    return {"nontrivial": bool(nb > 0 and nb < len(nvec)), "tags": tags}


def describe_lattice(case):
    return {"d": case["d"], "L": np.diag(case["cell"]["H"]).tolist(), "reps": case["reps"], "centred": case["centred"],
            "K": case["K"], "qvector": case["qvector"].tolist()[:10], "qrep": case.get("qrep")}


# ----------------------------------------------------------------------------- exhaustive default set


def _default_set_call(case):
    """One call of choosewavevector compared with the enumerated documented set.  Returns (expected sorted list of
    tuples, the array the library returned)."""
    d, numofq, op = case["d"], case["numofq"], case["onlypositive"]
    want = sqref.default_vectors(d, numofq, op)
    with process_state_unchanged("choosewavevector"):
        ret = choosewavevector(d, numofq, op)
    got = arr(f"choosewavevector({d}, {numofq}, {op!r})", ret, ndim=2)
    require(got.shape[1] == d or got.shape[0] == 0, f"choosewavevector({d}, {numofq}, {op!r}): shape {got.shape}")
    require(got.size == 0 or np.all(got == np.rint(got)), "non-integer wave vectors")
    rows = sorted(tuple(int(c) for c in r) for r in got.reshape(-1, d).tolist())
    if rows != want:
        extra = sorted(set(rows) - set(want))[:6]
        missing = sorted(set(want) - set(rows))[:6]
        rep = len(rows) - len(set(rows))
        raise Violation(f"choosewavevector({d}, {numofq}, {op!r}): {len(rows)} vectors, expected {len(want)}; "
                        f"unexpected {extra}, missing {missing}, repeated {rep}")
    return want, ret


def _check_default_set(case):
    d, numofq, op = case["d"], case["numofq"], case["onlypositive"]
    want = sqref.default_vectors_large(d, numofq, op) if case.get("large") else sqref.default_vectors(d, numofq, op)
    with process_state_unchanged("choosewavevector"):
        ret = choosewavevector(d, numofq, op)
    got = arr(f"choosewavevector({d}, {numofq}, {op!r})", ret, ndim=2)
    require(got.shape[1] == d or got.shape[0] == 0, f"choosewavevector({d}, {numofq}, {op!r}): shape {got.shape}")
    require(got.size == 0 or np.all(got == np.rint(got)), "non-integer wave vectors")
    rows = sorted(tuple(int(c) for c in r) for r in got.reshape(-1, d).tolist())
    if rows != want:
        extra = sorted(set(rows) - set(want))[:6]
        missing = sorted(set(want) - set(rows))[:6]
        rep = len(rows) - len(set(rows))
        raise Violation(f"choosewavevector({d}, {numofq}, {op!r}): {len(rows)} vectors, expected {len(want)}; "
                        f"unexpected {extra}, missing {missing}, repeated {rep}")
    return want


# large ranges (a membership test that is exact for small norms only -- float comparison, tolerance, int32 squares --
# shows from a half width of a few hundred on; the repository's own tests reach 159 in 2D and 83 in 3D)
LARGE = {"quick": {2: [100, 159, 256, 334, 400, 700], 3: [48, 83, 100]},
         "thorough": {2: [64, 100, 159, 200, 256, 333, 334, 400, 512, 700, 1000, 1500, 2000, 3000],
                      3: [32, 48, 64, 83, 100, 150, 200, 280, 300]}}


def enum_default_vectors(tier):
    top = {2: 40, 3: 24} if tier == "quick" else {2: 120, 3: 48}
    for d in (2, 3):
        for numofq in range(2, top[d] + 1):
            for op in [False, True, "x", "y"] + (["z"] if d == 3 else []):
                case = {"d": d, "numofq": numofq, "onlypositive": op}
                try:
                    want = _check_default_set(case)
                except Violation as v:
                    v.case = case
                    raise
                except Exception as e:  # noqa: BLE001 - let the harness classify it, but keep the case
                    e.case = case
                    raise
                yield case, {"nontrivial": len(want) > 0,
                             "tags": [f"d{d}", f"onlypositive={op!r}", "odd" if numofq % 2 else "even",
                                      "empty" if not want else "nonempty",
                                      "has-offaxis" if any(sum(1 for c in v if c) > 1 for v in want) else "axis-only"]}
    # the two references agree where both are affordable (guards the vectorised one used for the large ranges)
    for d, numofq, op in [(2, 37, False), (2, 40, True), (3, 17, "z"), (3, 20, False), (2, 33, "y")]:
        if sqref.default_vectors(d, numofq, op) != sqref.default_vectors_large(d, numofq, op):
            raise RuntimeError(f"harness: reference implementations of the default set disagree at {(d, numofq, op)}")
    for d in (2, 3):
        for numofq in LARGE[tier][d]:
            for op in [False, True, "x"] + (["z"] if d == 3 else ["y"]):
                case = {"d": d, "numofq": numofq, "onlypositive": op, "large": True}
                try:
                    want = _check_default_set(case)
                except Violation as v:
                    v.case = case
                    raise
                except Exception as e:  # noqa: BLE001
                    e.case = case
                    raise
                yield case, {"nontrivial": True, "tags": [f"d{d}", f"onlypositive={op!r}", "large-range",
                                                          "half-width>=150" if numofq >= 300 else "half-width<150"]}


_enum = Facet("default_vectors", check=enum_default_vectors, exhaustive=True,
              rule="every (d, numofq, onlypositive) with d in {2,3}, numofq 2..40 (2D) / 2..24 (3D) [thorough: 120 / 48], plus "
                   "large ranges numofq up to 700 (2D) / 100 (3D) [thorough: 3000 / 300]; "
                   "onlypositive in False, True, 'x', 'y', ('z' in 3D): the returned rows equal, without repeats, all "
                   "non-zero integer vectors in [-floor(numofq/2), floor(numofq/2))^d with integer norm, filtered as "
                   "documented; non-trivial = the expected set is not empty")
_enum.replay = _check_default_set

# ----------------------------------------------------------------------------- minimal sizes


def _range_for(draw, L, m):
    """A qrange for which numofq = int(2 qrange / min(2 pi / L)) = m, away from the integer boundaries."""
    f = draw(st.one_of(st.sampled_from([0.05, 0.5, 0.95]), fl(0.05, 0.95)))
    return float((m + f) * np.pi / float(np.max(L)))


@st.composite
def minimal_case(draw):
    d = draw(st.sampled_from([2, 3]))
    cell = draw(box_st(d))
    L = np.diag(cell["H"])
    shape = draw(st.sampled_from(["N=K", "N=K", "N=1", "N=2", "one-rare-species", "K=6", "small"]))
    if shape == "N=K":
        K = draw(st.integers(1, 6))
        N = K
    elif shape == "N=1":
        K = N = 1
    elif shape == "N=2":
        K = draw(st.sampled_from([1, 2]))
        N = 2
    elif shape == "one-rare-species":
        K = draw(st.integers(2, 5))
        N = draw(st.integers(K + 1, 9))
    elif shape == "K=6":
        K = 6
        N = draw(st.integers(6, 8))
    else:
        K = draw(st.integers(1, 5))
        N = draw(st.integers(max(K, 2), 6))
    if shape == "one-rare-species":
        rare = draw(st.integers(1, K))
        others = [a for a in range(1, K + 1) if a != rare]
        t = [rare] + others + [others[draw(st.integers(0, len(others) - 1))] for _ in range(N - K)]
        perm = draw(st.permutations(range(N)))
        types = np.array([t[i] for i in perm], dtype=int)
    else:
        types = draw(gen.types_st(N, K))
    T = draw(st.sampled_from([1, 1, 1, 2, 3]))
    fr = [draw(gen.frac_st(N, d)) for _ in range(T)]
    offs = np.zeros((N, d))
    if draw(st.booleans()):
        offs = draw(hnp.arrays(np.int64, (N, d), elements=st.integers(-2, 2))).astype(float)
    pos = [cell["lo"] + (f + offs) @ cell["H"] for f in fr]
    types_frames = None
    if T >= 2 and 2 <= K <= 5 and draw(st.booleans()):
        types_frames = draw(frame_labels_st(types, T))
    outfile = draw(st.booleans())
    case = {"d": d, "cell": cell, "pos": pos, "types": types, "types_frames": types_frames, "K": K, "kind": "gas",
            "timesteps": [7 + 10 * k for k in range(T)], "outside": bool(np.any(offs)),
            "outfile": outfile, "saveq": bool(outfile and draw(st.booleans())), "shape": shape}
    qmode = draw(st.sampled_from(["one-vector", "one-vector", "one-group", "two-groups",
                                  "smallest-range", "smallest-range"]))
    case["qmode"] = qmode
    if qmode == "smallest-range":
        ops = [False, False, True, True, "x", "y"] + (["z"] if d == 3 else [])
        op = draw(st.sampled_from(ops))
        # smallest numofq whose documented set is not empty: 2 (and 3: same half width) for the full set,
        # 4 (and 5) as soon as a strictly positive component is needed
        m = (2 if op is False else 4) + draw(st.integers(0, 1))
        case.update(mode="range", onlypositive=op, m=m, qrange=_range_for(draw, L, m))
        return case
    v = np.array(draw(st.one_of(st.sampled_from(PYTH[d]),
                                st.tuples(*[st.integers(-6, 6)] * d))), dtype=np.int64)
    if not v.any():
        v[draw(st.integers(0, d - 1))] = draw(st.sampled_from([-3, -1, 1, 2, 5]))
    if qmode == "one-vector":
        rows = [v]
    elif qmode == "one-group":  # every row has exactly the same |q|: one output row
        rows = [v]
        for _ in range(draw(st.integers(1, 3))):
            signs = np.array([draw(st.sampled_from([-1, 1])) for _ in range(d)])
            rows.append(v * signs)
    else:
        rows = [v, draw(st.sampled_from([2, 3, -2])) * v]
    case.update(mode="explicit", qvector=np.array(rows, dtype=np.int64), qrep=draw(st.sampled_from(QREPS)))
    return case


def check_minimal(case):
    info = check_explicit(case) if case["mode"] == "explicit" else check_range(case)
    excluded = any(t.startswith("excluded") for t in info["tags"])
    N = len(case["types"])
    info["tags"] += ["shape:" + case["shape"], "q:" + case["qmode"], f"N={N}" if N <= 3 else "N>3"]
    if N == case["K"]:
        info["tags"].append("all-N_a=1")
    info["nontrivial"] = not excluded
    return info


def describe_minimal(case):
    out = describe(case)
    out.update(shape=case["shape"], qmode=case["qmode"])
    return out


# ----------------------------------------------------------------------------- state between calls

REPEAT_VARIANTS = ["two-systems", "two-systems-same-shape", "two-systems-same-shape", "positions-inplace",
                   "positions-inplace", "labels-inplace", "positions+labels-inplace", "positions+labels-inplace", "qvector-same-shape",
                   "qvector-inplace", "qvector-inplace", "same-object-twice"]


@st.composite
def other_qvector_st(draw, q):
    """An integer wave-vector list of the SAME shape and dtype as q with other contents (no zero row)."""
    q = np.asarray(q)
    how = draw(st.sampled_from(["random", "random", "double", "roll"]))
    if how == "double":
        new = 2 * q
    elif how == "roll":
        new = np.roll(q, 1, axis=1)
    else:
        new = draw(hnp.arrays(np.int64, q.shape, elements=st.integers(-6, 6)))
        for k, r in enumerate(new):
            if not r.any():
                r[k % q.shape[1]] = 1 + k % 3
    if np.array_equal(new, q):
        new = -3 * q
    return new.astype(q.dtype)


@st.composite
def repeat_case(draw):
    s1 = draw(system_st(frames=(1, 2), nmax=12, kmax=5))
    d, cell = s1["d"], s1["cell"]
    L = np.diag(cell["H"])
    N, T = len(s1["types"]), len(s1["pos"])
    s1["mode"] = "explicit"
    s1["qvector"] = draw(qvector_st(d, L)).astype(np.int64)
    variant = draw(st.sampled_from(REPEAT_VARIANTS))
    s2 = dict(s1)
    if variant == "two-systems":
        s2 = draw(system_st(frames=(1, 2), nmax=12, kmax=5))
        s2["mode"] = "explicit"
        s2["qvector"] = draw(qvector_st(s2["d"], np.diag(s2["cell"]["H"]))).astype(np.int64)
    if variant in ("two-systems-same-shape", "positions-inplace", "positions+labels-inplace"):
        s2["pos"] = [cell["lo"] + draw(gen.frac_st(N, d)) @ cell["H"] for _ in range(T)]
        s2["outside"] = False
    if variant in ("two-systems-same-shape", "labels-inplace", "positions+labels-inplace"):
        how = draw(st.sampled_from(["permuted", "other-composition", "other-K"]))
        K2 = s1["K"]
        if how == "permuted":  # same multiset of labels, other arrangement
            perm = np.array(draw(st.permutations(range(N))))
            t2 = np.asarray(s1["types"])[perm]
        else:
            if how == "other-K":
                K2 = draw(st.integers(1, min(5, N)))
            t2 = draw(gen.types_st(N, K2))
        s2["types"], s2["K"], s2["types_frames"] = t2, K2, None
        if T >= 2 and K2 >= 2 and draw(st.booleans()):
            s2["types_frames"] = draw(frame_labels_st(t2, T))
    if variant in ("two-systems-same-shape", "qvector-same-shape", "qvector-inplace"):
        s2["qvector"] = draw(other_qvector_st(s1["qvector"]))
    return {"variant": variant, "s1": s1, "s2": s2, "twice": bool(variant == "same-object-twice" or draw(st.booleans())),
            "qrep": draw(st.sampled_from(QREPS_PLAIN)), "direct": draw(st.booleans())}


def _sq_object(snaps, qv, sub):
    return sq(snaps, qvector=qv, saveqvectors=sub["saveq"], outputfile="sq_out.csv" if sub["outfile"] else None)


def _set_inplace(snaps, sub):
    """Overwrite the arrays of an existing Snapshots object (the arrays keep their identity and shape)."""
    for snap, p, t in zip(snaps.snapshots, sub["pos"], labels_of(sub)):
        snap.positions[...] = p
        snap.particle_type[...] = t


def _results_differ(e1, e2):
    if sorted(e1) != sorted(e2):
        return True
    for c in e1:
        if e1[c].shape != e2[c].shape or np.any(np.abs(e1[c] - e2[c]) > 1e-3):
            return True
    return False


METHOD_OF_K = {1: "unary", 2: "binary", 3: "ternary", 4: "quarternary", 5: "quinary"}


def _frame_snapshot(df):
    """Bit-exact copy of a returned DataFrame (column names + values) taken at the moment of return."""
    return list(df.columns), np.array(df.to_numpy(dtype=float), copy=True)


def _frame_unchanged(df, snap):
    cols, vals = snap
    now = df.to_numpy(dtype=float)
    return list(df.columns) == cols and now.shape == vals.shape and np.array_equal(now, vals, equal_nan=True)


def check_repeat(case):
    s1, s2, variant = case["s1"], case["s2"], case["variant"]
    qrep = case.get("qrep")
    for sub in (s1, s2):
        _, qn = sqref.wave_vectors(sub["qvector"], np.diag(sub["cell"]["H"]))
        if sqref.boundary_ambiguous(qn):
            return {"nontrivial": False, "tags": ["excluded-boundary"], "extra": {"excluded_boundary": 1}}
    calls = 0
    held = []  # (label, returned DataFrame kept alive, bit-exact copy taken at return)
    direct_calls = 0

    def evaluate(obj, sub, what, direct=False):
        """One evaluation, compared with the definition for the contents at call time.  direct=True calls the public
        method for the composition (unary() ... quinary()) instead of getresults(): the statement's anchors name them
        and getresults() only dispatches on the number of species."""
        nonlocal calls, direct_calls
        calls += 1
        try:
            with process_state_unchanged(what):
                if direct and sub["K"] in METHOD_OF_K:
                    direct_calls += 1
                    res = getattr(obj, METHOD_OF_K[sub["K"]])()
                else:
                    res = obj.getresults()
            info_ = compare_with_reference(sub, sub["qvector"], res)
        except Violation as v:
            raise Violation(f"[{variant}: {what}] {v}") from None
        held.append((what, res, _frame_snapshot(res)))
        return info_

    snaps1 = snapshots_of(s1)
    q1 = q_argument(s1["qvector"], qrep)
    o1 = _sq_object(snaps1, q1, s1)
    info = evaluate(o1, s1, "first call")
    first = held[0][1]
    exp1 = info.pop("_exp")
    if case["twice"]:
        evaluate(o1, s1, "second evaluation on the same object", direct=case.get("direct", False))
        # the frame returned by the first call still shows the values of the definition
        try:
            compare_with_reference(s1, s1["qvector"], first)
        except Violation as v:
            raise Violation(f"[{variant}: first returned frame after a second getresults()] {v}") from None
    # ---- state 2
    inplace = variant in ("positions-inplace", "labels-inplace", "positions+labels-inplace")
    if variant in ("two-systems", "two-systems-same-shape"):
        snaps2, q2 = snapshots_of(s2), q_argument(s2["qvector"], qrep)
    elif inplace:
        _set_inplace(snaps1, s2)
        snaps2, q2 = snaps1, q1
    elif variant == "qvector-same-shape":
        snaps2, q2 = snaps1, q_argument(s2["qvector"], qrep)
    elif variant == "qvector-inplace":
        q1[...] = s2["qvector"]
        snaps2, q2 = snaps1, q1
    else:
        snaps2, q2 = snaps1, q1
    exp2 = evaluate(_sq_object(snaps2, q2, s2), s2, "new object on the second input").pop("_exp")
    # ---- back to state 1
    if inplace:
        _set_inplace(snaps1, s1)
    elif variant == "qvector-inplace":
        q1[...] = s1["qvector"]
    evaluate(_sq_object(snaps1, q1, s1), s1, "new object on the first input again")
    # ---- both objects alive, evaluated in the opposite order of their construction
    if variant in ("two-systems", "two-systems-same-shape", "qvector-same-shape"):
        oa = _sq_object(snaps1, q1, s1)
        ob = _sq_object(snaps2, q2, s2)
        evaluate(ob, s2, "two live objects, second evaluated first")
        evaluate(oa, s1, "two live objects, first evaluated last", direct=case.get("direct", False))
    # ---- results handed out earlier must stay what they were (EXTENSION_3 class 3): every DataFrame returned during
    # the case is still alive; each must equal, bit for bit, the copy taken when it was returned -- whatever was
    # computed afterwards for other (also same-shaped) inputs
    for what, res, snap in held:
        require(_frame_unchanged(res, snap),
                lambda what=what: f"[{variant}] the DataFrame returned by '{what}' changed after it was handed out "
                                  f"({len(held)} results alive)")
    differ = _results_differ(exp1, exp2)
    tags = ["variant:" + variant] + [t for t in info["tags"] if t in ("d2", "d3") or t.startswith(("K", "frames", "labels-"))]
    tags += _qrep_tags(qrep, s1["qvector"])
    tags.append(f"results-held={min(len(held), 6)}")
    shapes = [h[2][1].shape for h in held]
    if len(shapes) > len(set(shapes)):
        tags.append("held-results-of-equal-shape")
    if direct_calls:
        tags.append("direct-method-call")
    if case["twice"]:
        tags.append("getresults-twice")
    if variant != "same-object-twice":
        tags.append("second-input-changes-result" if differ else "second-input-same-result")
    if s1["outfile"] or s2["outfile"]:
        tags.append("csv")
    return {"nontrivial": bool(differ or variant == "same-object-twice"), "tags": tags, "extra": {"sq_calls": calls}}


def describe_repeat(case):
    out = {"variant": case["variant"], "twice": case["twice"], "first": describe(case["s1"])}
    if case["variant"] != "same-object-twice":
        out["second"] = describe(case["s2"])
    return out


# ----------------------------------------------------------------------------- sequences of wave-vector calls


def _ops(d):
    return [False, False, True, True, "x", "y"] + (["z"] if d == 3 else [])


def _top(d):
    return 24 if d == 2 else 12


@st.composite
def wavevector_case(draw):
    sysc = draw(system_st(frames=(1, 2), nmax=8, kmax=5))
    d0 = sysc["d"]
    L = np.diag(sysc["cell"]["H"])
    d = draw(st.sampled_from([2, 3, d0, d0]))
    m = draw(st.integers(2, _top(d)))
    op = draw(st.sampled_from(_ops(d)))
    steps = []
    nsq = 0
    for k in range(draw(st.integers(2, 6))):
        if k:
            how = draw(st.sampled_from(["same", "other-op", "other-op", "other-d", "m+1", "m-1", "m+2", "fresh"]))
            if how == "other-op":
                op = draw(st.sampled_from([o for o in _ops(d) if o is not op and o != op] or [False]))
            elif how == "other-d":
                d = 5 - d
                m = min(m, _top(d))
                if op == "z" and d == 2:
                    op = draw(st.sampled_from(["x", "y", True]))
            elif how == "m+1":
                m = min(m + 1, _top(d))
            elif how == "m-1":
                m = max(m - 1, 2)
            elif how == "m+2":
                m = min(m + 2, _top(d))
            elif how == "fresh":
                d = draw(st.sampled_from([2, 3]))
                m = draw(st.integers(2, _top(d)))
                op = draw(st.sampled_from(_ops(d)))
        mut = draw(st.sampled_from(["none", "zero", "negate", "reverse", "plus7"]))
        steps.append({"step": "wv", "d": d, "numofq": m, "onlypositive": op, "mutate": mut})
        if nsq < 2 and draw(st.integers(0, 2)) == 0:
            # an sq(...) built on the default set; preferably for exactly the arguments of the call just made
            sm, sop = m, op
            if d != d0 or draw(st.integers(0, 3)) == 0:
                sm = draw(st.integers(2, _top(d0)))
                sop = draw(st.sampled_from(_ops(d0)))
            if sop is not False:
                sm = max(sm, 4)
            steps.append({"step": "sq", "numofq": sm, "onlypositive": sop, "qrange": _range_for(draw, L, sm)})
            nsq += 1
    steps.append(dict(steps[0], mutate="none"))  # the first call once more, after everything else
    return {"system": sysc, "steps": steps}


def _mutate_returned(a, how):
    """What a caller may do with an array it was handed."""
    if how == "none" or not isinstance(a, np.ndarray) or a.size == 0 or not a.flags.writeable:
        return False
    if how == "zero":
        a[...] = 0
    elif how == "negate":
        np.negative(a, out=a)
    elif how == "reverse":
        a[...] = a[::-1, ::-1].copy()
    else:
        a += 7
    return True


def check_wavevector_calls(case):
    sysc = case["system"]
    d0 = sysc["d"]
    L = np.diag(sysc["cell"]["H"])
    seen = []  # (d, numofq, onlypositive, mutated, source)
    heldw = []  # (call index, returned array kept alive, copy taken at return, overwritten by the caller?)
    tags = set()
    nonempty = False
    sqinfo = None
    for k, stp in enumerate(case["steps"]):
        if stp["step"] == "wv":
            key = (stp["d"], stp["numofq"], stp["onlypositive"])
            try:
                want, ret = _default_set_call(stp)
            except Violation as v:
                raise Violation(f"[call {k + 1} of {len(case['steps'])}, after "
                                f"{[(s[0], s[1], s[2]) for s in seen]}] {v}") from None
            nonempty = nonempty or bool(want)
            snap = np.array(ret, copy=True) if isinstance(ret, np.ndarray) else None
            mutated = _mutate_returned(ret, stp["mutate"])
            if snap is not None:
                heldw.append((k, ret, snap, mutated))
            src = "wv"
        else:
            m, op = stp["numofq"], stp["onlypositive"]
            key = (d0, m, op)
            x = stp["qrange"] * 2.0 / (2.0 * np.pi / L).min()
            if abs(x - round(x)) < 1e-6 or int(x) != m:
                tags.add("sq-step-skipped-numofq-ambiguous")
                continue
            sub = dict(sysc, mode="range", onlypositive=op, m=m, qrange=stp["qrange"])
            try:
                sqinfo = check_range(sub)
            except Violation as v:
                raise Violation(f"[sq(qrange) as call {k + 1} of {len(case['steps'])}, after "
                                f"{[(s[0], s[1], s[2]) for s in seen]}] {v}") from None
            nonempty = True
            mutated = False
            src = "sq"
        for (pd_, pm, pop, pmut, psrc) in seen:
            same_op = type(pop) is type(key[2]) and pop == key[2]
            if (pd_, pm) == key[:2] and same_op:
                tags.add("pair:same-arguments")
                if pmut:
                    tags.add("pair:same-arguments-after-caller-mutated-result")
                if src == "sq" and psrc == "wv":
                    tags.add("sq-after-identical-call")
                if src == "wv" and psrc == "sq":
                    tags.add("call-after-identical-sq")
            elif (pd_, pm) == key[:2]:
                tags.add("pair:differs-in-onlypositive-only")
            elif pd_ == key[0] and same_op and pm // 2 == key[1] // 2:
                tags.add("pair:same-half-width-other-numofq")
            elif pd_ == key[0] and same_op:
                tags.add("pair:differs-in-numofq-only")
            elif pd_ != key[0] and pm == key[1] and same_op:
                tags.add("pair:differs-in-ndim-only")
        seen.append(key + (mutated, src))
    # tables handed out earlier must stay what they were (EXTENSION_3 class 3): every returned array that the caller
    # did not overwrite -- and that shares no memory with one the caller did overwrite -- still equals its copy
    dirty = [r for (_, r, _, m) in heldw if m]
    nheld = 0
    for k, r, snap, m in heldw:
        if m or any(np.shares_memory(r, o) for o in dirty):
            continue
        nheld += 1
        require(r.shape == snap.shape and np.array_equal(r, snap),
                lambda k=k: f"the table returned by call {k + 1} changed after it was handed out "
                            f"(calls so far: {[(s_[0], s_[1], s_[2]) for s_ in seen]})")
    if nheld >= 2:
        tags.add("held-tables>=2")
    related = any(t.startswith("pair:") for t in tags)
    tags.add(f"calls={min(len(seen), 7)}")
    tags.add("with-sq" if any(s[4] == "sq" for s in seen) else "without-sq")
    if any(s[3] for s in seen):
        tags.add("caller-mutated-a-result")
    if sqinfo is not None:
        tags.update(t for t in sqinfo["tags"] if t.startswith(("K", "labels-")))
    return {"nontrivial": bool(related and nonempty), "tags": sorted(tags), "extra": {"calls": len(seen)}}


def describe_wavevector(case):
    return {"steps": [{k: v for k, v in s.items()} for s in case["steps"]], "system": describe(case["system"])}


# ----------------------------------------------------------------------------- size boundaries (EXTENSION_3 class 1)

# block sizes a "vectorised" / chunked rewrite typically walks in; around each: B-1, B, B+1, 2B-1, 2B+1, B + B//3
BLOCKS = {"N": {False: [32, 50, 64, 100, 128, 200, 256], True: [500, 512, 1000, 1024]},
          "M": {False: [32, 50, 64, 100, 128, 200, 256], True: [500, 512, 1000, 1024]},
          "T": {False: [32, 50, 64, 100], True: [128, 200, 256, 500]}}


def boundary_values(blocks):
    return sorted({v for B in blocks for v in (B - 1, B, B + 1, 2 * B - 1, 2 * B + 1, B + B // 3)})


@st.composite
def size_case(draw, deep=False):
    """A SPEC (small, picklable): one size axis -- particles N, supplied wave vectors M, frames T -- sits on a block
    boundary, the other two stay small so that the case is cheap; 'range' = a qrange whose default set holds hundreds
    of vectors.  The arrays are built in the check from the drawn seed (a Hypothesis-drawn seed of numpy's
    generator: the entropy of 1000 x 3 coordinates does not fit Hypothesis' buffer)."""
    # The joint class (axis, d, K, boundary value) comes from numpy's generator seeded with two Hypothesis-drawn
    # integers: uniform and independent over the whole grid.  (Drawn with st.sampled_from, the four came out clumped --
    # Hypothesis repeats and mutates blocks of earlier draws -- and a change that needs ONE composition at ONE boundary
    # value, e.g. K = 3 with T in {51, 101, 201}, met 2 instead of ~10 cases per run.)
    seed, offset = draw(st.integers(0, 2 ** 32 - 1)), draw(st.integers(0, 2 ** 16))
    rng = np.random.default_rng([seed, offset, 4])
    axis = str(rng.choice(["N", "N", "N", "N", "M", "M", "T", "T", "range"]))
    d = int(rng.choice([2, 3]))
    K = int(rng.choice([1, 2, 3, 4, 5, 1, 2, 3, 4, 5, 6]))
    spec = {"axis": axis, "d": d, "K": K, "deep": bool(deep), "seed": seed, "offset": offset,
            "cell": draw(box_st(d)), "cfg": draw(st.sampled_from(["gas", "gas", "jittered-lattice", "cluster"])),
            "where": draw(st.sampled_from(["inside", "inside", "some-outside", "all-outside"])),
            "composition": draw(st.sampled_from(["random", "random", "equal", "one-rare"])),
            "qrep": draw(st.sampled_from(QREPS)), "mode": "explicit", "size": None}

    def pick(values):
        return values[int(rng.integers(len(values)))]

    spec["outfile"] = draw(st.booleans())
    spec["saveq"] = bool(spec["outfile"] and draw(st.booleans()))
    if axis == "N":
        spec["size"] = spec["N"] = pick(boundary_values(BLOCKS["N"][deep]))
        spec["T"] = draw(st.sampled_from([1, 1, 2]))
        spec["M"] = draw(st.integers(1, 6))
        if draw(st.integers(0, 3)) == 0:  # the default-set path with few vectors
            op = draw(st.sampled_from(_ops(d)))
            m = draw(st.integers(2 if op is False else 4, 6))
            spec.update(mode="range", onlypositive=op, m=m, qrange=_range_for(draw, np.diag(spec["cell"]["H"]), m))
    elif axis == "M":
        spec["size"] = spec["M"] = pick(boundary_values(BLOCKS["M"][deep]))
        spec["qstyle"] = draw(st.sampled_from(["random", "random", "random", "one-shell"]))
        spec["N"] = draw(st.integers(max(K, 2), 8))
        spec["T"] = draw(st.sampled_from([1, 1, 2]))
    elif axis == "T":
        spec["size"] = spec["T"] = pick(boundary_values(BLOCKS["T"][deep]))
        spec["N"] = draw(st.integers(max(K, 1), 6))
        spec["M"] = draw(st.integers(1, 4))
    else:
        op = draw(st.sampled_from([False, False, True] + (["x"] if d == 2 else ["z"])))
        top = (40, 64) if d == 2 else (14, 20)
        if deep:
            top = (64, 160) if d == 2 else (20, 36)
        m = draw(st.integers(*top))
        spec["N"] = draw(st.integers(max(K, 2), 8))
        spec["T"] = 1
        spec.update(mode="range", onlypositive=op, m=m, qrange=_range_for(draw, np.diag(spec["cell"]["H"]), m),
                    size=m)
    spec["labels_move"] = bool(spec["T"] >= 2 and 2 <= K <= 5 and draw(st.booleans()))
    return spec


def build_size_case(spec):
    """The full case of a size spec (deterministic in the spec)."""
    rng = np.random.default_rng([spec["seed"], spec.get("offset", 0)])
    d, K, N, T = spec["d"], spec["K"], spec["N"], spec["T"]
    cell = spec["cell"]
    H, lo = cell["H"], cell["lo"]

    def frame():
        if spec["cfg"] == "jittered-lattice":
            n = int(np.ceil(N ** (1.0 / d)))
            grid = np.array(list(itertools.product(range(n), repeat=d)), dtype=float)[rng.permutation(n ** d)[:N]]
            f = (grid + 0.5 + 0.1 * (rng.random((N, d)) - 0.5)) / n
        elif spec["cfg"] == "cluster":
            f = np.mod(0.5 + 0.08 * rng.standard_normal((N, d)), 1.0)
        else:
            f = rng.random((N, d))
        return np.clip(f, 0.0, np.nextafter(1.0, 0.0))

    fr = [frame() for _ in range(T)]
    offs = np.zeros((N, d))
    if spec["where"] == "some-outside":
        offs = rng.integers(-2, 3, (N, d)).astype(float)
    elif spec["where"] == "all-outside":
        offs = np.tile(rng.choice([-2.0, -1.0, 1.0, 2.0], d), (N, 1))
    pos = [lo + (f + offs) @ H for f in fr]
    # composition: every species present
    if spec["composition"] == "equal":
        types = np.arange(N) % K + 1
    elif spec["composition"] == "one-rare" and K >= 2:  # species 1 has a single particle
        types = np.concatenate([np.arange(1, K + 1), rng.integers(2, K + 1, max(N - K, 0))])
    else:
        types = np.concatenate([np.arange(1, K + 1), rng.integers(1, K + 1, max(N - K, 0))])
    types = rng.permutation(types[:N].astype(int))
    types_frames = None
    if spec["labels_move"]:
        types_frames = [types] + [rng.permutation(types) for _ in range(T - 1)]
        if all(np.array_equal(t, types) for t in types_frames[1:]):
            types_frames = None
    case = {"d": d, "cell": cell, "pos": pos, "types": types, "types_frames": types_frames, "K": K,
            "kind": spec["cfg"], "timesteps": [1000 + 50 * k for k in range(T)], "outside": bool(np.any(offs)),
            "all_outside": spec["where"] == "all-outside", "outfile": spec["outfile"], "saveq": spec["saveq"],
            "mode": spec["mode"]}
    if spec["mode"] == "range":
        case.update(onlypositive=spec["onlypositive"], m=spec["m"], qrange=spec["qrange"])
    else:
        M = spec["M"]
        R = 6 if M <= 64 else (10 if M <= 300 else 24)
        q = rng.integers(-R, R + 1, (M, d))
        pyth = np.array(PYTH[d])
        use = rng.random(M) < 0.25  # Pythagorean mates: groups of several directions and float norms
        q[use] = pyth[rng.integers(0, len(pyth), int(use.sum()))]
        zero = ~q.any(axis=1)
        q[zero, rng.integers(0, d, int(zero.sum()))] = rng.choice([-3, -1, 1, 2], int(zero.sum()))
        if spec["axis"] == "M" and spec.get("qstyle") == "one-shell":
            # EXTENSION_3 class 5: ALL rows are sign flips (and repeats) of one vector: a single |q| group with M >= 130 /
            # >= 260 members (a member counter kept in int8 / uint8 wraps), averaged exactly like any other group
            base = pyth[rng.integers(0, len(pyth))] if rng.random() < 0.5 else q[0]
            q = base[None, :] * rng.choice([-1, 1], (M, d))
        case.update(qvector=q.astype(np.int64), qrep=spec["qrep"], batch=None)
    return case


def _bucket(n):
    for top in (8, 31, 64, 128, 256, 512, 1024):
        if n <= top:
            return f"<={top}"
    return ">1024"


def check_size(spec):
    case = build_size_case(spec)
    info = check_explicit(case) if case["mode"] == "explicit" else check_range(case)
    if any(t.startswith("excluded") for t in info["tags"]):
        info["nontrivial"] = False
        return info
    axis = spec["axis"]
    info["tags"] = [t for t in info["tags"] if not t.startswith(("frames", "origin-", "cfg-", "numofq"))]
    info["tags"] += [f"size-axis-{axis}", f"N{_bucket(spec['N'])}", f"frames{_bucket(spec['T'])}"]
    if axis == "range":
        info["tags"].append("default-set-M" + _bucket(info["extra"]["vectors"]))
    else:
        info["tags"].append(f"size-boundary-{axis}={spec['size']}")
        B = [b for b in BLOCKS[axis][spec["deep"]] if spec["size"] in (b - 1, b, b + 1, 2 * b - 1, 2 * b + 1, b + b // 3)]
        s_, b = spec["size"], B[0]
        info["tags"].append("size-" + ("B-1" if s_ == b - 1 else "B" if s_ == b else "B+1" if s_ == b + 1 else
                                       "2B-1" if s_ == 2 * b - 1 else "2B+1" if s_ == 2 * b + 1 else "B+B//3"))
    info["tags"].append("cfg-" + spec["cfg"])
    if spec.get("qstyle") == "one-shell":
        info["tags"].append("all-vectors-in-one-shell")
    info["nontrivial"] = True
    return info


def describe_size(spec):
    out = {k: v for k, v in spec.items() if k != "cell"}
    out["L"] = np.diag(spec["cell"]["H"]).tolist()
    out["lo"] = np.round(spec["cell"]["lo"], 4).tolist()
    return out


# ----------------------------------------------------------------------------- argument representations


@st.composite
def representation_case(draw):
    """Value-equal arguments in other numpy representations (EXTENSION_2 class 3 / EXTENSION_3 class 2): a hand-built
    system with an integer box (np.diag([10, 10, 10]) style int64 cell), integer or dyadic coordinates, labels read with
    another dtype; the explicit wave-vector list in any representation.  The oracle is evaluated for the VALUES."""
    d = draw(st.sampled_from([2, 3]))
    K = draw(st.integers(1, 5))
    N = draw(st.integers(max(K, 2), 12))
    T = draw(st.sampled_from([1, 1, 2]))
    L = np.array(draw(st.lists(st.integers(3, 24), min_size=d, max_size=d)), dtype=float)
    lo = np.array(draw(st.lists(st.integers(-12, 12), min_size=d, max_size=d)), dtype=float)
    cell = {"d": d, "kind": "ortho", "H": np.diag(L), "lo": lo, "origin": "arbitrary"}
    rep = draw(st.sampled_from(ARGREPS))
    pos = []
    for _ in range(T):
        if "int-positions" in rep:
            p = draw(hnp.arrays(np.int64, (N, d), elements=st.integers(-30, 60), fill=st.nothing())).astype(float)
        else:  # multiples of 1/64: exact in float32 as well
            p = draw(hnp.arrays(np.int64, (N, d), elements=st.integers(-30 * 64, 60 * 64), fill=st.nothing())) / 64.0
        pos.append(p)
    types = draw(gen.types_st(N, K))
    qb = draw(qbatch_st(d, L))
    outfile = draw(st.booleans())
    return {"d": d, "cell": cell, "pos": pos, "types": types, "types_frames": None, "K": K, "kind": "gas",
            "timesteps": [10 * k for k in range(T)], "outside": True, "outfile": outfile,
            "saveq": bool(outfile and draw(st.booleans())), "mode": "explicit", "qvector": qb["q"], "batch": qb["batch"],
            "qrep": draw(st.sampled_from(QREPS)), "argrep": rep}


def check_representation(case):
    info = check_explicit(case)
    info["nontrivial"] = not any(t.startswith("excluded") for t in info["tags"])
    return info


FACETS = [
    Facet("explicit_vectors", explicit_case(), check_explicit, quick=1200, thorough=40000, describe=describe,
          shards_quick=4, rule="explicit integer qvector lists; non-trivial as in RULE"),
    Facet("default_range", range_case(), check_range, quick=800, thorough=30000, describe=describe, shards_quick=4,
          rule="qrange/onlypositive: class uses the default set for numofq=int(2 qrange/min(2pi/L)); non-trivial as in RULE"),
    Facet("analytic_lattice", lattice_case(), check_lattice, quick=300, thorough=10000, describe=describe_lattice,
          rule="simple / centred lattices with m_k cells per axis, optional second species on the centres: closed-form "
               "Bragg-peak values; non-trivial = the list holds Bragg and non-Bragg vectors"),
    _enum,
    Facet("minimal_sizes", minimal_case(), check_minimal, quick=900, thorough=20000, describe=describe_minimal,
          shards_quick=2,
          rule="smallest inputs the statement still defines: N = K (every species one particle), N = 1, N = 2, one "
               "species with a single particle, K = 6 with N <= 8, 1..3 frames (per-frame labels included) x one wave "
               "vector / one |q| group / two groups / the smallest qrange whose documented default set is not empty "
               "(numofq 2,3 for the full set, 4,5 with onlypositive); non-trivial = compared (not excluded)"),
    Facet("repeat_calls", repeat_case(), check_repeat, quick=800, thorough=15000, describe=describe_repeat,
          shards_quick=4,
          rule="several sq objects in one process: getresults() twice on one object; two different Snapshots objects "
               "(also of identical shapes) alternately; ONE Snapshots object whose positions / label arrays are "
               "overwritten in place between constructions; same-shaped qvector arrays with other contents; one "
               "qvector array overwritten in place; every result equals the definition for the contents at call "
               "time; non-trivial = the two inputs have different expected results (or getresults() twice)"),
    Facet("size_boundaries", size_case(), check_size, quick=2000, thorough=32000, describe=describe_size,
          shards_quick=4, quick_budget_s=150.0,
          rule="one size axis on a block boundary B-1, B, B+1, 2B-1, 2B+1, B+B//3: particles N (B in 32, 50, 64, 100, "
               "128, 200, 256: N = 31..513) with 1..6 wave vectors or a small default range, supplied wave vectors M "
               "(same values) with N <= 8, frames T (B in 32, 50, 64, 100: T = 31..201) with N <= 6; or a qrange whose "
               "default set has hundreds of vectors (numofq 40..64 in 2D, 14..20 in 3D); K 1..6, 2D/3D, every "
               "representation of the list; vectorised reference, same comparison as explicit_vectors; "
               "non-trivial = compared"),
    Facet("size_boundaries_deep", size_case(deep=True), check_size, quick=0, thorough=6000, describe=describe_size,
          rule="thorough tier only: N and M around 500, 512, 1000, 1024 (499..2049), T around 128, 200, 256, 500 "
               "(127..1001), default sets for numofq up to 160 (2D) / 36 (3D)"),
    Facet("representations", representation_case(), check_representation, quick=500, thorough=12000, describe=describe,
          rule="value-equal arguments in other numpy representations: int64 cell and / or int64 coordinates, float32 / "
               "Fortran-ordered coordinates, labels as float64 / int32 / int8, the wave-vector list as int64/32/16/8, "
               "float64, float32, Fortran-ordered, strided view, read-only; non-trivial = compared"),
    Facet("wavevector_calls", wavevector_case(), check_wavevector_calls, quick=500, thorough=15000,
          describe=describe_wavevector, shards_quick=2,
          rule="3..9 calls of choosewavevector(ndim, numofq, onlypositive) in one process whose arguments differ in "
               "one argument / not at all, each returned array overwritten by the caller afterwards, interleaved with "
               "sq(..., qrange, onlypositive) objects using the same arguments: every call returns the enumerated "
               "documented set and every sq equals the definition; non-trivial = two calls are identical or differ "
               "in exactly one argument and some expected set is not empty"),
]

MANIFEST = {
    "text": ("Every column returned by static.sq.sq(...).getresults() (q, Sq, Sqaa, Sqab for 1..5 species; q, Sq for 6) "
             "is compared with an independent density-mode reference (rounding to 1e-6 and the |q| group-by emulated, "
             "atol 1.01e-6) on generated trajectories, including trajectories whose species labels are permuted "
             "between frames at fixed composition (each frame evaluated with its own labels): explicit integer "
             "wave-vector lists (facet explicit_vectors) and qrange/onlypositive defaults (default_range); the sum rule "
             "and non-negativity are checked on the returned numbers, the CSV and per-vector CSV files against the "
             "returned / per-vector reference values; closed-form Bragg peaks of simple and centred lattices "
             "(analytic_lattice); choosewavevector is enumerated exhaustively for d 2/3, numofq 2..40/24 and all "
             "onlypositive values (default_vectors); minimal sizes — N = K, N = 1, N = 2, a species with one particle, "
             "six species, one wave vector, one |q| group, the smallest non-empty default range (minimal_sizes); "
             "state between calls — getresults() twice on one object, objects built alternately on two Snapshots "
             "objects, on one Snapshots object whose position / label arrays were overwritten in place, on same-shaped "
             "or in-place overwritten qvector arrays, each result compared with the definition for the contents at "
             "call time (repeat_calls); sequences of choosewavevector calls with varying arguments, caller-overwritten "
             "results and sq(qrange) objects in between, each equal to the enumerated set (wavevector_calls). Round 3: "
             "explicit lists in 12 numpy representations (int64/32/16/8, float64, float32, Fortran order, strided view, "
             "read-only) and whole-list batch classes; size boundaries — particles N and supplied vectors M = 31..513, "
             "frames T = 31..201 around block sizes 32..256 (thorough: up to 2049 / 1001), default sets of hundreds of "
             "vectors (size_boundaries, size_boundaries_deep); value-equal snapshot arrays in other dtypes "
             "(representations); every DataFrame / table returned during a call sequence is kept alive and must equal "
             "its copy at the end; direct calls of unary() .. quinary()."),
    "note": ("Trusted base: numpy cos/sin/matmul, pbt/ref/sqref.py. Assumes type ids 1..K all present, identical N/box/"
             "composition in all frames (labels may move between frames), orthogonal cells, integer wave vectors. "
             "'Documented range' = the half-open integer range [-floor(numofq/2), floor(numofq/2)) encoded by the "
             "golden tests. Cases with |q| within 1e-12 of a 6-decimal rounding boundary are excluded and counted. "
             "Objects are only evaluated when constructed after the last in-place change of their inputs."),
    "technique": ("property-based testing (Hypothesis): reference-model differential + closed-form oracle + exhaustive "
                  "enumeration of the default wave-vector set + call-sequence (state between calls) cases"),
}
