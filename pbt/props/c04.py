"""C04 — S(q): every total and partial column equals the density-mode definition; default wave-vector set.

Oracle: pbt/ref/sqref.py (density modes by one matrix product per frame, written from the definition).
Facets
  explicit_vectors   caller-supplied integer wave-vector lists (duplicates, sign flips, permutations, Pythagorean mates)
  default_range      qrange + onlypositive: the class must use the default set for numofq = int(2 qrange / min(2 pi / L))
  analytic_lattice   (centred) lattices: S is known in closed form (Bragg peaks), independent of the reference code
  default_vectors    exhaustive: choosewavevector(d, numofq, onlypositive) equals the enumerated set

Preconditions imposed by construction (what callers pass):
  * orthogonal cell, same N / box / types in all frames (asserted in sq.__init__, sq.py L147-150)
  * type ids exactly 1..K, all present (the selectors `== 1 ... else` in sq.py assume it)
  * integer wave vectors, no zero vector (docs/sq.md: n_x, n_y, n_z integers)
  * saveqvectors only together with an outputfile (sq.py slices outputfile[:-4])
  * default range: numofq chosen so that the documented set is not empty and 2 qrange/min(2pi/L) is not within 0.05
    of an integer (the int() truncation is then unambiguous)
Tolerances (derived, DESIGN 1.4): the library rounds each per-vector value to 1e-6 before averaging; a float
difference of 1e-12 between the two computations can flip one rounding, i.e. move a group mean by at most 1e-6;
hence atol 1.01e-6 on every S column after emulating the rounding.  Grouping key |q| rounded to 6 decimals: cases
where some |q| lies within 1e-12 of a rounding boundary are excluded and counted.
"""
from __future__ import annotations

import itertools
import os

import numpy as np
from hypothesis import strategies as st
from hypothesis.extra import numpy as hnp

from .. import gen
from ..gen import fl, nice_float
from ..harness import Facet, Violation
from ..ref import sqref
from ..util import arr, close, col, columns, require

from PyMatterSim.static.sq import sq
from PyMatterSim.utils.wavevector import choosewavevector

RULE = ("orthogonal 2D/3D boxes (unequal / partly equal / cubic / commensurate edges, any origin) x K 1..6 species "
        "(all present, arbitrary composition) x N <= 30 x 1..3 frames x positions inside or outside the box x "
        "{explicit integer wave-vector lists | qrange with onlypositive in False,True,'x','y','z'}; "
        "non-trivial = 2 <= K <= 5 with unequal species counts and not all edges equal and >= 2 supplied vectors "
        "share one |q|")
ASSUMPTIONS = [
    "type ids exactly 1..K with all K present; same N, box and types in every frame",
    "integer wave vectors without the zero vector; saveqvectors only with an outputfile",
    "the 'documented range' of the default set is the half-open integer range [-floor(numofq/2), floor(numofq/2)) "
    "that the golden tests encode (DESIGN C04 scope decision)",
    "per-vector values are rounded to 1e-6 before the |q| average (stated in the property); comparison atol 1.01e-6",
    "cases with some |q| within 1e-12 of a 6-decimal rounding boundary are excluded (counted in extra.excluded_boundary)",
    "onlypositive='z' is only meaningful in 3D and is not generated in 2D",
]

ATOL = 1.01e-6
HALF = 0.505e-6  # %.6f formatting / one rounding: half a unit of the 6th decimal (+1%)

PYTH = {
    2: [(3, 4), (4, 3), (5, 0), (0, 5), (-3, 4), (4, -3), (-5, 0), (0, -5), (-4, -3)],
    3: [(1, 2, 2), (2, 1, 2), (2, 2, 1), (3, 0, 0), (0, 3, 0), (0, 0, 3), (-2, 1, 2), (2, -2, -1),
        (3, 4, 0), (0, 3, 4), (4, 0, 3), (5, 0, 0), (0, 0, 5), (0, -5, 0), (2, 3, 6), (6, 2, 3), (7, 0, 0), (0, 7, 0),
        (4, 4, 2), (6, 0, 0), (2, 4, 4), (0, 0, -6)],
}


# ----------------------------------------------------------------------------- generators


@st.composite
def box_st(draw, d):
    cell = draw(gen.cell_st(d, "ortho", lmin=1.0, lmax=30.0, origin="any"))
    pat = draw(st.sampled_from(["unequal", "unequal", "unequal", "pair-equal", "cubic", "commensurate"]))
    L = np.diag(cell["H"]).copy()
    if pat == "cubic":
        L[:] = L[0]
    elif pat == "pair-equal":
        i, j = draw(st.sampled_from(list(itertools.combinations(range(d), 2))))
        L[j] = L[i]
    elif pat == "commensurate":
        ratios = [draw(st.sampled_from([1.0, 2.0, 0.5, 1.5, 0.75, 3.0, 1.25])) for _ in range(d)]
        L = np.clip(L[0] * np.array(ratios), 0.5, 90.0)
    lo = cell["lo"].copy()
    if cell["origin"] == "centred":
        lo = -L / 2.0
    return {"d": d, "kind": "ortho", "H": np.diag(L), "lo": lo, "origin": cell["origin"]}


@st.composite
def system_st(draw, frames=(1, 3), nmax=30, kmax=6):
    d = draw(st.sampled_from([2, 3]))
    cell = draw(box_st(d))
    K = draw(st.sampled_from([k for k in (1, 2, 2, 3, 3, 4, 4, 5, 5, 6) if k <= kmax]))
    f0, kind = draw(gen.frac_config_st(d, nmin=max(2, K), nmax=nmax))
    N = len(f0)
    T = draw(st.integers(*frames))
    fr = [f0] + [draw(gen.frac_st(N, d)) for _ in range(T - 1)]
    offs = np.zeros((N, d))
    if draw(st.booleans()):
        offs = draw(hnp.arrays(np.int64, (N, d), elements=st.integers(-2, 2))).astype(float)
    pos = [cell["lo"] + (f + offs) @ cell["H"] for f in fr]
    types = draw(gen.types_st(N, K))
    t0 = draw(st.integers(0, 10 ** 6))
    dt = draw(st.integers(1, 5000))
    outfile = draw(st.booleans())
    return {"d": d, "cell": cell, "pos": pos, "types": types, "K": K, "kind": kind,
            "timesteps": [t0 + k * dt for k in range(T)], "outside": bool(np.any(offs)),
            "outfile": outfile, "saveq": bool(outfile and draw(st.booleans()))}


@st.composite
def qvector_st(draw, d, L):
    nb = draw(st.integers(1, 8))
    base = draw(hnp.arrays(np.int64, (nb, d), elements=st.integers(-6, 6)))
    rows = []
    for r in base:
        r = r.copy()
        if not r.any():
            r[draw(st.integers(0, d - 1))] = draw(st.sampled_from([-5, -3, -2, -1, 1, 2, 3, 4, 6]))
        rows.append(r)
    equal_axes = [(i, j) for i, j in itertools.combinations(range(d), 2) if L[i] == L[j]]
    for _ in range(draw(st.integers(0, 12))):
        src = rows[draw(st.integers(0, len(rows) - 1))]
        how = draw(st.sampled_from(["dup", "neg", "flip", "perm", "pyth", "pyth"]))
        if how == "dup":
            new = src.copy()
        elif how == "neg":
            new = -src
        elif how == "flip":
            signs = np.array([draw(st.sampled_from([-1, 1])) for _ in range(d)])
            new = src * signs
        elif how == "perm":
            new = src.copy()
            if equal_axes:
                i, j = draw(st.sampled_from(equal_axes))
                new[i], new[j] = src[j], src[i]
            else:
                new = src[::-1].copy()
        else:
            new = np.array(draw(st.sampled_from(PYTH[d])), dtype=np.int64)
        rows.append(new)
    order = draw(st.permutations(range(len(rows))))
    q = np.array([rows[i] for i in order], dtype=np.int64)
    return q.astype(draw(st.sampled_from([np.int64, np.int32, np.int64])))


@st.composite
def explicit_case(draw):
    case = draw(system_st())
    case["mode"] = "explicit"
    case["qvector"] = draw(qvector_st(case["d"], np.diag(case["cell"]["H"])))
    return case


@st.composite
def range_case(draw):
    case = draw(system_st(nmax=24))
    d = case["d"]
    ops = [False, False, False, True, True, "x", "y"] + (["z", "z"] if d == 3 else [])
    op = draw(st.sampled_from(ops))
    lo_m = 2 if op is False else 4  # the documented set is then not empty
    top_m = 12 if d == 3 else 24
    m = draw(st.one_of(st.integers(lo_m, top_m), st.integers(4, top_m)))
    f = draw(st.one_of(st.sampled_from([0.05, 0.5, 0.95]), fl(0.05, 0.95)))
    Lmax = float(np.diag(case["cell"]["H"]).max())
    case["mode"] = "range"
    case["onlypositive"] = op
    case["m"] = m
    case["qrange"] = float((m + f) * np.pi / Lmax)
    return case


# ----------------------------------------------------------------------------- checking


def _read_csv(name, path, header):
    require(os.path.exists(path), f"{name}: file {os.path.basename(path)} was not written")
    with open(path) as fh:
        lines = [ln.strip() for ln in fh if ln.strip()]
    require(len(lines) >= 1, f"{name}: empty file")
    require(lines[0].split(",") == list(header), f"{name}: header {lines[0]!r} != {','.join(header)!r}")
    try:
        data = np.array([[float(x) for x in ln.split(",")] for ln in lines[1:]], dtype=float)
    except ValueError as e:
        raise Violation(f"{name}: unparsable row ({e})")
    if data.size == 0:
        data = data.reshape(0, len(header))
    require(data.ndim == 2 and data.shape[1] == len(header), f"{name}: ragged table, shape {data.shape}")
    return data


def compare_with_reference(case, nvec, res, tagprefix=""):
    """Shared by the explicit and the default-range facets.  Returns (info dict)."""
    d, K = case["d"], case["K"]
    L = np.diag(case["cell"]["H"])
    types = case["types"]
    cols = sqref.column_names(K)
    columns("sq.getresults()", res, cols)
    pv, counts = sqref.per_vector(case["pos"], types, nvec, L)
    if sqref.boundary_ambiguous(pv["q"]):
        return {"nontrivial": False, "tags": ["excluded-boundary"], "extra": {"excluded_boundary": 1}}
    exp, gsize = sqref.grouped(pv, cols)
    G = len(exp["q"])
    got = {}
    for c in cols:
        got[c] = arr(f"column {c}", col("sq.getresults()", res, c), shape=(G,)).astype(float)
    # the statement fixes how vectors are grouped, not that the reported |q| itself is rounded: half a unit allowed
    close("column q", got["q"], exp["q"], rtol=0.0, atol=HALF)
    for c in cols[1:]:
        close(f"column {c} (K={K}, counts={counts.astype(int).tolist()})", got[c], exp[c], rtol=0.0, atol=ATOL)
    N = float(len(types))
    # total and diagonal terms are non-negative
    for c in ["Sq"] + [f"Sq{a}{a}" for a in range(1, K + 1) if f"Sq{a}{a}" in cols]:
        require(np.all(got[c] >= -1e-9), lambda c=c: f"{c} negative: min {got[c].min()!r}")
    # sum rule on the returned numbers: each column carries a rounding error <= 0.5e-6
    if 2 <= K <= 5:
        rhs = np.zeros(G)
        weight = 1.0
        for a in range(1, K + 1):
            rhs += counts[a - 1] / N * got[f"Sq{a}{a}"]
            weight += counts[a - 1] / N
            for b in range(a + 1, K + 1):
                w = 2.0 * np.sqrt(counts[a - 1] * counts[b - 1]) / N
                rhs += w * got[f"Sq{a}{b}"]
                weight += w
        close("sum rule N S = sum N_a S_aa + 2 sum sqrt(N_a N_b) S_ab (divided by N)", got["Sq"], rhs,
              rtol=0.0, atol=HALF * weight + 1e-10)
    # files
    if case["outfile"]:
        data = _read_csv("outputfile", os.path.join(os.getcwd(), "sq_out.csv"), cols)
        require(data.shape[0] == G, f"outputfile has {data.shape[0]} rows, returned frame has {G}")
        for k, c in enumerate(cols):
            close(f"outputfile column {c} vs returned", data[:, k], got[c], rtol=0.0, atol=HALF)
    if case["saveq"]:
        hdr = [f"q{i}" for i in range(d)] + cols
        data = _read_csv("qvectors file", os.path.join(os.getcwd(), "sq_out_qvectors.csv"), hdr)
        M = len(nvec)
        require(data.shape[0] == M, f"qvectors file has {data.shape[0]} rows for {M} wave vectors")
        ints = np.rint(data[:, :d])
        require(np.all(np.abs(ints - data[:, :d]) < 1e-9), "qvectors file: non-integer wave-vector components")
        want = np.asarray(nvec, dtype=np.int64)
        o_got = np.lexsort(ints.T[::-1])
        o_want = np.lexsort(want.T[::-1])
        require(np.array_equal(ints[o_got].astype(np.int64), want[o_want]),
                lambda: f"qvectors file lists other wave vectors than used: {ints[o_got][:6].tolist()} ... vs "
                        f"{want[o_want][:6].tolist()} ...")
        for k, c in enumerate(cols):
            close(f"qvectors file column {c} (per vector, unaveraged)", data[o_got, d + k], pv[c][o_want],
                  rtol=0.0, atol=HALF + 1e-9)

    # classification
    uneq_counts = len(set(counts.tolist())) > 1
    nuniqL = len(set(L.tolist()))
    shared = bool(gsize.max() >= 2)
    key = np.round(pv["q"], 6)
    floatsplit = any(len(set(pv["q"][key == k].tolist())) > 1 for k in np.unique(key))
    absn = np.sort(np.abs(np.asarray(nvec, dtype=np.int64)), axis=1)
    mixed = any(len({tuple(r) for r in absn[key == k]}) > 1 for k in np.unique(key))
    dup = len({tuple(r) for r in np.asarray(nvec).tolist()}) < len(nvec)
    tags = [f"d{d}", f"K{K}", f"frames{len(case['pos'])}",
            "edges-unequal" if nuniqL == d else ("edges-cubic" if nuniqL == 1 else "edges-pair-equal"),
            "counts-unequal" if uneq_counts else "counts-equal",
            "shared-q" if shared else "no-shared-q", "outside" if case["outside"] else "inside",
            "cfg-" + case["kind"].split("-")[0], "origin-" + case["cell"]["origin"]]
    if floatsplit:
        tags.append("group-with-different-float-norms")
    if mixed:
        tags.append("group-mixes-directions")
    if dup:
        tags.append("duplicate-vectors")
    if counts.min() == 1 and K > 1:
        tags.append("some-N_a=1")
    if case["outfile"]:
        tags.append("csv")
    if case["saveq"]:
        tags.append("qvectors-csv")
    nontrivial = bool(2 <= K <= 5 and uneq_counts and nuniqL > 1 and shared)
    return {"nontrivial": nontrivial, "tags": tags, "extra": {"vectors": int(len(nvec)), "groups": int(G)}}


def check_explicit(case):
    snaps = gen.snapshots_from(case)
    qv = case["qvector"]
    qin = qv.copy()
    res = sq(snaps, qvector=qv, saveqvectors=case["saveq"],
             outputfile="sq_out.csv" if case["outfile"] else None).getresults()
    info = compare_with_reference(case, qin, res)
    info["tags"].append("qdtype-" + str(qin.dtype))
    info["tags"].append("nvec<=8" if len(qin) <= 8 else "nvec>8")
    return info


def check_range(case):
    d = case["d"]
    L = np.diag(case["cell"]["H"])
    op, m, qrange = case["onlypositive"], case["m"], case["qrange"]
    x = qrange * 2.0 / (2.0 * np.pi / L).min()
    if abs(x - round(x)) < 1e-6 or int(x) != m:
        return {"nontrivial": False, "tags": ["excluded-numofq-ambiguous"], "extra": {"excluded_numofq": 1}}
    snaps = gen.snapshots_from(case)
    res = sq(snaps, qrange=qrange, onlypositive=op, saveqvectors=case["saveq"],
             outputfile="sq_out.csv" if case["outfile"] else None).getresults()
    nvec = np.array(sqref.default_vectors(d, m, op), dtype=np.int64).reshape(-1, d)
    require(len(nvec) > 0, "harness: empty default set generated")
    info = compare_with_reference(case, nvec, res)
    info["tags"] += [f"onlypositive={op!r}", "numofq-odd" if m % 2 else "numofq-even",
                     "numofq<=6" if m <= 6 else ("numofq<=12" if m <= 12 else "numofq>12")]
    return info


def describe(case):
    out = {"d": case["d"], "L": np.diag(case["cell"]["H"]).tolist(), "lo": np.round(case["cell"]["lo"], 4).tolist(),
           "K": case["K"], "types": np.asarray(case["types"]).tolist(), "frames": len(case["pos"]),
           "pos0": np.round(case["pos"][0][:3], 4).tolist(), "outfile": case["outfile"], "saveq": case["saveq"]}
    if case.get("mode") == "explicit":
        out["qvector"] = np.asarray(case["qvector"]).tolist()[:12]
    elif case.get("mode") == "range":
        out.update(qrange=case["qrange"], onlypositive=case["onlypositive"], numofq=case["m"])
    return out


# ----------------------------------------------------------------------------- analytic lattice


@st.composite
def lattice_case(draw):
    d = draw(st.sampled_from([2, 3]))
    reps = [draw(st.integers(1, 3)) for _ in range(d)]
    cell = draw(box_st(d))
    centred = draw(st.booleans())
    twotypes = draw(st.booleans()) if centred else False
    corners = np.array(list(itertools.product(*[range(r) for r in reps])), dtype=float) / np.array(reps, dtype=float)
    f = corners
    types = np.ones(len(corners), dtype=int)
    if centred:
        f = np.vstack([corners, corners + 0.5 / np.array(reps, dtype=float)])
        types = np.concatenate([types, np.full(len(corners), 2 if twotypes else 1)])
    N = len(f)
    shift = draw(hnp.arrays(np.float64, (d,), elements=fl(-1.0, 1.0)))
    offs = draw(hnp.arrays(np.int64, (N, d), elements=st.integers(-1, 1))).astype(float)
    perm = np.array(draw(st.permutations(range(N))))
    T = draw(st.integers(1, 2))
    pos = []
    for _ in range(T):
        pos.append((cell["lo"] + (f + shift + offs) @ cell["H"])[perm])
        shift = shift + draw(hnp.arrays(np.float64, (d,), elements=fl(-1.0, 1.0)))
    hmax = draw(st.integers(1, 2))
    rng = [range(-hmax * r, hmax * r + 1) for r in reps]
    allv = [v for v in itertools.product(*rng) if any(v)]
    idx = draw(st.lists(st.integers(0, len(allv) - 1), min_size=1, max_size=min(40, len(allv)), unique=True))
    qv = np.array([allv[i] for i in idx], dtype=np.int64)
    return {"d": d, "cell": cell, "pos": pos, "types": types[perm], "K": 2 if twotypes else 1, "reps": reps,
            "centred": centred, "timesteps": list(range(T)), "qvector": qv, "kind": "lattice"}


def check_lattice(case):
    d, K, reps = case["d"], case["K"], np.array(case["reps"])
    L = np.diag(case["cell"]["H"])
    snaps = gen.snapshots_from(case)
    nvec = case["qvector"]
    res = sq(snaps, qvector=nvec.copy()).getresults()
    cols = sqref.column_names(K)
    columns("sq.getresults()", res, cols)
    _, qn = sqref.wave_vectors(nvec, L)
    if sqref.boundary_ambiguous(qn):
        return {"nontrivial": False, "tags": ["excluded-boundary"], "extra": {"excluded_boundary": 1}}
    ncorner = int(np.prod(reps))
    bragg = np.all(nvec % reps == 0, axis=1)
    parity = np.where(bragg, (-1.0) ** ((nvec // reps).sum(axis=1) % 2), 0.0)
    N1 = float(ncorner)
    N2 = float(ncorner) if case["centred"] else 0.0
    N = N1 + N2
    pv = {"q": qn, "Sq": np.where(bragg, (N1 + N2 * parity) ** 2 / N, 0.0)}
    if K == 2:
        pv["Sq11"] = np.where(bragg, N1, 0.0)
        pv["Sq22"] = np.where(bragg, N2, 0.0)
        pv["Sq12"] = np.where(bragg, np.sqrt(N1 * N2) * parity, 0.0)
    exp, gsize = sqref.grouped(pv, cols)
    for c in cols:
        got = arr(f"column {c}", col("sq.getresults()", res, c), shape=(len(exp["q"]),)).astype(float)
        close(f"lattice: column {c} vs closed form", got, exp[c], rtol=0.0, atol=HALF if c == "q" else ATOL)
    nb = int(bragg.sum())
    tags = [f"d{d}", f"K{K}", "centred" if case["centred"] else "primitive", f"frames{len(case['pos'])}",
            "bragg0" if nb == 0 else "bragg+", "odd-parity-peak" if np.any(parity < 0) else "no-odd-peak"]
    return {"nontrivial": bool(nb > 0 and nb < len(nvec)), "tags": tags}


def describe_lattice(case):
    return {"d": case["d"], "L": np.diag(case["cell"]["H"]).tolist(), "reps": case["reps"], "centred": case["centred"],
            "K": case["K"], "qvector": case["qvector"].tolist()[:10]}


# ----------------------------------------------------------------------------- exhaustive default set


def _check_default_set(case):
    d, numofq, op = case["d"], case["numofq"], case["onlypositive"]
    want = sqref.default_vectors(d, numofq, op)
    got = arr(f"choosewavevector({d}, {numofq}, {op!r})", choosewavevector(d, numofq, op), ndim=2)
    require(got.shape[1] == d or got.shape[0] == 0, f"choosewavevector({d}, {numofq}, {op!r}): shape {got.shape}")
    require(got.size == 0 or np.all(got == np.rint(got)), "non-integer wave vectors")
    rows = sorted(tuple(int(c) for c in r) for r in got.reshape(-1, d).tolist())
    if rows != want:
        extra = sorted(set(rows) - set(want))[:6]
        missing = sorted(set(want) - set(rows))[:6]
        rep = len(rows) - len(set(rows))
        raise Violation(f"choosewavevector({d}, {numofq}, {op!r}): {len(rows)} vectors, expected {len(want)}; "
                        f"unexpected {extra}, missing {missing}, repeated {rep}")
    return want


def enum_default_vectors(tier):
    top = {2: 40, 3: 24} if tier == "quick" else {2: 120, 3: 48}
    for d in (2, 3):
        for numofq in range(2, top[d] + 1):
            for op in [False, True, "x", "y"] + (["z"] if d == 3 else []):
                case = {"d": d, "numofq": numofq, "onlypositive": op}
                try:
                    want = _check_default_set(case)
                except Violation as v:
                    v.case = case
                    raise
                except Exception as e:  # noqa: BLE001 - let the harness classify it, but keep the case
                    e.case = case
                    raise
                yield case, {"nontrivial": len(want) > 0,
                             "tags": [f"d{d}", f"onlypositive={op!r}", "odd" if numofq % 2 else "even",
                                      "empty" if not want else "nonempty",
                                      "has-offaxis" if any(sum(1 for c in v if c) > 1 for v in want) else "axis-only"]}


_enum = Facet("default_vectors", check=enum_default_vectors, exhaustive=True,
              rule="every (d, numofq, onlypositive) with d in {2,3}, numofq 2..40 (2D) / 2..24 (3D) [thorough: 120 / 48], "
                   "onlypositive in False, True, 'x', 'y', ('z' in 3D): the returned rows equal, without repeats, all "
                   "non-zero integer vectors in [-floor(numofq/2), floor(numofq/2))^d with integer norm, filtered as "
                   "documented; non-trivial = the expected set is not empty")
_enum.replay = _check_default_set

FACETS = [
    Facet("explicit_vectors", explicit_case(), check_explicit, quick=1200, thorough=40000, describe=describe,
          shards_quick=4, rule="explicit integer qvector lists; non-trivial as in RULE"),
    Facet("default_range", range_case(), check_range, quick=800, thorough=30000, describe=describe, shards_quick=4,
          rule="qrange/onlypositive: class uses the default set for numofq=int(2 qrange/min(2pi/L)); non-trivial as in RULE"),
    Facet("analytic_lattice", lattice_case(), check_lattice, quick=300, thorough=10000, describe=describe_lattice,
          rule="simple / centred lattices with m_k cells per axis, optional second species on the centres: closed-form "
               "Bragg-peak values; non-trivial = the list holds Bragg and non-Bragg vectors"),
    _enum,
]

MANIFEST = {
    "text": ("Every column returned by static.sq.sq(...).getresults() (q, Sq, Sqaa, Sqab for 1..5 species; q, Sq for 6) "
             "is compared with an independent density-mode reference (rounding to 1e-6 and the |q| group-by emulated, "
             "atol 1.01e-6) on generated trajectories: explicit integer wave-vector lists (facet explicit_vectors) and "
             "qrange/onlypositive defaults (default_range); the sum rule and non-negativity are checked on the returned "
             "numbers, the CSV and per-vector CSV files against the returned / per-vector reference values; closed-form "
             "Bragg peaks of simple and centred lattices (analytic_lattice); choosewavevector is enumerated exhaustively "
             "for d 2/3, numofq 2..40/24 and all onlypositive values (default_vectors)."),
    "note": ("Trusted base: numpy cos/sin/matmul, pbt/ref/sqref.py. Assumes type ids 1..K all present, identical N/box/"
             "types in all frames, orthogonal cells, integer wave vectors. 'Documented range' = the half-open integer "
             "range [-floor(numofq/2), floor(numofq/2)) encoded by the golden tests. Cases with |q| within 1e-12 of a "
             "6-decimal rounding boundary are excluded and counted."),
    "technique": ("property-based testing (Hypothesis): reference-model differential + closed-form oracle + exhaustive "
                  "enumeration of the default wave-vector set"),
}
