"""C18 helper: the catalogue of public entry points.

Each entry is `fn(w, q, out, ctx) -> result`:
  w    the World (shared snapshots, fields, files) -- its real arrays are passed to the library, never copies
  q    one parameter dict out of the entry's small finite list `P` (so repeats are likely)
  out  whether an output file is requested; then the entry also checks invariant 3 (file == returned values at the
       written precision) before returning
  ctx  Ctx: the per-call output directory is the cwd during the call; `ctx.obj(key, make)` returns a cached analysis
       object when the history decided to reuse one (boo_3d / boo_2d / Dynamics / gr / sq / S2 / NematicOrder /
       HessianMatrix instances live across calls in real sessions), else a fresh one.  `make` leaves the object in the
       state every method of the chain may start from (S2: particle_s2() has run; NematicOrder: tensor() has run with the
       neighbour setting that is part of the key), so the expected result of a method never depends on whether the
       object is shared: a repeated (method, params) call on one live object must reproduce its first result whatever
       other methods ran on the object in between.
Round 3: parameter sets with "dflt" OMIT the keywords that have mutable defaults (ppp arrays, diameters / radii dicts)
where the default describes the world (`_ppp_kw`, `_dyn`, `e_getinput`); frame indices are taken modulo the number of
frames (n = -1: the last frame) and entries that need a lag or a time window declare `minT`; `ctx.nm(name)` gives the odd
parameter sets an output name inside a sub-directory; getresults() / unary() / the k-ary method of gr and of sq go through
ONE object per constructor arguments, Lennard-Jones / inverse-power-law / harmonic Hessians through one HessianMatrix
("hzobj"), PairInteractions evaluates every model twice on one object; integer conditions (sq4, conditional_sq), a single
wave vector, NematicOrder without position snapshots, boo_2d(output_phi=...), write_dump_header(addson=None).
Which public callables of PyMatterSim each entry exercises is MEASURED (c18_inventory.py traces one run of every
(entry, params, out)), not declared.
The result is a plain structure of arrays / DataFrames / strings that `c18_world.same` can compare.  For routines that
return None and only write files (neighbour writers, Voronoi, Hessian) the parsed/decoded files are the result.
"""
from __future__ import annotations

import os

import numpy as np
import pandas as pd

from ..harness import Violation
from .c18_world import file_exact, need_file, table_check

class _Lazy:
    """Import on first use: a module of the code under test that cannot be imported must only fail its own entries
    (the exception then carries a PyMatterSim frame and is reported as a violation of those entries)."""

    def __init__(self, mod, name):
        self._mod, self._name = mod, name

    def _get(self):
        import importlib
        return getattr(importlib.import_module(self._mod), self._name)

    def __call__(self, *a, **kw):
        return self._get()(*a, **kw)

    def __getattr__(self, item):
        return getattr(self._get(), item)


Dynamics = _Lazy("PyMatterSim.dynamic.dynamics", "Dynamics")
LogDynamics = _Lazy("PyMatterSim.dynamic.dynamics", "LogDynamics")
cage_relative = _Lazy("PyMatterSim.dynamic.dynamics", "cage_relative")
time_correlation = _Lazy("PyMatterSim.dynamic.time_corr", "time_correlation")
Nnearests = _Lazy("PyMatterSim.neighbors.calculate_neighbors", "Nnearests")
cutoffneighbors = _Lazy("PyMatterSim.neighbors.calculate_neighbors", "cutoffneighbors")
cutoffneighbors_particletype = _Lazy("PyMatterSim.neighbors.calculate_neighbors", "cutoffneighbors_particletype")
VolumeMatrix = _Lazy("PyMatterSim.neighbors.freud_neighbors", "VolumeMatrix")
cal_neighbors = _Lazy("PyMatterSim.neighbors.freud_neighbors", "cal_neighbors")
read_neighbors = _Lazy("PyMatterSim.neighbors.read_neighbors", "read_neighbors")
boo_2d = _Lazy("PyMatterSim.static.boo", "boo_2d")
boo_3d = _Lazy("PyMatterSim.static.boo", "boo_3d")
packing_capability_2d = _Lazy("PyMatterSim.static.geometric", "packing_capability_2d")
q8_tetrahedral = _Lazy("PyMatterSim.static.geometric", "q8_tetrahedral")
conditional_gr = _Lazy("PyMatterSim.static.gr", "conditional_gr")
gr = _Lazy("PyMatterSim.static.gr", "gr")
HessianMatrix = _Lazy("PyMatterSim.static.hessians", "HessianMatrix")
InteractionParams = _Lazy("PyMatterSim.static.hessians", "InteractionParams")
ModelName = _Lazy("PyMatterSim.static.hessians", "ModelName")
NematicOrder = _Lazy("PyMatterSim.static.nematic", "NematicOrder")
S2 = _Lazy("PyMatterSim.static.pairentropy", "S2")
s2_integral = _Lazy("PyMatterSim.static.pairentropy", "s2_integral")
gyration_tensor = _Lazy("PyMatterSim.static.shape", "gyration_tensor")
conditional_sq = _Lazy("PyMatterSim.static.sq", "conditional_sq")
sq = _Lazy("PyMatterSim.static.sq", "sq")
divergence_curl = _Lazy("PyMatterSim.static.vector", "divergence_curl")
local_vector_alignment = _Lazy("PyMatterSim.static.vector", "local_vector_alignment")
participation_ratio = _Lazy("PyMatterSim.static.vector", "participation_ratio")
phase_quotient = _Lazy("PyMatterSim.static.vector", "phase_quotient")
vector_decomposition_sq = _Lazy("PyMatterSim.static.vector", "vector_decomposition_sq")
vector_fft_corr = _Lazy("PyMatterSim.static.vector", "vector_fft_corr")
vibrability = _Lazy("PyMatterSim.static.vector", "vibrability")
gaussian_blurring = _Lazy("PyMatterSim.utils.coarse_graining", "gaussian_blurring")
spatial_average = _Lazy("PyMatterSim.utils.coarse_graining", "spatial_average")
time_average = _Lazy("PyMatterSim.utils.coarse_graining", "time_average")
Filon_COS = _Lazy("PyMatterSim.utils.fft", "Filon_COS")
triangle_area = _Lazy("PyMatterSim.utils.geometry", "triangle_area")
remove_pbc = _Lazy("PyMatterSim.utils.pbc", "remove_pbc")
write_data_header = _Lazy("PyMatterSim.writer.lammps_writer", "write_data_header")
write_dump_header = _Lazy("PyMatterSim.writer.lammps_writer", "write_dump_header")
convert_configuration = _Lazy("PyMatterSim.neighbors.freud_neighbors", "convert_configuration")
get_input = _Lazy("PyMatterSim.neighbors.voropp_neighbors", "get_input")
indicehis = _Lazy("PyMatterSim.neighbors.voropp_neighbors", "indicehis")
PairInteractions = _Lazy("PyMatterSim.static.hessians", "PairInteractions")
kspace_decomposition = _Lazy("PyMatterSim.static.vector", "kspace_decomposition")
atomic_position_average = _Lazy("PyMatterSim.utils.coarse_graining", "atomic_position_average")
fits = _Lazy("PyMatterSim.utils.fitting", "fits")
DumpReader = _Lazy("PyMatterSim.reader.dump_reader", "DumpReader")
DumpFileType = _Lazy("PyMatterSim.reader.reader_utils", "DumpFileType")
read_lammpslog = _Lazy("PyMatterSim.reader.simulation_log", "read_lammpslog")


def _mod(name):
    import importlib
    return importlib.import_module("PyMatterSim." + name)


CATALOGUE = {}
FAMILIES = {}


class Ctx:
    def __init__(self, objs=None, style=0):
        self.objs = objs
        self.style = style

    def nm(self, base):
        """Name of a requested text / csv output file: as it stands (style 0), or (style 1: the odd parameter sets of an
        entry) inside a sub-directory of the working directory and with an extra dot -- 'res.v1/gr.run2.csv' is as valid a
        request as 'gr.csv'.  The extension is kept (the docs ask for 'filename.csv'; vector_decomposition_sq appends
        '.csv' to any other name)."""
        if not self.style:
            return base
        os.makedirs("res.v1", exist_ok=True)
        stem, ext = os.path.splitext(base)
        return os.path.join("res.v1", stem + ".run2" + ext)

    def obj(self, key, make):
        if self.objs is None:
            return make()
        if key not in self.objs:
            self.objs[key] = make()
        return self.objs[key]


def entry(name, fam, P, dims=(2, 3), tri=False, out=False, ok=None, minT=1):
    """minT: number of frames the routine needs (a lag / a time window): not eligible in worlds with fewer frames."""
    def deco(fn):
        fn.name, fn.fam, fn.P, fn.dims, fn.tri, fn.has_out, fn.ok, fn.minT = name, fam, P, dims, tri, out, ok, minT
        CATALOGUE[name] = fn
        FAMILIES.setdefault(fam, []).append(name)
        return fn
    return deco


def eligible(fn, w):
    return w.d in fn.dims and (fn.tri or w.cellkind == "ortho") and w.T >= fn.minT and (fn.ok is None or fn.ok(w))


def _fr(w, q):
    """Frame index of a parameter set (0, 1, ... or -1 = the last frame) in a world of w.T frames."""
    return q["n"] % w.T


def _ppp_kw(w, q, nd):
    """The `ppp` keyword of a call.  Parameter sets with "dflt" OMIT it where the routine's own default (an array created
    once at import: all ones of length nd) describes the world -- that shared default object is then the argument, and it is
    watched like every other argument (c18_inventory.check_defaults)."""
    if q.get("dflt") and w.d == nd and bool(np.all(w.A["ppp"] == 1)):
        return {}
    return {"ppp": w.A["ppp"]}


def _labels_12(w):
    return set(w.labels) <= {1, 2}


def _text(path, what):
    with open(need_file(path, what), "r", encoding="utf-8") as f:
        return f.read()


def _csv_check(what, path, df):
    if not isinstance(df, pd.DataFrame):
        raise Violation(f"{what}: returned {type(df).__name__}, not a DataFrame")
    table_check(what, path, df.values, sep=",", skip=1, columns=list(df.columns))


def _npy_check(what, path, arr):
    file_exact(f"{what} [{os.path.basename(path)}]", np.load(need_file(path, what)), np.asarray(arr))


def _npy_dat(what, name, arr, fmt):
    """ql_Ql / w_W_cap convention: np.save(name) always (numpy appends .npy unless present) and, for .dat/.txt names,
    a '%.6f' text table under the name itself."""
    if fmt == "npy":
        _npy_check(what, name, arr)
    else:
        _npy_check(what, name + ".npy", arr)
        table_check(what, name, np.asarray(arr))


# ============================================================================= pair correlations / structure factors

def _gr_obj(w, q, out, ctx):
    """One gr object per (constructor arguments): getresults() / unary() / the k-ary method are METHODS of it and, in a
    session, are called on the same object in any order (each writes the object's output file with what it returns)."""
    of = ctx.nm("gr.csv") if out else None
    return of, ctx.obj(("gr", q["rd"], q["s"], of, q.get("dflt")),
                       lambda: gr(w.snaps[q["s"]], rdelta=q["rd"], outputfile=of, **_ppp_kw(w, q, 3)))


@entry("gr.getresults", "pair", [{"rd": 0.1, "s": "x"}, {"rd": 0.05, "s": "x"}, {"rd": 0.1, "s": "xu"},
                                 {"rd": 0.05, "s": "xu", "dflt": True}], tri=True, out=True)
def e_gr(w, q, out, ctx):
    of, g = _gr_obj(w, q, out, ctx)
    res = g.getresults()
    if out:
        _csv_check("gr.getresults", of, res)
    return res


@entry("gr.unary", "pair", [{"rd": 0.1, "s": "x"}, {"rd": 0.05, "s": "x"}, {"rd": 0.07, "s": "x"}], tri=True, out=True)
def e_gr_unary(w, q, out, ctx):
    of, g = _gr_obj(w, q, out, ctx)
    res = g.unary()
    if out:
        _csv_check("gr.unary", of, res)
    return res


_KARY = ["unary", "binary", "ternary", "quarternary", "quinary"]


def _kary(w):
    """The method getresults() dispatches to: one per number of species up to five, 'only overall' (unary) beyond."""
    return _KARY[w.K - 1] if w.K <= 5 else "unary"


@entry("gr.k-ary", "pair", [{"rd": 0.1, "s": "x"}, {"rd": 0.08, "s": "xu"}, {"rd": 0.1, "s": "xu"}], tri=True, out=True)
def e_gr_kary(w, q, out, ctx):
    """gr.binary() / .ternary() / .quarternary() / .quinary() called directly (the method for the number of species)."""
    of, g = _gr_obj(w, q, out, ctx)
    res = getattr(g, _kary(w))()
    if out:
        _csv_check("gr." + _kary(w), of, res)
    return res


def _condition(w, kind, n):
    if kind == "bool":
        return w.A["mask"][n], None
    if kind == "int":
        return w.A["mask_int"][n], None
    if kind in ("pin", "gap"):  # a selection of the pinned set / (degenerate worlds) of nobody
        return w.cond(kind)[w.gapframe if kind == "gap" else n], None
    if kind == "real":
        return w.A["scalar"][n], None
    if kind == "complex":
        return w.A["cplx"][n], None
    if kind == "vector":
        return w.A["vec"][n], "vector"
    return w.A["tens"][n], "tensor"


@entry("conditional_gr", "pair", [{"k": "bool", "n": 0}, {"k": "real", "n": 1}, {"k": "complex", "n": 0},
                                  {"k": "vector", "n": 1}, {"k": "tensor", "n": 0}, {"k": "real", "n": 0},
                                  {"k": "pin", "n": 1}, {"k": "gap", "n": 0}, {"k": "tensor", "n": -1, "dflt": True},
                                  {"k": "bool", "n": -1, "dflt": True}], tri=True)
def e_cgr(w, q, out, ctx):
    cond, ctype = _condition(w, q["k"], _fr(w, q))
    n = w.gapframe if q["k"] == "gap" else _fr(w, q)
    return conditional_gr(w.snaps["x"].snapshots[n], condition=cond, conditiontype=ctype, rdelta=0.1, **_ppp_kw(w, q, 3))


_SQ_P = [{"m": "range", "qr": 8.0, "op": False}, {"m": "range", "qr": 10.0, "op": True}, {"m": "vec"},
         {"m": "range", "qr": 8.0, "op": "x"}, {"m": "range", "qr": 9.0, "op": "y"}, {"m": "range", "qr": 8.0, "op": "z"}]


def _sq_ok(w, q):
    return not (q.get("op") == "z" and w.d == 2)  # 'z' selects nothing in 2D (documented for 3D boxes)


def _sq_obj(w, q, out, ctx, of, tag):
    def make():
        if q["m"] == "vec":
            return sq(w.snaps["x"], qvector=w.A["qvec"], saveqvectors=bool(out), outputfile=of)
        return sq(w.snaps["x"], qrange=q["qr"], onlypositive=q["op"], saveqvectors=bool(out), outputfile=of)
    return ctx.obj(("sq", q["m"], q.get("qr"), q.get("op"), out), make)  # one object for getresults / unary / k-ary


@entry("sq.getresults", "pair", _SQ_P, out=True)
def e_sq(w, q, out, ctx):
    if not _sq_ok(w, q):
        q = _SQ_P[3]
    of = "sq.csv" if out else None
    res = _sq_obj(w, q, out, ctx, of, "sq").getresults()
    if out:
        _csv_check("sq.getresults", of, res)
        # the per-vector table is not returned; its text is compared between repeated calls
        return (res, _text("sq_qvectors.csv", "sq(saveqvectors=True)"))
    return res


@entry("sq.unary", "pair", _SQ_P[:3], out=True)
def e_sq_unary(w, q, out, ctx):
    of = "sq.csv" if out else None
    res = _sq_obj(w, q, out, ctx, of, "sq1").unary()
    if out:
        _csv_check("sq.unary", of, res)
        return (res, _text("sq_qvectors.csv", "sq(saveqvectors=True)"))
    return res


@entry("sq.k-ary", "pair", _SQ_P[:4], out=True)
def e_sq_kary(w, q, out, ctx):
    """sq.binary() / .ternary() / .quarternary() / .quinary() called directly (the method for the number of species)."""
    of = "sq.csv" if out else None
    res = getattr(_sq_obj(w, q, out, ctx, of, "sqk"), _kary(w))()
    if out:
        _csv_check("sq." + _kary(w), of, res)
        return (res, _text("sq_qvectors.csv", "sq(saveqvectors=True)"))
    return res


@entry("conditional_sq", "pair", [{"k": "bool", "n": 0}, {"k": "real", "n": 1}, {"k": "vector", "n": 0}, {"k": "bool", "n": 1},
                                  {"k": "pin", "n": 0}, {"k": "gap", "n": 0}, {"k": "int", "n": -1}, {"k": "complex", "n": -1, "one": True}])
def e_csq(w, q, out, ctx):
    cond, _ = _condition(w, q["k"], _fr(w, q))
    qv = w.A["qvec"][2:3] if q.get("one") else w.A["qvec"]  # a single wave vector (a view of the shared table)
    a, b = conditional_sq(w.snaps["x"].snapshots[_fr(w, q)], qvector=qv, condition=cond)
    return (a, b)


# ============================================================================= neighbours

@entry("Nnearests", "neigh", [{"N": 1}, {"N": 3}, {"N": "max"}, {"N": 2, "dflt": True}], tri=True, out=True)
def e_nn(w, q, out, ctx):
    n = w.N - 1 if q["N"] == "max" else q["N"]
    if out:
        name = ctx.nm("nn.dat")
        ret = Nnearests(w.snaps["x"], N=n, fnfile=name, **_ppp_kw(w, q, 3))
    else:
        ret = Nnearests(w.snaps["x"], N=n, **_ppp_kw(w, q, 3))
        name = "neighborlist.dat"
    return (ret, _text(name, "Nnearests"))


@entry("cutoffneighbors", "neigh", [{"f": 0.3}, {"f": 0.45}, {"f": 0.35, "dflt": True}], tri=True, out=True)
def e_cut(w, q, out, ctx):
    name = ctx.nm("cut.dat") if out else "neighborlist.dat"
    kw = {"fnfile": name} if out else {}
    ret = cutoffneighbors(w.snaps["x"], r_cut=q["f"] * w.Lmin, **_ppp_kw(w, q, 3), **kw)
    return (ret, _text(name, "cutoffneighbors"))


@entry("cutoffneighbors_particletype", "neigh", [{}, {"dflt": True}], tri=True, out=True)
def e_cutt(w, q, out, ctx):
    name = ctx.nm("cutt.dat") if out else "neighborlist.dat"
    kw = {"fnfile": name} if out else {}
    ret = cutoffneighbors_particletype(w.snaps["x"], r_cut=w.A["rcut_mat"], **_ppp_kw(w, q, 3), **kw)
    return (ret, _text(name, "cutoffneighbors_particletype"))


@entry("read_neighbors", "neigh", [{"f": "neigh", "nmax": 200, "fr": 1}, {"f": "neigh", "nmax": 2, "fr": 2},
                                   {"f": "weights", "nmax": 200, "fr": 2}, {"f": "weights", "nmax": 3, "fr": 1}], tri=True)
def e_read(w, q, out, ctx):
    res = []
    with open(w.files[q["f"]], "r", encoding="utf-8") as f:
        for _ in range(min(q["fr"], w.T)):
            res.append(read_neighbors(f, w.N, q["nmax"]) if q["nmax"] != 200 else read_neighbors(f, w.N))
    return res


@entry("cal_neighbors", "voro", [{"s": "x"}, {"s": "xu"}], out=True)
def e_voro(w, q, out, ctx):
    base = "vor" if out else "dump"
    ret = cal_neighbors(w.snaps[q["s"]], outputfile=base)
    kind = "edgelength" if w.d == 2 else "facearea"
    return (ret, _text(base + ".neighbor.dat", "cal_neighbors"), _text(f"{base}.{kind}.dat", "cal_neighbors"),
            _text(base + ".overall.dat", "cal_neighbors"))


@entry("VolumeMatrix", "voro", [{"n": 0, "dr": 0.01}, {"n": 1, "dr": 0.001}, {"n": -1, "dr": 0.01}], out=True)
def e_volmat(w, q, out, ctx):
    of = "volmat.npy" if out else ""
    k = q["n"] % w.T
    res = VolumeMatrix(w.snaps["x"], ndim=w.d, nconfig=k, deltar=q["dr"], transform_matrix=False, outputfile=of)
    if out:
        _npy_check("VolumeMatrix", of, res)
    return res


# ============================================================================= bond-orientational order

_B3 = [{"l": 4, "w": False}, {"l": 6, "w": True}, {"l": 2, "w": False}, {"l": 2, "w": True}, {"l": 6, "w": False, "dflt": True}]


def _boo3(w, b, ctx):
    c = _B3[b]
    return ctx.obj(("boo3", b), lambda: boo_3d(w.snaps["x"], l=c["l"], neighborfile=w.files["neigh"],
                                                weightsfile=w.files["weights"] if c["w"] else None, Nmax=30, **_ppp_kw(w, c, 3)))


@entry("boo_3d.qlm_Qlm", "boo", [{"b": 0}, {"b": 1}, {"b": 2}, {"b": 4}], dims=(3,), tri=True)
def e_b3_qlm(w, q, out, ctx):
    b = _boo3(w, q["b"], ctx)
    s, l_ = b.qlm_Qlm()
    return (s, l_, b.smallqlm, b.largeQlm)


# every analysis object (b) meets both values of every method flag: a flag confounded with the object would never show a
# buffer / cache shared between the two branches on one live object
@entry("boo_3d.ql_Ql", "boo", [{"b": 0, "cg": False, "fmt": "npy"}, {"b": 1, "cg": True, "fmt": "dat"},
                              {"b": 2, "cg": True, "fmt": "npy"}, {"b": 0, "cg": True, "fmt": "dat"},
                              {"b": 1, "cg": False, "fmt": "npy"}, {"b": 2, "cg": False, "fmt": "dat"},
                              {"b": 4, "cg": True, "fmt": "npy"}], dims=(3,), tri=True, out=True)
def e_b3_ql(w, q, out, ctx):
    name = ("ql.npy" if q["fmt"] == "npy" else "ql.dat") if out else None
    res = _boo3(w, q["b"], ctx).ql_Ql(coarse_graining=q["cg"], outputfile=name)
    if out:
        _npy_dat("boo_3d.ql_Ql", name, res, q["fmt"])
    return res


@entry("boo_3d.sij_ql_Ql", "boo", [{"b": 0, "cg": False, "c": 0.7, "o": "both"}, {"b": 1, "cg": True, "c": 0.3, "o": "sij"},
                                  {"b": 0, "cg": False, "c": 0.3, "o": "ql"}, {"b": 0, "cg": True, "c": 0.7, "o": "sij"},
                                  {"b": 1, "cg": False, "c": 0.3, "o": "both"}], dims=(3,), tri=True, out=True)
def e_b3_sij(w, q, out, ctx):
    oq = "sum_sij.csv" if out and q["o"] in ("both", "ql") else None
    osij = "sij.dat" if out and q["o"] in ("both", "sij") else None
    res = _boo3(w, q["b"], ctx).sij_ql_Ql(coarse_graining=q["cg"], c=q["c"], outputqlQl=oq, outputsij=osij)
    if osij:
        table_check("boo_3d.sij_ql_Ql", osij, np.asarray(res), skip=1)
    if oq:
        # the csv holds id, number of neighbours and the number of bonds with sij > c -- all recomputable from the
        # returned table (float32 sij compared like the library stores it)
        tab = np.asarray(res) if osij else np.concatenate([np.asarray(r) for r in res], axis=0)
        cn = tab[:, 1].astype(int)
        cnt = np.array([int(np.sum(tab[i, 2:2 + cn[i]].astype(np.float32) > q["c"])) for i in range(len(tab))])
        table_check("boo_3d.sij_ql_Ql", oq, np.column_stack([tab[:, 0], cnt, cn]), sep=",", skip=1,
                    columns=["id", "sum_sij", "num_neighbors"])
    return res


@entry("boo_3d.w_W_cap", "boo", [{"b": 2, "cg": False, "fmt": "npy"}, {"b": 0, "cg": True, "fmt": "dat"},
                                {"b": 3, "cg": True, "fmt": "npy"}, {"b": 2, "cg": True, "fmt": "dat"},
                                {"b": 3, "cg": False, "fmt": "dat"}], dims=(3,), tri=True, out=True)
def e_b3_w(w, q, out, ctx):
    ow = ("w.npy" if q["fmt"] == "npy" else "w.txt") if out else None
    oc = ("wcap.npy" if q["fmt"] == "npy" else "wcap.dat") if out else None
    a, b = _boo3(w, q["b"], ctx).w_W_cap(coarse_graining=q["cg"], outputw=ow, outputwcap=oc)
    if out:
        _npy_dat("boo_3d.w_W_cap(w)", ow, a, q["fmt"])
        _npy_dat("boo_3d.w_W_cap(wcap)", oc, b, q["fmt"])
    return (a, b)


@entry("boo_3d.spatial_corr", "boo", [{"b": 0, "cg": False}, {"b": 1, "cg": True}, {"b": 0, "cg": True}, {"b": 1, "cg": False}],
       dims=(3,), tri=True, out=True)
def e_b3_sc(w, q, out, ctx):
    of = ctx.nm("gl.csv") if out else ""
    res = _boo3(w, q["b"], ctx).spatial_corr(coarse_graining=q["cg"], rdelta=0.1, outputfile=of)
    if out:
        _csv_check("boo_3d.spatial_corr", of, res)
    return res


@entry("boo_3d.time_corr", "boo", [{"b": 0, "cg": False}, {"b": 1, "cg": True}, {"b": 0, "cg": True}, {"b": 1, "cg": False}],
       dims=(3,), tri=True, out=True)
def e_b3_tc(w, q, out, ctx):
    of = ctx.nm("gt.csv") if out else ""
    res = _boo3(w, q["b"], ctx).time_corr(coarse_graining=q["cg"], dt=w.dt, outputfile=of)
    if out:
        _csv_check("boo_3d.time_corr", of, res)
    return res


_B2 = [{"l": 6, "w": False}, {"l": 4, "w": True}, {"l": 5, "w": False}, {"l": 6, "w": True, "dflt": True, "phi": True}]


def _boo2(w, b, ctx):
    c = _B2[b]

    def make():
        # "phi": the constructor itself is asked for an output file of the order parameter it stores
        kw = {"output_phi": "phi_init.npy"} if c.get("phi") else {}
        o = boo_2d(w.snaps["x"], l=c["l"], neighborfile=w.files["neigh"], weightsfile=w.files["weights"] if c["w"] else "",
                   Nmax=10, **_ppp_kw(w, c, 2), **kw)
        if kw:
            _npy_check("boo_2d(output_phi=...)", "phi_init.npy", o.ParticlePhi)
        return o
    return ctx.obj(("boo2", b), make)


@entry("boo_2d.lthorder", "boo", [{"b": 0}, {"b": 1}, {"b": 2}, {"b": 3}], dims=(2,), tri=True, out=True)
def e_b2_l(w, q, out, ctx):
    of = "phi.npy" if out else ""
    b = _boo2(w, q["b"], ctx)
    res = b.lthorder(of)
    if out:
        _npy_check("boo_2d.lthorder", of, res)
    # the constructor stored the result of its own lthorder() call: the same evaluation, made again on the same object
    from .c18_world import same
    m = same(np.asarray(b.ParticlePhi), np.asarray(res), "lthorder()")
    if m:
        raise Violation(f"boo_2d.lthorder() called again on the object does not return what the call made by the constructor "
                        f"returned (stored as ParticlePhi): {m}")
    return (res, b.ParticlePhi)


@entry("boo_2d.time_average", "boo", [{"b": 0, "w": 1, "ac": True}, {"b": 1, "w": -1, "ac": False}, {"b": 0, "w": -1, "ac": True},
                                      {"b": 0, "w": 1, "ac": False}, {"b": 1, "w": 1, "ac": True}],
       dims=(2,), tri=True, out=True, minT=2)
def e_b2_ta(w, q, out, ctx):
    win = q["w"] if q["w"] > 0 else w.T - 1
    of = "phi_ave.npy" if out else ""
    a, ids = _boo2(w, q["b"], ctx).time_average(time_period=(win + 0.5) * w.step * w.dt, dt=w.dt,
                                                average_complex=q["ac"], outputfile=of)
    if out:
        _npy_check("boo_2d.time_average", of, a)
        table_check("boo_2d.time_average", of + ".snapshot_id.dat", np.asarray(ids), skip=1)
    return (a, ids)


@entry("boo_2d.spatial_corr", "boo", [{"b": 0}, {"b": 1}], dims=(2,), tri=True, out=True)
def e_b2_sc(w, q, out, ctx):
    of = ctx.nm("g6.csv") if out else ""
    res = _boo2(w, q["b"], ctx).spatial_corr(rdelta=0.1, outputfile=of)
    if out:
        _csv_check("boo_2d.spatial_corr", of, res)
    return res


@entry("boo_2d.time_corr", "boo", [{"b": 0}, {"b": 1}, {"b": 3}], dims=(2,), tri=True, out=True)
def e_b2_tc(w, q, out, ctx):
    of = ctx.nm("g6t.csv") if out else ""
    res = _boo2(w, q["b"], ctx).time_corr(dt=w.dt, outputfile=of)
    if out:
        _csv_check("boo_2d.time_corr", of, res)
    return res


# ============================================================================= dynamics

_DYN = [{"m": "xu", "cal": "slow", "nb": False}, {"m": "x", "cal": "fast", "nb": False},
        {"m": "both", "cal": "slow", "nb": True}, {"m": "xu", "cal": "fast", "nb": True},
        {"m": "xu", "cal": "fast", "nb": False, "dflt": True}]


def _dyn(cls, w, c, ctx, tag):
    def make():
        kw = dict(dt=w.dt, diameters=w.diameters, a=0.3, cal_type=c["cal"],
                  neighborfile=w.files["neigh"] if c["nb"] else "", max_neighbors=30)
        if c.get("dflt"):
            # the defaults of the signature where they describe the world: ppp = zeros(3) for unwrapped 3D coordinates,
            # diameters = {1: 1.0, 2: 1.0} for species labels within {1, 2} (and, off-domain, for any labels)
            if _labels_12(w) or w.tolerant:  # (off-domain worlds: a label without a diameter gives NaN, purity still holds)
                del kw["diameters"]
            return cls(xu_snapshots=w.snaps["xu"], **({} if w.d == 3 else {"ppp": w.A["ppp0"]}), **kw)
        if c["m"] == "xu":
            return cls(xu_snapshots=w.snaps["xu"], ppp=w.A["ppp0"], **kw)
        if c["m"] == "x":
            return cls(x_snapshots=w.snaps["x"], ppp=w.A["ppp"], **kw)
        return cls(xu_snapshots=w.snaps["xu"], x_snapshots=w.snaps["x"], ppp=w.A["ppp0"], **kw)
    return ctx.obj((tag, c["m"], c["cal"], c["nb"]), make)


# cond: None or the kind of condition mask (World.cond): 'mix' ordinary, 'pin' only the pinned set (msd == 0 and
# alpha2 = 0/0 = NaN in a pinned world), 'mob' only the others, 'gap' nobody selected in one origin frame (degenerate
# worlds only: every column of that lag is a mean over nothing)
@entry("Dynamics.relaxation", "dyn", [{"c": 0, "cond": None}, {"c": 1, "cond": "mix"}, {"c": 2, "cond": None},
                                      {"c": 3, "cond": "mix"}, {"c": 0, "cond": "mix"}, {"c": 1, "cond": None},
                                      {"c": 0, "cond": "pin"}, {"c": 1, "cond": "pin"}, {"c": 0, "cond": "mob"},
                                      {"c": 1, "cond": "gap"}, {"c": 2, "cond": "pin"}, {"c": 0, "cond": "gap"},
                                      {"c": 4, "cond": None}, {"c": 4, "cond": "mix"}, {"c": 3, "cond": "mob"}],
       tri=True, out=True, minT=2)
def e_dyn(w, q, out, ctx):
    of = ctx.nm("dyn.csv") if out else ""
    d = _dyn(Dynamics, w, _DYN[q["c"]], ctx, "dyn")
    res = d.relaxation(qconst=2 * np.pi, condition=w.cond(q["cond"]) if q["cond"] else None, outputfile=of)
    if out:
        _csv_check("Dynamics.relaxation", of, res)
    return res


def _sq4_params(w):
    return [c for c in ({"m": "xu", "cal": "slow"}, {"m": "both", "cal": "fast"}, {"m": "xu", "cal": "fast"},
                        {"m": "both", "cal": "slow"}) if c["cal"] in w.sq4_ok]


@entry("Dynamics.sq4", "dyn", [{"i": 0, "cond": False}, {"i": 1, "cond": False}, {"i": 0, "cond": True}, {"i": 1, "cond": True},
                               {"i": 0, "cond": "int"}, {"i": 1, "cond": "int"}],
       out=True, ok=lambda w: bool(w.sq4_ok), minT=2)
def e_sq4(w, q, out, ctx):
    ps = _sq4_params(w)
    c = dict(ps[q["i"] % len(ps)], nb=False)
    of = ctx.nm("sq4.csv") if out else ""
    d = _dyn(Dynamics, w, c, ctx, "dyn")
    # a condition is only passed where the selected AND mobile subset is non-empty in every origin frame
    # ("int": the same selection as a 0/1 integer array -- sq4 casts the condition with astype(bool))
    cond = w.A["mask_int" if q["cond"] == "int" else "mask"] if q["cond"] and c["cal"] in w.sq4_ok_cond else None
    res = d.sq4(t=w.step * w.dt, qrange=8.0, condition=cond, outputfile=of)
    if out:
        _csv_check("Dynamics.sq4", of, res)
    return res


@entry("LogDynamics.relaxation", "dyn", [{"c": 0, "cond": None}, {"c": 1, "cond": "mix"}, {"c": 3, "cond": None},
                                         {"c": 0, "cond": "mix"}, {"c": 0, "cond": "pin"}, {"c": 1, "cond": "pin"},
                                         {"c": 1, "cond": "mob"}, {"c": 0, "cond": "gap"}, {"c": 4, "cond": "mix"},
                                         {"c": 2, "cond": None}],
       tri=True, out=True, minT=2)
def e_logdyn(w, q, out, ctx):
    of = ctx.nm("logdyn.csv") if out else ""
    d = _dyn(LogDynamics, w, _DYN[q["c"]], ctx, "logdyn")
    # one mask for all frames; 'gap': the frame of the per-frame mask in which nobody is selected
    cond = w.cond(q["cond"])[w.gapframe if q["cond"] == "gap" else 0] if q["cond"] else None
    res = d.relaxation(qconst=2 * np.pi, condition=cond, outputfile=of)
    if out:
        _csv_check("LogDynamics.relaxation", of, res)
    return res


_FIELD = {"real": "scalar", "complex": "cplx", "vector": "vec", "tensor": "tens"}


@entry("time_correlation", "dyn", [{"k": "real"}, {"k": "complex"}, {"k": "vector"}, {"k": "tensor"}], tri=True, out=True)
def e_tcorr(w, q, out, ctx):
    of = ctx.nm("tcorr.csv") if out else ""
    res = time_correlation(w.snaps["x"], condition=w.A[_FIELD[q["k"]]], dt=w.dt, outputfile=of)
    if out:
        _csv_check("time_correlation", of, res)
    return res


# ============================================================================= vector fields

@entry("participation_ratio", "vec", [{"n": 0}, {"n": 1}, {"n": -1}], tri=True)
def e_pr(w, q, out, ctx):
    return participation_ratio(w.A["vec"][_fr(w, q)])


@entry("local_vector_alignment", "vec", [{"n": 0}, {"n": 1}, {"n": -1}], tri=True)
def e_lva(w, q, out, ctx):
    return local_vector_alignment(w.A["vec"][_fr(w, q)], w.files["neigh"])


@entry("phase_quotient", "vec", [{"n": 0}, {"n": 1}, {"n": -1}], tri=True)
def e_pq(w, q, out, ctx):
    return phase_quotient(w.A["vec"][_fr(w, q)], w.files["neigh"])


@entry("divergence_curl", "vec", [{"n": 0}, {"n": 1}, {"n": -1}], tri=True)
def e_dc(w, q, out, ctx):
    res = divergence_curl(w.snaps["x"].snapshots[_fr(w, q)], w.A["vec"][_fr(w, q)], w.A["ppp"], w.files["neigh"])
    return res if isinstance(res, np.ndarray) else tuple(res)


@entry("vector_decomposition_sq", "vec", [{"n": 0}, {"n": 1}, {"n": -1}], out=True)
def e_vdsq(w, q, out, ctx):
    of = ctx.nm("lt.csv") if out else ""
    a, b = vector_decomposition_sq(w.snaps["x"].snapshots[_fr(w, q)], w.A["qvec"], w.A["vec"][_fr(w, q)], outputfile=of)
    if out:
        _csv_check("vector_decomposition_sq", of, b)
    return (a, b)


@entry("vector_fft_corr", "vec", [{}], out=True)
def e_vfc(w, q, out, ctx):
    of = "vfc" if out else ""
    res = vector_fft_corr(w.snaps["x"], w.A["qvec"], w.A["vec"], dt=w.dt, outputfile=of)
    for h in ("FFT", "T_FFT", "L_FFT"):
        if not isinstance(res, dict) or h not in res:
            raise Violation(f"vector_fft_corr: result has no table {h!r}")
        _npy_check(f"vector_fft_corr[{h}]", f"{of}.{h}.npy", res[h].values)
    # the averaged spectra are written, not returned: their text is compared between repeated calls
    return (res, _text(of + ".spectra.csv", "vector_fft_corr"))


@entry("vibrability", "vec", [{}], tri=True, out=True)
def e_vib(w, q, out, ctx):
    of = "vib.npy" if out else ""
    res = vibrability(w.A["eigfreq"], w.A["eigvec"], w.N, outputfile=of)
    if out:
        _npy_check("vibrability", of, res)
    return res


# ============================================================================= coarse graining

@entry("spatial_average", "cg", [{"k": "real", "nmax": 30}, {"k": "complex", "nmax": 30}, {"k": "vector", "nmax": 2},
                                 {"k": "tensor", "nmax": 30}], tri=True, out=True)
def e_sa(w, q, out, ctx):
    of = "cg.npy" if out else ""
    res = spatial_average(w.A[_FIELD[q["k"]]], w.files["neigh"], Nmax=q["nmax"], outputfile=of)
    if out:
        _npy_check("spatial_average", of, res)
    return res


# "sig": a narrow Gaussian -- exp(-d^2 / 2 sigma^2) underflows to 0 for distant grid points (benign unless an earlier call
# left numpy's error handling at 'raise')
@entry("gaussian_blurring", "cg", [{"k": "real"}, {"k": "vector"}, {"k": "tensor"}, {"k": "real", "dflt": True},
                                   {"k": "vector", "sig": 0.02}], out=True)
def e_gb(w, q, out, ctx):
    of = "gb" if out else ""
    pos, prop = gaussian_blurring(w.snaps["x"], w.A[_FIELD[q["k"]]], w.A["ngrids"], sigma=q.get("sig", 0.5),
                                  gaussian_cut=0.45 * w.Lmin, outputfile=of, **_ppp_kw(w, q, 3))
    if out:
        _npy_check("gaussian_blurring(positions)", of + "_positions.npy", pos)
        _npy_check("gaussian_blurring(properties)", of + "_properties.npy", prop)
    return (pos, prop)


@entry("time_average", "cg", [{"k": "real", "w": 1}, {"k": "complex", "w": -1}, {"k": "real", "w": -1}, {"k": "complex", "w": 2}],
       tri=True, minT=2)
def e_ta(w, q, out, ctx):
    win = min(q["w"], w.T - 1) if q["w"] > 0 else w.T - 1
    a, ids = time_average(w.snaps["x"], w.A[_FIELD[q["k"]]], time_period=(win + 0.5) * w.step * w.dt, dt=w.dt)
    return (a, ids)


# ============================================================================= local order / shape

def _s2(w, ctx, q=None):
    """One S2 object per history when reuse is drawn; particle_s2() has run, so every method may be called."""
    q = q or {}

    def make():
        o = S2(w.snaps["x"], sigmas=w.A["s2sig"], rdelta=0.05, ndelta=24, **_ppp_kw(w, q, 3))
        o.particle_s2()
        return o
    return ctx.obj(("S2", bool(q.get("dflt"))), make)


@entry("S2.particle_s2", "s2", [{"gr": False}, {"gr": True}, {"gr": False, "dflt": True}], tri=True, out=True)
def e_s2(w, q, out, ctx):
    of = "s2.npy" if out else ""
    obj = _s2(w, ctx, q)
    if q["gr"]:
        s, g = obj.particle_s2(savegr=True, outputfile=of)
        if out:
            _npy_check("S2.particle_s2", of, s)
        _npy_check("S2.particle_s2(savegr)", "particle_gr." + (of or ".npy"), g)  # np.save appends .npy to 'particle_gr.'
        return (s, g, obj.s2_results)
    s = obj.particle_s2(savegr=False, outputfile=of)
    if out:
        _npy_check("S2.particle_s2", of, s)
    return (s, obj.s2_results)


@entry("S2.spatial_corr", "s2", [{"mn": False}, {"mn": True}], tri=True, out=True)
def e_s2_sc(w, q, out, ctx):
    of = ctx.nm("s2_gl.csv") if out else ""
    obj = _s2(w, ctx)
    res = obj.spatial_corr(mean_norm=q["mn"], outputfile=of)
    if out:
        _csv_check("S2.spatial_corr", of, res)
    return (res, obj.s2_results)


@entry("S2.time_corr", "s2", [{"dt": 0.002}, {"dt": 0.005}, {"dt": 0.002, "dflt": True}], tri=True, out=True)
def e_s2_tc(w, q, out, ctx):
    of = ctx.nm("s2_t.csv") if out else ""
    obj = _s2(w, ctx, q)
    res = obj.time_corr(dt=q["dt"], outputfile=of)
    if out:
        _csv_check("S2.time_corr", of, res)
    return (res, obj.s2_results)


@entry("q8_tetrahedral", "order", [{"s": "x"}, {"s": "xu"}, {"s": "x", "dflt": True}], dims=(3,), tri=True, out=True)
def e_q8(w, q, out, ctx):
    of = "q8.npy" if out else ""
    res = q8_tetrahedral(w.snaps[q["s"]], outputfile=of, **_ppp_kw(w, q, 3))
    if out:
        _npy_check("q8_tetrahedral", of, res)
    return res


def _nem(w, nb, ctx, pos=True):
    """One NematicOrder object per (history, neighbour setting, with / without the position snapshots -- they are "only
    required for spatial correlation calculation"); tensor() has run, so QIJ is defined."""
    def make():
        o = NematicOrder(w.snaps["orient"], w.snaps["x"]) if pos else NematicOrder(w.snaps["orient"])
        o.tensor(ndim=2, neighborfile=w.files["neigh"] if nb else "", Nmax=30, outputfile="init")
        return o
    return ctx.obj(("nematic", nb, pos), make)


@entry("NematicOrder.tensor", "nematic", [{"nb": False, "ev": False}, {"nb": True, "ev": True}, {"nb": True, "ev": False},
                                          {"nb": False, "ev": True}, {"nb": True, "ev": True, "pos": False}], dims=(2,), tri=True, out=True)
def e_nem(w, q, out, ctx):
    of = "nem" if out else ""
    no = _nem(w, q["nb"], ctx, q.get("pos", True))
    res = no.tensor(ndim=2, neighborfile=w.files["neigh"] if q["nb"] else "", Nmax=30, eigvals=q["ev"], outputfile=of)
    # the side files are written unconditionally (with an empty prefix when no name is given)
    _npy_check("NematicOrder.tensor(Q)", of + (".QIJ_cg.npy" if q["nb"] else ".QIJ_raw.npy"), no.QIJ)
    _npy_check("NematicOrder.tensor", of + (".eigval.npy" if q["ev"] else ".Qtrace.npy"), res)
    return (res, no.QIJ)


@entry("NematicOrder.spatial_corr", "nematic", [{"nb": False, "rd": 0.1}, {"nb": True, "rd": 0.1}, {"nb": False, "rd": 0.07},
                                                {"nb": True, "rd": 0.07, "dflt": True}],
       dims=(2,), tri=True, out=True)
def e_nem_sc(w, q, out, ctx):
    of = ctx.nm("nem_g.csv") if out else ""
    no = _nem(w, q["nb"], ctx)
    res = no.spatial_corr(rdelta=q["rd"], outputfile=of, **_ppp_kw(w, q, 2))
    if out:
        _csv_check("NematicOrder.spatial_corr", of, res)
    return (res, no.QIJ)


@entry("NematicOrder.time_corr", "nematic", [{"nb": False}, {"nb": True}, {"nb": False, "pos": False}], dims=(2,), tri=True, out=True)
def e_nem_tc(w, q, out, ctx):
    of = ctx.nm("nem_t.csv") if out else ""
    no = _nem(w, q["nb"], ctx, q.get("pos", True))
    res = no.time_corr(dt=w.dt, outputfile=of)
    if out:
        _csv_check("NematicOrder.time_corr", of, res)
    return (res, no.QIJ)


@entry("gyration_tensor", "order", [{"s": "x", "n": 0}, {"s": "xu", "n": 1}, {"s": "x", "n": 1}, {"s": "xu", "n": -1}], tri=True)
def e_gyr(w, q, out, ctx):
    return list(gyration_tensor(w.snaps[q["s"]].snapshots[_fr(w, q)].positions))


@entry("packing_capability_2d", "order", [{}, {"dflt": True}], dims=(2,), tri=True, out=True)
def e_pc(w, q, out, ctx):
    of = "pc.npy" if out else ""
    res = packing_capability_2d(w.snaps["x"], w.A["pcsig"], w.files["neigh"], outputfile=of, **_ppp_kw(w, q, 2))
    if out:
        _npy_check("packing_capability_2d", of, res)
    return res


# ============================================================================= Hessian

_HS = [{"model": "lj", "shift": True, "n": 0, "se": True, "sh": True}, {"model": "ipl", "shift": False, "n": 1, "se": True, "sh": False},
       {"model": "hz", "shift": True, "n": 0, "se": False, "sh": True}, {"model": "lj", "shift": False, "n": 1, "se": False, "sh": False},
       {"model": "lj", "shift": True, "n": 0, "se": False, "sh": False}, {"model": "ipl", "shift": True, "n": 0, "se": True, "sh": True},
       # "hzobj": Lennard-Jones / inverse power law on the object that also serves the harmonic model (i = 2: same snapshot,
       # shift flag, sigma and cut-off tables): one HessianMatrix, several models in any order
       {"model": "lj", "shift": True, "n": 0, "se": False, "sh": False, "hzobj": True},
       {"model": "ipl", "shift": True, "n": 0, "se": False, "sh": True, "hzobj": True}]


def _hess_setup(w, c, ctx):
    if c["model"] == "lj":
        ip, sig, rc = InteractionParams(model_name=ModelName.lennard_jones), w.A["hsig"], w.A["hrc"]
    elif c["model"] == "ipl":
        ip, sig, rc = InteractionParams(model_name=ModelName.inverse_power_law, ipl_n=10, ipl_A=1.0), w.A["hsig"], w.A["hrc"]
    else:
        ip, sig, rc = InteractionParams(model_name=ModelName.harmonic_hertz, harmonic_hertz_alpha=2.5), w.A["hsig_hz"], w.A["hrc_hz"]
    if c.get("hzobj"):
        sig, rc = w.A["hsig_hz"], w.A["hrc_hz"]
    h = ctx.obj(("hess", c["model"] == "hz" or bool(c.get("hzobj")), c["n"], c["shift"]),
                lambda: HessianMatrix(snapshot=w.snaps["x"].snapshots[c["n"] % w.T], masses=w.masses, epsilons=w.A["heps"], sigmas=sig,
                                      r_cuts=rc, ppp=w.A["ppp"], shiftpotential=c["shift"]))
    return ip, h


@entry("HessianMatrix.diagonalize_hessian", "hess", [{"i": 0}, {"i": 1}, {"i": 2}, {"i": 3}, {"i": 4}, {"i": 5}, {"i": 6}, {"i": 7}],
       tri=True, out=True)
def e_hess(w, q, out, ctx):
    c = _HS[q["i"]]
    ip, h = _hess_setup(w, c, ctx)
    base = "hess" if out else ip.model_name.name
    ret = h.diagonalize_hessian(ip, saveevecs=c["se"], savehessian=c["sh"], outputfile="hess" if out else "")
    res = {"ret": ret, "omega_PR": pd.read_csv(need_file(base + ".omega_PR.csv", "diagonalize_hessian"),
                                               float_precision="round_trip")}
    if c["se"]:
        res["evecs"] = np.load(need_file(base + ".evecs.npy", "diagonalize_hessian"))
    if c["sh"]:
        res["hessian"] = np.load(need_file(base + ".hessianmatrix.npy", "diagonalize_hessian"))
    return res


@entry("HessianMatrix.pair_matrix", "hess", [{"i": 0}, {"i": 2}], tri=True)
def e_hess_pm(w, q, out, ctx):
    _, h = _hess_setup(w, _HS[q["i"]], ctx)
    a, b = h.pair_matrix(w.A["rji"], w.dudrs)
    return (a, b)


@entry("PairInteractions", "hess", [{"shift": True}, {"shift": False}], tri=True)
def e_pairint(w, q, out, ctx):
    """Pair-potential derivatives [s1, s1rc, s2] through caller() for the three models and through the model methods."""
    pi = PairInteractions(r=0.95, epsilon=1.2, sigma=1.1, r_c=2.5, shift=q["shift"])
    ips = [InteractionParams(model_name=ModelName.lennard_jones),
           InteractionParams(model_name=ModelName.inverse_power_law, ipl_n=10, ipl_A=1.0),
           InteractionParams(model_name=ModelName.harmonic_hertz, harmonic_hertz_alpha=2.5)]
    first = [pi.caller(ip) for ip in ips]
    res = (first, pi.lennard_jones(), pi.inverse_power_law(n=12, A=0.5), pi.harmonic_hertz(alpha=2.0))
    # the same evaluations once more on the SAME object, after the other models ran on it
    from .c18_world import same
    m = same(first, [pi.caller(ip) for ip in ips], "caller(model)") or same(res[1], pi.lennard_jones(), "lennard_jones()")
    if m:
        raise Violation(f"PairInteractions: the same evaluation on one object gives another result after other models were "
                        f"evaluated on it: {m}")
    return res


# ============================================================================= small utilities / writer

@entry("write_dump_header", "misc", [{"n": 0}, {"n": 1}, {"n": -1, "add": None}], tri=True)
def e_wdh(w, q, out, ctx):
    sn = w.snaps["x"].snapshots[_fr(w, q)]
    return (write_dump_header(sn.timestep, sn.nparticle, sn.boxbounds, addson=q.get("add", "q6")),
            write_data_header(sn.nparticle, w.K, sn.boxbounds))


@entry("remove_pbc", "misc", [{"n": 0, "one": False}, {"n": 1, "one": True}, {"n": -1, "one": False, "dflt": True}], tri=True)
def e_rpbc(w, q, out, ctx):
    sn = w.snaps["x"].snapshots[_fr(w, q)]
    R = w.A["vec"][_fr(w, q)]
    return remove_pbc(R[0] if q["one"] else R, sn.hmatrix, *_ppp_kw(w, q, 3).values())


@entry("cage_relative", "misc", [{"n": 0}, {"n": 1}, {"n": -1}], tri=True)
def e_cage(w, q, out, ctx):
    return cage_relative(w.A["vec"][_fr(w, q)], w.A["cnlist"])


@entry("s2_integral", "misc", [{}], tri=True)
def e_s2i(w, q, out, ctx):
    return s2_integral(w.A["grpos"], w.A["grbins"], ndim=w.d)


@entry("Filon_COS", "misc", [{"a": 0, "odd": False}, {"a": 3.0, "odd": False}, {"a": 0, "odd": True}], tri=True, out=True)
def e_filon(w, q, out, ctx):
    of = ctx.nm("filon.csv") if out else ""
    sfx = "_odd" if q["odd"] else ""
    res = Filon_COS(w.A["filC" + sfx], w.A["filT" + sfx], a=q["a"], outputfile=of)
    if out:
        _csv_check("Filon_COS", of, res)
    return res


@entry("triangle_area", "misc", [{"n": 0}, {"n": 1}, {"n": -1, "dflt": True}], tri=True)
def e_tri(w, q, out, ctx):
    sn = w.snaps["x"].snapshots[_fr(w, q)]
    return triangle_area(sn.positions[:3], sn.hmatrix, *_ppp_kw(w, q, 2).values())


@entry("convert_configuration", "voro", [{"s": "x"}, {"s": "xu"}])
def e_convcfg(w, q, out, ctx):
    boxes, points = convert_configuration(w.snaps[q["s"]])
    return ([np.array([b.Lx, b.Ly, b.Lz, b.xy, b.xz, b.yz]) for b in boxes], list(points))


@entry("voropp.get_input", "voro", [{"s": "x"}, {"s": "xu"}, {"s": "x", "dflt": True}], tri=True)
def e_getinput(w, q, out, ctx):
    if q.get("dflt") and _labels_12(w):  # the default radii = {1: 0.5, 2: 0.5} cover the species of this world
        position, bounds = get_input(w.snaps[q["s"]])
    else:
        position, bounds = get_input(w.snaps[q["s"]], w.radii)
    return (list(position), list(bounds))


@entry("voropp.indicehis", "voro", [{}], tri=True, out=True)
def e_indicehis(w, q, out, ctx):
    of = ctx.nm("indices.dat") if out else None
    ret = indicehis(w.files["voroindex"], outputfile=of)
    return (ret, _text(of, "indicehis") if out else None)


@entry("stubs", "misc", [{}], tri=True)
def e_stubs(w, q, out, ctx):
    """The two placeholders of the public API (bodies are `pass`)."""
    return (kspace_decomposition(), atomic_position_average())


# ============================================================================= utils: funcs / geometry / wave vectors / harmonics / fitting

@entry("funcs.factors", "utils", [{"nd": 2}, {"nd": 3}], tri=True)
def e_factors(w, q, out, ctx):
    f = _mod("utils.funcs")
    return (f.kronecker(1, q["nd"] - 1), f.kronecker(2, 3), f.nidealfac(q["nd"]), f.areafac(q["nd"]), f.alpha2factor(q["nd"]),
            f.Legendre_polynomials(w.A["dist"], q["nd"]), f.grid_gaussian(w.A["dist"], sigma=0.5), f.grid_gaussian(w.A["dist"]))


@entry("moment_of_inertia", "utils", [{"m": 1, "mat": False}, {"m": 2, "mat": True}], tri=True)
def e_moi(w, q, out, ctx):
    return _mod("utils.funcs").moment_of_inertia(w.A["moi"], m=q["m"], matrix=q["mat"])


@entry("Wignerindex", "utils", [{"l": 2}, {"l": 1}], tri=True)
def e_wigner(w, q, out, ctx):
    return _mod("utils.funcs").Wignerindex(q["l"])


@entry("geometry.lines", "utils", [{"k": 0}, {"k": 1}], tri=True)
def e_lines(w, q, out, ctx):
    g = _mod("utils.geometry")
    S = w.A["square"]
    v = w.A["direction"] if q["k"] == 0 else -w.A["direction"]
    return (g.triangle_angle(3.0, 4.0 + q["k"], 5.0), g.lines_intersection(S[0], S[2], S[1], S[3]),
            g.LineWithinSquare(S[0], S[1], S[2], S[3], w.A["inside"], v))


_OP = [False, True, "x", "y", "z"]


@entry("choosewavevector", "utils", [{"op": k, "n": 6 + (k % 2)} for k in range(5)], tri=True)
def e_choosewv(w, q, out, ctx):
    op = _OP[q["op"]]
    if op == "z" and w.d == 2:
        op = "y"  # 'z' is documented for three-dimensional boxes
    return _mod("utils.wavevector").choosewavevector(w.d, q["n"], op)


@entry("wavevector.tables", "utils", [{"n": 4, "op": False}, {"n": 5, "op": True}], tri=True)
def e_wvtables(w, q, out, ctx):
    m = _mod("utils.wavevector")
    return (m.wavevector2d(q["n"]) if w.d == 2 else m.wavevector3d(q["n"]), m.continuousvector(w.d, q["n"], onlypositive=q["op"]))


@entry("spherical_harmonics", "utils", [{"l": k} for k in range(0, 13)], tri=True)
def e_sph(w, q, out, ctx):
    m = _mod("utils.spherical_harmonics")
    l_ = q["l"]
    res = []
    for theta, phi in w.angles:
        if l_ == 0:
            res.append((m.SphHarm0(), m.sph_harm(0, 0, abs(phi), theta)))
        elif l_ <= 10:
            res.append((getattr(m, f"SphHarm{l_}")(theta, phi), m.sph_harm_l(l_, theta, phi)))
        else:
            res.append((m.SphHarm_above(l_, theta, phi), m.sph_harm_l(l_, theta, phi)))
    return res


def _fitfunc(x, a, b):
    return a * np.exp(-b * x)


@entry("fits", "utils", [{"p0": False, "b": False, "style": "linear", "r": False}, {"p0": True, "b": False, "style": "log", "r": True},
                         {"p0": True, "b": True, "style": "linear", "r": True}, {"p0": False, "b": True, "style": "log", "r": False}],
       tri=True)
def e_fits(w, q, out, ctx):
    kw = {}
    if q["p0"]:
        kw["p0"] = [1.5, 0.5]
    if q["b"]:
        kw["bounds"] = ([0.0, 0.0], [10.0, 10.0])
    if q["r"]:
        kw.update(rangea=0.25, rangeb=4.0)
    return list(fits(_fitfunc, w.A["fitx"], w.A["fity"], style=q["style"], **kw))


# ============================================================================= LAMMPS readers (their inputs are files, a dict and a list)

def _snap_struct(snaps):
    if snaps is None:
        return None
    one = lambda s: {"timestep": s.timestep, "nparticle": s.nparticle, "particle_type": s.particle_type, "positions": s.positions,  # noqa: E731
                     "boxlength": s.boxlength, "boxbounds": s.boxbounds, "realbounds": s.realbounds, "hmatrix": s.hmatrix}
    if hasattr(snaps, "snapshots"):
        return {"nsnapshots": snaps.nsnapshots, "frames": [one(s) for s in snaps.snapshots]}
    return one(snaps)


@entry("DumpReader.read_onefile", "reader", [{"t": "LAMMPS"}, {"t": "LAMMPSCENTER"}, {"t": "LAMMPSVECTOR"}], tri=True)
def e_dumpreader(w, q, out, ctx):
    kw = {}
    if q["t"] == "LAMMPSCENTER":
        kw["moltypes"] = w.moltypes
    if q["t"] == "LAMMPSVECTOR":
        kw["columnsids"] = w.columnsids
    r = ctx.obj(("reader", q["t"]), lambda: DumpReader(w.files["dump"], ndim=w.d, filetype=getattr(DumpFileType, q["t"]), **kw))
    ret = r.read_onefile()
    return (ret, _snap_struct(r.snapshots))


@entry("lammps_reader_helper", "reader", [{"f": "wrapper"}, {"f": "center"}, {"f": "vector"}, {"f": "frame"}, {"f": "additions"}],
       tri=True)
def e_lammps_helpers(w, q, out, ctx):
    m = _mod("reader.lammps_reader_helper")
    if q["f"] == "wrapper":
        return _snap_struct(m.read_lammps_wrapper(w.files["dump"], w.d))
    if q["f"] == "center":
        return _snap_struct(m.read_lammps_centertype_wrapper(w.files["dump"], w.d, w.moltypes))
    if q["f"] == "vector":
        return _snap_struct(m.read_lammps_vector_wrapper(w.files["dump"], w.d, w.columnsids))
    if q["f"] == "frame":
        with open(w.files["dump"], "r", encoding="utf-8") as f:
            a = m.read_lammps(f, w.d)
            b = m.read_lammps_vector(f, w.d, w.columnsids)
            c = m.read_lammps_centertype(f, w.d, w.moltypes) if w.T > 2 else None
        return [_snap_struct(a), _snap_struct(b), _snap_struct(c)]
    return m.read_additions(w.files["dump"], w.d + 2 + w.d)


@entry("reader_utils.containers", "reader", [{"s": "xu", "n": 0}, {"s": "x", "n": -1}, {"s": "xu", "n": -1}], tri=True)
def e_containers(w, q, out, ctx):
    """The frozen dataclasses themselves, built from the caller's arrays (the unwrapped coordinates lie outside the box):
    constructing a SingleSnapshot / Snapshots must not touch the arrays handed to it."""
    ru = _mod("reader.reader_utils")
    src = w.snaps[q["s"]].snapshots[_fr(w, q)]
    one = ru.SingleSnapshot(timestep=src.timestep, nparticle=src.nparticle, particle_type=src.particle_type,
                            positions=src.positions, boxlength=src.boxlength, boxbounds=src.boxbounds,
                            realbounds=src.realbounds, hmatrix=src.hmatrix)
    return _snap_struct(ru.Snapshots(nsnapshots=1, snapshots=[one]))


@entry("read_lammpslog", "reader", [{}], tri=True)
def e_lammpslog(w, q, out, ctx):
    return list(read_lammpslog(w.files["log"]))
