"""C08 — the tabulated spherical harmonics are the orthonormal Condon-Shortley Y_lm for all angles.

Oracles
  A  pbt.ref.ylm       independent float64 implementation (stable recurrence for normalised Legendre functions)
  B  scipy.special.sph_harm_y (only for the closed-form tables; the delegated branch *is* scipy, so B says nothing there)
  C  mpmath.spherharm at 30 digits on a subsample (~4 % of the generated points, all degrees)
plus the two consequences named in the statement (Unsoeld sum, Y_{l,-m} = (-1)^m conj Y_lm), checked on the
library's output alone.

Tolerance (DESIGN 1.4: derived, not tuned): the closed forms evaluate integer-coefficient polynomials in cos(theta)
whose terms reach 1.1e5 (l = 10, m = 0) before cancelling to O(1e2); with the prefactor ~5e-3, ~20 operations and
eps = 2.2e-16 the absolute error bound is ~2.4e-12 (observed worst 1.0e-13).  e^{i m phi} with |m| <= 20 adds
m*|phi|*eps/2 <= 7e-15 relative in every implementation.  => atol 5e-12 + rtol 1e-10 per component.  Any change of
an integer coefficient, a sign, an exponent or the order of the entries moves a component by >= 1e-4 at generic
angles, i.e. eight orders above the tolerance.

Preconditions (the domain in the property text): theta in [0, pi] (polar), phi in (-pi, pi] (azimuth), scalar
floats (the tables use cmath.exp; callers in static/boo.py pass numpy float64 scalars, so both kinds are generated).
"""
from __future__ import annotations

import numpy as np
from hypothesis import strategies as st
from scipy.special import sph_harm_y

from ..gen import fl
from ..harness import Facet, Violation
from ..ref import ylm as R
from ..util import arr, require

from PyMatterSim.utils import spherical_harmonics as SH

RULE = ("points (theta, phi) in [0,pi] x (-pi,pi] (uniform floats, whole degrees, poles, equator, phi = 0, +-pi/2, pi, "
        "values next to the poles) x degrees: closed-form tables l = 1..10, delegated branch l = 11..20, dispatcher "
        "l = 1..20; every order m = -l..l compared with an independent recurrence implementation (and scipy / mpmath). "
        "non-trivial = at least half of the compared (l, m) components have |Y_lm| > 1e-3 (so the comparison is "
        "not dominated by the absolute tolerance); the number of such components is in extra.components_above_1e-3")
ASSUMPTIONS = ["theta in [0, pi] is the polar angle, phi in (-pi, pi] the azimuth (as the code and the property text use "
               "them; the docstrings have the two names swapped)",
               "scalar arguments (python float or numpy float64), as passed by static/boo.py",
               "reference A: float64 three-term recurrence, cross-checked in-facet against scipy.special.sph_harm_y "
               "and mpmath.spherharm (30 digits); agreement among the three is itself asserted (2e-13)",
               "tolerance atol 5e-12 + rtol 1e-10 per component, derived from coefficient size in the l = 10 table"]

RTOL, ATOL = 1e-10, 5e-12
LMAX_ABOVE = 20
TABLES = {l: getattr(SH, f"SphHarm{l}", None) for l in range(1, 11)}

_PI = float(np.pi)
_THETA_SPECIAL = [0.0, _PI, _PI / 2, float(np.nextafter(_PI / 2, 0)), float(np.nextafter(_PI / 2, 4)), 1e-8,
                  _PI - 1e-8, 1e-3, _PI - 1e-3, 1e-160, float(np.nextafter(_PI, 0)), _PI / 3, _PI / 4]
_PHI_SPECIAL = [0.0, _PI, _PI / 2, -_PI / 2, float(np.nextafter(-_PI, 0)), 1e-9, -1e-9, _PI / 6, -3.0, 3.0,
                float(np.nextafter(_PI, 0)), -1e-160]



def _unit(k):
    """Scramble an integer into [0, 1): Hypothesis favours small integers / simple floats, the multiplicative hash
    spreads them evenly over the interval while staying a pure (shrinkable) function of the drawn value."""
    return ((k * 2654435761) % 2 ** 32) / 2.0 ** 32


_u32 = st.integers(0, 2 ** 32 - 1)
theta_st = st.one_of(
    st.sampled_from(_THETA_SPECIAL),
    st.integers(0, 180).map(lambda k: min(k * _PI / 180.0, _PI)),
    fl(0.0, _PI),
    _u32.map(lambda k: _PI * _unit(k)), _u32.map(lambda k: _PI * _unit(k)), _u32.map(lambda k: _PI * _unit(k)),
)
phi_st = st.one_of(
    st.sampled_from(_PHI_SPECIAL),
    st.integers(-179, 180).map(lambda k: max(min(k * _PI / 180.0, _PI), -float(np.nextafter(_PI, 0)))),
    fl(-_PI, _PI, exclude_min=True),
    _u32.map(lambda k: _PI - 2.0 * _PI * _unit(k)), _u32.map(lambda k: _PI - 2.0 * _PI * _unit(k)),
    _u32.map(lambda k: _PI - 2.0 * _PI * _unit(k)),
)


@st.composite
def point_st(draw, with_l=None):
    case = {"theta": draw(theta_st), "phi": draw(phi_st), "np_scalar": draw(st.booleans()),
            "mp": draw(st.sampled_from([True] + [False] * 24))}
    if with_l is not None:
        case["l"] = draw(st.sampled_from(list(range(with_l[0], with_l[1] + 1))))
    return case


# ----------------------------------------------------------------------------- comparison helpers


def _bad(got, want, rtol=RTOL, atol=ATOL):
    return np.flatnonzero(~(np.abs(got - want) <= atol + rtol * np.abs(want)))


def _vec(name, x, l):
    """Library output -> complex vector of length 2l+1 (anything else is a Violation)."""
    a = arr(name, x, shape=(2 * l + 1,))
    require(a.dtype.kind in "fciu", lambda: f"{name}: non-numeric dtype {a.dtype}")
    a = a.astype(np.complex128)
    require(bool(np.all(np.isfinite(a))), lambda: f"{name}: non-finite entries {a!r:.300}")
    return a


def _compare(name, l, got, want, fails, oracle):
    for k in _bad(got, want):
        fails.append(f"{name}: m = {int(k) - l}: got {got[k]!r}, {oracle} says {want[k]!r} (|diff| = {abs(got[k] - want[k]):.3e})")


def _identities(name, l, got, fails):
    tot = float(np.sum(np.abs(got) ** 2))
    want = (2 * l + 1) / (4 * np.pi)
    # |d sum| <= sum 2 |Y| |dY| <= 2 (2l+1) max|Y| ATOL
    if not abs(tot - want) <= (2 * l + 1) * 2e-11 + 1e-10 * want:
        fails.append(f"{name}: sum_m |Y_lm|^2 = {tot!r}, must be (2l+1)/4pi = {want!r}")
    m = np.arange(-l, l + 1)
    mirror = ((-1.0) ** np.abs(m)) * np.conj(got[::-1])
    for k in _bad(got, mirror, rtol=2e-10, atol=1e-11):
        if k < l:
            fails.append(f"{name}: Y_(l,{int(k) - l}) = {got[k]!r} but (-1)^m conj Y_(l,{l - int(k)}) = {mirror[k]!r}")


def _args(case):
    t, p = float(case["theta"]), float(case["phi"])
    if case.get("np_scalar"):
        return np.float64(t), np.float64(p)
    return t, p


def _classes(case):
    t, p = float(case["theta"]), float(case["phi"])
    tags = ["pole" if np.sin(t) < 1e-6 else ("equator" if abs(np.cos(t)) < 1e-6 else "generic-theta"),
            "phi<0" if p < 0 else ("phi=0" if p == 0 else "phi>0"),
            "np.float64" if case.get("np_scalar") else "float"]
    if abs(abs(p) - _PI) < 1e-12:
        tags.append("phi=+-pi")
    if t in (0.0, _PI):
        tags.append("pole-exact")
    return tags


def _finish(case, fails, ncomp, nbig, extra_tags=()):
    if fails:
        head = f"theta = {float(case['theta'])!r}, phi = {float(case['phi'])!r}: {len(fails)} disagreement(s)\n  "
        raise Violation(head + "\n  ".join(fails[:12]) + ("\n  ..." if len(fails) > 12 else ""))
    tags = _classes(case) + list(extra_tags)
    if case.get("mp"):
        tags.append("mpmath-checked")
    return {"nontrivial": bool(2 * nbig >= ncomp), "tags": tags,
            "extra": {"components_compared": int(ncomp), "components_above_1e-3": int(nbig)}}


def _reference(case, lmax, degrees):
    """Oracle A for l = 0..lmax at the point, cross-checked against scipy (always) and mpmath (flagged cases)."""
    t, p = float(case["theta"]), float(case["phi"])
    ref = R.ylm_table(lmax, t, p)
    for l in degrees:
        m = np.arange(-l, l + 1)
        B = np.asarray(sph_harm_y(l, m, t, p), dtype=np.complex128)
        # the oracles must agree among themselves far below the tolerance given to the code under test
        if len(_bad(ref[l], B, rtol=1e-12, atol=2e-13)):
            raise AssertionError(f"oracle A and scipy disagree at l={l}, theta={t!r}, phi={p!r}: {ref[l]} vs {B}")
        if case.get("mp"):
            C = R.ylm_mp(l, t, p)
            if len(_bad(ref[l], C, rtol=1e-12, atol=2e-13)):
                raise AssertionError(f"oracle A and mpmath disagree at l={l}, theta={t!r}, phi={p!r}")
    return ref


# ----------------------------------------------------------------------------- facets


def check_tables(case):
    """SphHarm1..SphHarm10 at one point: all 120 components against A and B (C on the subsample)."""
    fails = []
    ref = _reference(case, 10, range(1, 11))
    t, p = _args(case)
    ncomp = nbig = 0
    for l in range(1, 11):
        fn = TABLES[l]
        require(callable(fn), f"SphHarm{l} is missing from utils.spherical_harmonics")
        got = _vec(f"SphHarm{l}", fn(t, p), l)
        n0 = len(fails)
        _compare(f"SphHarm{l}", l, got, ref[l], fails, "reference recurrence")
        if len(fails) == n0:  # (A and B agree to 2e-13, so B can only add something if A found nothing)
            m = np.arange(-l, l + 1)
            B = np.asarray(sph_harm_y(l, m, float(t), float(p)), dtype=np.complex128)
            _compare(f"SphHarm{l}", l, got, B, fails, "scipy.sph_harm_y")
        _identities(f"SphHarm{l}", l, got, fails)
        ncomp += 2 * l + 1
        nbig += int(np.sum(np.abs(ref[l]) > 1e-3))
    return _finish(case, fails, ncomp, nbig)


def check_above(case):
    """SphHarm_above for l = 11..20 at one point against A (and C on the subsample)."""
    fails = []
    ref = _reference(case, LMAX_ABOVE, range(11, LMAX_ABOVE + 1))
    t, p = _args(case)
    ncomp = nbig = 0
    for l in range(11, LMAX_ABOVE + 1):
        got = _vec(f"SphHarm_above(l={l})", SH.SphHarm_above(l, t, p), l)
        _compare(f"SphHarm_above(l={l})", l, got, ref[l], fails, "reference recurrence")
        _identities(f"SphHarm_above(l={l})", l, got, fails)
        ncomp += 2 * l + 1
        nbig += int(np.sum(np.abs(ref[l]) > 1e-3))
    return _finish(case, fails, ncomp, nbig)


def check_dispatch(case):
    """sph_harm_l(l, theta, phi) is Y_l. (l = 1..20), and the very table / delegate of that degree."""
    l = int(case["l"])
    fails = []
    ref = _reference(case, l, [l])
    t, p = _args(case)
    got = _vec(f"sph_harm_l(l={l})", SH.sph_harm_l(l, t, p), l)
    _compare(f"sph_harm_l(l={l})", l, got, ref[l], fails, "reference recurrence")
    direct = TABLES[l](t, p) if l <= 10 else SH.SphHarm_above(l, t, p)
    direct = _vec(f"SphHarm{l}" if l <= 10 else f"SphHarm_above(l={l})", direct, l)
    for k in _bad(got, direct, rtol=1e-13, atol=1e-15):
        fails.append(f"sph_harm_l(l={l}) differs from the table of degree {l} at m = {int(k) - l}: {got[k]!r} vs {direct[k]!r}")
    nbig = int(np.sum(np.abs(ref[l]) > 1e-3))
    return _finish(case, fails, 2 * l + 1, nbig, extra_tags=[f"l={l:02d}"])


# structured complement: 41 x 41 grid.  Every table entry is a polynomial of degree <= 10 in (sin theta, cos theta)
# times e^{i m phi}; two such functions that agree on >= 21 distinct theta in [0, pi] and >= 21 distinct phi are
# identical, so agreement on the grid bounds every coefficient (the generated facets do not rely on this shape).
NGRID = 41


def _grid_point(k, j):
    theta = min(k * _PI / (NGRID - 1), _PI)
    phi = min(-_PI + 2.0 * _PI * (j + 1) / NGRID, _PI)  # (-pi, pi], last point = pi
    return theta, phi


_GRID_REF = {}


def _grid_reference():
    """Oracle A on the whole grid at once (vectorised), cross-checked against scipy everywhere and mpmath on 18 points."""
    if not _GRID_REF:
        kk, jj = np.meshgrid(np.arange(NGRID), np.arange(NGRID), indexing="ij")
        TH = np.array([[_grid_point(k, j)[0] for j in range(NGRID)] for k in range(NGRID)])
        PH = np.array([[_grid_point(k, j)[1] for j in range(NGRID)] for k in range(NGRID)])
        ref = R.ylm_table(LMAX_ABOVE, TH, PH)
        for l in range(LMAX_ABOVE + 1):
            m = np.arange(-l, l + 1)
            B = sph_harm_y(l, m[None, None, :], TH[:, :, None], PH[:, :, None])
            if not np.all(np.abs(B - ref[l]) <= 2e-13 + 1e-12 * np.abs(B)):
                raise AssertionError(f"oracle A and scipy disagree on the grid at l={l}")
            for k, j in zip(kk.ravel(), jj.ravel()):
                if (k * NGRID + j) % 97 == 0:
                    C = R.ylm_mp(l, TH[k, j], PH[k, j])
                    if not np.all(np.abs(C - ref[l][k, j]) <= 2e-13 + 1e-12 * np.abs(C)):
                        raise AssertionError(f"oracle A and mpmath disagree on the grid at l={l}, k={k}, j={j}")
        _GRID_REF.update(ref)
    return _GRID_REF


def _check_grid_point(case):
    k, j = case["k"], case["j"]
    theta, phi = _grid_point(k, j)
    pt = {"theta": theta, "phi": phi, "np_scalar": bool((k + j) % 2), "mp": (k * NGRID + j) % 97 == 0}
    fails = []
    gref = _grid_reference()
    ref = {l: gref[l][k, j] for l in gref}
    t, p = _args(pt)
    ncomp = nbig = 0
    if k == 0 and j == 0:
        y00 = arr("SphHarm0()", SH.SphHarm0(), shape=())
        if not abs(complex(y00) - ref[0][0]) <= ATOL:
            fails.append(f"SphHarm0() = {y00!r}, Y_00 = {ref[0][0]!r}")
    for l in range(1, LMAX_ABOVE + 1):
        if l <= 10:
            name = f"SphHarm{l}"
            got = _vec(name, TABLES[l](t, p), l)
            # the dispatcher for the delegated degrees is covered by the `dispatch` facet (each call costs 21-41 scipy calls)
            d = _vec(f"sph_harm_l(l={l})", SH.sph_harm_l(l, t, p), l)
            _compare(f"sph_harm_l(l={l})", l, d, ref[l], fails, "reference recurrence")
        else:
            name = f"SphHarm_above(l={l})"
            got = _vec(name, SH.SphHarm_above(l, t, p), l)
        _compare(name, l, got, ref[l], fails, "reference recurrence")
        _identities(name, l, got, fails)
        ncomp += 2 * l + 1
        nbig += int(np.sum(np.abs(ref[l]) > 1e-3))
    return _finish(pt, fails, ncomp, nbig, extra_tags=["grid"])


def grid_enum(tier):
    for k in range(NGRID):
        for j in range(NGRID):
            case = {"k": k, "j": j}
            try:
                info = _check_grid_point(case)
            except Violation as v:
                v.case = case
                raise
            except Exception as e:  # noqa: BLE001  (exceptions from the code under test are classified by the harness)
                e.case = case
                raise
            yield case, info


def describe(case):
    d = {"theta": float(case["theta"]), "phi": float(case["phi"]), "scalar": "np.float64" if case["np_scalar"] else "float"}
    if "l" in case:
        d["l"] = int(case["l"])
    return d


def describe_grid(case):
    t, p = _grid_point(case["k"], case["j"])
    return {"k": case["k"], "j": case["j"], "theta": t, "phi": p}


_grid = Facet("grid41", check=grid_enum, exhaustive=True, describe=describe_grid,
              rule="41 x 41 grid theta_k = k pi/40, phi_j = -pi + 2 pi (j+1)/41: SphHarm0, all tables, SphHarm_above "
                   "l = 11..20 and the dispatcher l = 1..10 at every grid point (finite enumeration of the grid, "
                   "not of the continuum)")
_grid.replay = _check_grid_point

FACETS = [
    Facet("tables", point_st(), check_tables, quick=3000, thorough=400000, describe=describe, shards_quick=3,
          rule="closed forms l = 1..10, all 120 components per point vs recurrence reference and scipy; Unsoeld sum; "
               "m <-> -m symmetry; non-trivial as in RULE"),
    Facet("above", point_st(), check_above, quick=900, thorough=60000, describe=describe, shards_quick=3,
          rule="delegated branch l = 11..20, all components per point vs recurrence reference; Unsoeld; symmetry"),
    Facet("dispatch", point_st(with_l=(1, 20)), check_dispatch, quick=3000, thorough=300000, describe=describe,
          shards_quick=2, rule="sph_harm_l(l) for l = 1..20 is Y_l and equals the table of degree l"),
    _grid,
]

MANIFEST = {
    "text": ("Generated search over the angle continuum plus a structured 41x41 grid: every closed-form entry of "
             "SphHarm1..SphHarm10 (120 components), the scipy-delegated branch SphHarm_above for l = 11..20 and the "
             "dispatcher sph_harm_l for l = 1..20 equal the orthonormal Condon-Shortley Y_lm(polar theta, azimuth phi) "
             "in the order m = -l..l to 5e-12 + 1e-10 relative, including poles, equator, phi = 0, +-pi/2, pi, negative "
             "phi and both python and numpy scalars; the Unsoeld sum and Y_(l,-m) = (-1)^m conj Y_lm are asserted on "
             "the library output. Facets: tables, above, dispatch, grid41 (finite grid enumeration). An import "
             "failure of utils.spherical_harmonics is reported as a violation."),
    "note": ("Exploration, not proof: equality 'identically in both angles' is sampled (thousands of points per run) and "
             "bounded on a 41x41 grid that determines trigonometric polynomials of degree <= 20 in each angle. "
             "Trusted base: the independent recurrence reference pbt/ref/ylm.py, cross-checked in every case against "
             "scipy.special.sph_harm_y and on ~4 % of cases against mpmath.spherharm at 30 digits. l > 20 is not explored."),
    "technique": ("property-based testing (Hypothesis): reference-model differential (independent recurrence "
                  "implementation, scipy and mpmath as second/third opinions) plus algebraic identities (Unsoeld sum, "
                  "conjugation symmetry) and a finite grid enumeration as structured complement"),
}
