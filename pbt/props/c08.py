"""C08 — the tabulated spherical harmonics are the orthonormal Condon-Shortley Y_lm for all angles.

Oracles
  A  pbt.ref.ylm       independent float64 implementation (stable recurrence for normalised Legendre functions)
  B  scipy.special.sph_harm_y (only for the closed-form tables; the delegated branch *is* scipy, so B says nothing there)
  C  mpmath.spherharm at 30 digits on a subsample (~4 % of the generated points, all degrees)
plus the two consequences named in the statement (Unsoeld sum, Y_{l,-m} = (-1)^m conj Y_lm), checked on the
library's output alone.

Tolerance (DESIGN 1.4: derived, not tuned): the closed forms evaluate integer-coefficient polynomials in cos(theta)
whose terms reach 1.1e5 (l = 10, m = 0) before cancelling to O(1e2); with the prefactor ~5e-3, ~20 operations and
eps = 2.2e-16 the absolute error bound is ~2.4e-12 (observed worst 1.0e-13).  e^{i m phi} with |m| <= 60, |phi| <= 2 pi
adds m*|phi|*eps/2 <= 4e-14 relative in every implementation.  => atol 5e-12 + rtol 1e-10 per component.  Any change of
an integer coefficient, a sign, an exponent or the order of the entries moves a component by >= 1e-4 at generic
angles, i.e. eight orders above the tolerance.

Preconditions: theta in [0, pi] (polar); phi (azimuth) in (-pi, pi] as the property text says, in [0, 2 pi] as
docs/utils.md VI says, and -pi itself (numpy.arctan2(-0.0, x < 0), what static/boo.py really passes): Y_lm is
2 pi-periodic in phi and the code adds 2 pi to negative values only, so the union [-pi, 2 pi] is the accepted
domain.  Scalar arguments (the tables use cmath.exp): python float, numpy float64 (static/boo.py passes
theta[j], phi[j]), the two mixed, and whole-number angles as python int / numpy int64.  float32 scalars and 0-d
arrays are NOT generated: the result precision for float32 is undefined by the docs, and `phi += 2 pi` in
SphHarm_above modifies a 0-d array argument in place (nobody passes one).

CLAUSES (statement + quantifier, one row per clause; counts = classes in evidence/C08.json, quick tier, seed 5)
  clause / axis                               facet(s) and deciding assertion                      populated classes
  ------------------------------------------  ---------------------------------------------------  ------------------------------
  l = 1..10, every m: table == Y_lm           tables (120 components / point), grid41, history:    generic-theta 1.9k, pole 0.9k,
                                              |got - A| <= 5e-12 + 1e-10|A| per component, also B  equator 0.15k per 3000
  ... identically in theta in [0, pi]         same; theta uniform, whole degrees, 13 specials,     pole-exact 656, pole-offset
                                              and (round 3) log-uniform offsets 1e-14..1e-2 from   (0,1e-8] 179, (1e-8,1e-4] 68;
                                              0, pi/2, pi (numpy.isclose / rounding windows)       equator-offset 141 / 65;
                                                                                                   theta-north 1.8k, theta-south 1.2k
  ... identically in phi in (-pi, pi]         same; phi uniform, whole degrees, specials; round 3: phi<0 0.9k, phi=0 0.45k,
      (+ documented [0, 2 pi], + -pi)         upper half (pi, 2 pi], -pi, -0.0, offsets from       phi-in-(pi,2pi] 514, phi=+-pi 0.3k,
                                              k pi/2                                               phi=-pi-exact 10, phi-axis-offset
                                                                                                   (0,1e-8] 194, (1e-8,1e-4] 81
  returned in the order m = -l..l             implied by the component-wise comparison with A      (every case)
                                              (index k <-> m = k - l) + shape (2l+1,)
  l > 10 delegated == same definition         above (l = 11..20 all ten per point), dispatch,      above: 900 points x 10 degrees;
                                              grid41, history; round 3: above_high (three degrees  above_high: l-20s 73, l-30s 53,
                                              from 21..60, any order) - was l <= 20 only           l-40s 75, l-50s 76; l-odd 144,
                                                                                                   l-even 136; order asc/desc/mixed
  sum_m |Y_lm|^2 = (2l+1)/4 pi                _identities on every library vector, all facets      (every case)
  Y_l,-m = (-1)^m conj Y_lm                   _identities (all m < 0), all facets                  (every case); parity: l-odd 1.6k,
                                                                                                   l-even 1.4k in dispatch
  dispatcher returns table of degree l        dispatch: sph_harm_l(l) == A and == SphHarm{l} /     l=01..l=20 each >= 100;
                                              SphHarm_above(l) (1e-13); grid41 l = 1..10;          ltype-np.int64 871 (round 3)
                                              history (dispatcher and direct calls interleaved)
  "for every ... " as a function (no state)   round 3, history: 3..8 calls per case, same / nearly repeat-exact 520, repeat-near
                                              the same / other angles, degrees in any order,       (0,1e-8] 345, (1e-8,1e-6] 194,
                                              returned arrays overwritten by the caller in         repeat-after-caller-overwrote-
                                              between; each result vs A for its own arguments      result 174, delegated-degree-
                                                                                                   after-a-larger-one 100 per 700
  results stay what they were at return       round 3 (EXTENSION_3 class 3, seeded C08-F): every   same-degree-other-angles-while-
  (a returned array is the caller's)          returned array is kept with a copy taken at return;  earlier-result-alive ~600 per 700
                                              tables / above / above_high (all degrees of the      histories; dispatch: 3 arrays of
                                              point), dispatch (dispatcher + table at phi -+ pi +  one degree alive per case
                                              table at phi), history (all steps) re-compare ALL
                                              of them bit for bit at the end of the case
  how the arguments are spelled               round 3: rep (float, np.float64, mixed, int,         rep-float 1.1k, rep-np.float64
  (EXTENSION_2 class 3, class 1)              np.int64), call (positional as boo.py / keywords     1.1k, mixed 0.6k, rep-int 120,
                                              theta=, phi=, l= as docs and tests)                  rep-np.int64 130, call-kw 875
  Weak before round 3: phi never above pi and never -pi; theta offsets from the poles only 1e-8 / 1e-3, none from the
  equator; l <= 20 only; arguments always positional and of one float type; degree always a python int; every call
  evaluated once with fresh arguments (no repeated / neighbouring / interleaved calls).

EXTENSION_2 classes: 1 no option-like parameter exists (tools/flag_audit.py: 0 rows) -> call styles instead; 2 phi in
(pi, 2 pi], phi = -pi, -0.0; 3 int / np.int64 angles, mixed scalar types, np.int64 degree; 4 above_high l = 21..60;
6 history (+ EXTENSION_3 class 3: results kept alive and re-compared at the end of every case); 9 l parity, theta north / south, sign of phi as tags; 11 1e-160 angles are in the specials, every tolerance
has an absolute floor.  Not applicable: 5 (no integer quotient), 7 (no frames), 8 (no neighbour lists), 10 (no cell).
EXTENSION_3: 3 applied (above); 1 no size axis (scalar arguments, one vector of fixed length 2l+1 out); 2 a float-valued
degree (6.0, 12.0) is out of domain: documented `l (int)`, and the unchanged SphHarm_above raises TypeError for it;
4 no batches.
"""
from __future__ import annotations

import numpy as np
from hypothesis import strategies as st
from scipy.special import sph_harm_y

from ..gen import fl
from ..harness import Facet, Violation, exception_from_cut
from ..ref import ylm as R
from ..util import arr, require

from PyMatterSim.utils import spherical_harmonics as SH

RULE = ("points (theta, phi) in [0,pi] x [-pi,2pi] (uniform floats, whole degrees, poles, equator, phi = 0, +-pi/2, +-pi, "
        "2pi, offsets 1e-14..1e-2 from those; python / numpy floats and whole numbers, positional and keyword calls) x "
        "degrees: closed-form tables l = 1..10, delegated branch l = 11..20 and 21..60, dispatcher l = 1..20 (python "
        "and numpy integer l), call histories of 3..8 calls in one process; every order m = -l..l compared with an "
        "independent recurrence implementation (and scipy / mpmath). "
        "non-trivial = at least half of the compared (l, m) components have |Y_lm| > 1e-3 (so the comparison is "
        "not dominated by the absolute tolerance); the number of such components is in extra.components_above_1e-3")
ASSUMPTIONS = ["theta in [0, pi] is the polar angle, phi the azimuth (as the code and the property text use them; the "
               "docstrings have the two names swapped); azimuth domain = (-pi, pi] of the property text + [0, 2 pi] of "
               "docs/utils.md + -pi (numpy.arctan2(-0.0, negative)), Y_lm being 2 pi-periodic in phi",
               "scalar arguments: python float or numpy float64 (static/boo.py), the two mixed, whole-number angles as "
               "python int / numpy.int64; degree as python int or numpy.int64; positional or keyword (theta=, phi=, l=) "
               "calls.  No float32, no 0-d arrays",
               "every call returns a fresh result that is correct for its own arguments whatever was evaluated before "
               "and whatever the caller did to arrays returned earlier (facet history); an array handed out earlier is "
               "never modified by a later call (all facets keep their results alive and re-compare them at the end)",
               "reference A: float64 three-term recurrence, cross-checked in-facet against scipy.special.sph_harm_y "
               "and mpmath.spherharm (30 digits); agreement among the three is itself asserted (2e-13)",
               "tolerance atol 5e-12 + rtol 1e-10 per component, derived from coefficient size in the l = 10 table"]

RTOL, ATOL = 1e-10, 5e-12
LMAX_ABOVE = 20
LMAX_HIGH = 60      # facet above_high: degrees 21..60 of the delegated branch
TABLES = {l: getattr(SH, f"SphHarm{l}", None) for l in range(1, 11)}

_PI = float(np.pi)
_2PI = 2.0 * _PI
_THETA_SPECIAL = [0.0, _PI, _PI / 2, float(np.nextafter(_PI / 2, 0)), float(np.nextafter(_PI / 2, 4)), 1e-8,
                  _PI - 1e-8, 1e-3, _PI - 1e-3, 1e-160, float(np.nextafter(_PI, 0)), _PI / 3, _PI / 4]
_PHI_SPECIAL = [0.0, _PI, _PI / 2, -_PI / 2, float(np.nextafter(-_PI, 0)), 1e-9, -1e-9, _PI / 6, -3.0, 3.0,
                float(np.nextafter(_PI, 0)), -1e-160,
                # round 3: what numpy.arctan2 returns for a bond in the x-z plane with y = -0.0 (x < 0: -pi, x > 0: -0.0)
                -_PI, -_PI, -0.0,
                # round 3: the documented azimuth range is [0, 2 pi] (docs/utils.md VI); (pi, 2 pi] was never drawn
                _2PI, 1.5 * _PI, float(np.nextafter(_PI, 4)), _2PI - 1e-9, float(np.nextafter(_2PI, 0)), 4.0, 6.0]


def _unit(k):
    """Scramble an integer into [0, 1): Hypothesis favours small integers / simple floats, the multiplicative hash
    spreads them evenly over the interval while staying a pure (shrinkable) function of the drawn value."""
    return ((k * 2654435761) % 2 ** 32) / 2.0 ** 32


def _near(bases, lo, hi):
    """base +- 10^(-u/10), u = 20..140 (offsets 1e-2 .. 1e-14, log-uniform) on the side(s) of the base that lie in
    [lo, hi]: the windows of numpy.isclose (1e-8), of a rounding to 8 / 10 / 12 digits and of a small-angle shortcut
    all lie inside."""
    sides = [(b, sg) for b in bases for sg in (-1.0, 1.0) if lo < b + sg * 1e-2 < hi]
    return st.tuples(st.sampled_from(sides), st.integers(20, 140)).map(
        lambda t: float(min(max(t[0][0] + t[0][1] * 10.0 ** (-t[1] / 10.0), lo), hi)))


_u32 = st.integers(0, 2 ** 32 - 1)
theta_st = st.one_of(
    st.sampled_from(_THETA_SPECIAL),
    st.integers(0, 180).map(lambda k: min(k * _PI / 180.0, _PI)),
    fl(0.0, _PI),
    _near([0.0, _PI / 2, _PI], 0.0, _PI),
    _u32.map(lambda k: _PI * _unit(k)), _u32.map(lambda k: _PI * _unit(k)), _u32.map(lambda k: _PI * _unit(k)),
)
phi_st = st.one_of(
    st.sampled_from(_PHI_SPECIAL),
    st.integers(-179, 180).map(lambda k: max(min(k * _PI / 180.0, _PI), -float(np.nextafter(_PI, 0)))),
    fl(-_PI, _PI, exclude_min=True),
    _near([-_PI, -_PI / 2, 0.0, _PI / 2, _PI, 1.5 * _PI, _2PI], -_PI, _2PI),
    _u32.map(lambda k: _PI + _PI * _unit(k)),                       # (pi, 2 pi): documented range, upper half
    _u32.map(lambda k: _PI - 2.0 * _PI * _unit(k)), _u32.map(lambda k: _PI - 2.0 * _PI * _unit(k)),
    _u32.map(lambda k: _PI - 2.0 * _PI * _unit(k)),
)
# how the caller spells the two angles: static/boo.py passes numpy float64 scalars (theta[j], phi[j]); the docs and the
# tests pass python floats; hand-written calls also use whole numbers (SphHarm4(0, 0), theta = 1, phi = -2)
_REPS = ["float"] * 4 + ["np.float64"] * 4 + ["mixed-f/np", "mixed-np/f", "int", "np.int64"]


@st.composite
def point_st(draw, with_l=None, high=False):
    rep = draw(st.sampled_from(_REPS))
    if rep in ("int", "np.int64"):
        theta, phi = float(draw(st.sampled_from([1, 2, 3, 0]))), float(draw(st.sampled_from([-3, -2, -1, 1, 2, 3, 4, 5, 6, 0])))
    else:
        theta, phi = draw(theta_st), draw(phi_st)
    case = {"theta": theta, "phi": phi, "rep": rep, "call": draw(st.sampled_from(["pos", "pos", "kw"])),
            "mp": draw(st.sampled_from([True] + [False] * 24))}
    if with_l is not None:
        case["l"] = draw(st.sampled_from(list(range(with_l[0], with_l[1] + 1))))
    if with_l is not None or high:
        case["ltype"] = draw(st.sampled_from(["int", "int", "np.int64"]))
    if high:
        a, b, c = sorted(draw(st.sets(st.integers(LMAX_ABOVE + 1, LMAX_HIGH), min_size=3, max_size=3)))
        case["degrees"] = {"ascending": [a, b, c], "descending": [c, b, a], "mixed": [b, c, a]}[
            draw(st.sampled_from(["ascending", "descending", "mixed"]))]
    return case


# ----------------------------------------------------------------------------- comparison helpers


def _bad(got, want, rtol=RTOL, atol=ATOL):
    return np.flatnonzero(~(np.abs(got - want) <= atol + rtol * np.abs(want)))


def _vec(name, x, l):
    """Library output -> complex vector of length 2l+1 (anything else is a Violation)."""
    a = arr(name, x, shape=(2 * l + 1,))
    require(a.dtype.kind in "fciu", lambda: f"{name}: non-numeric dtype {a.dtype}")
    a = a.astype(np.complex128)
    require(bool(np.all(np.isfinite(a))), lambda: f"{name}: non-finite entries {a!r:.300}")
    return a


def _compare(name, l, got, want, fails, oracle):
    for k in _bad(got, want):
        fails.append(f"{name}: m = {int(k) - l}: got {got[k]!r}, {oracle} says {want[k]!r} (|diff| = {abs(got[k] - want[k]):.3e})")


def _identities(name, l, got, fails):
    tot = float(np.sum(np.abs(got) ** 2))
    want = (2 * l + 1) / (4 * np.pi)
    # |d sum| <= sum 2 |Y| |dY| <= 2 (2l+1) max|Y| ATOL
    if not abs(tot - want) <= (2 * l + 1) * 2e-11 + 1e-10 * want:
        fails.append(f"{name}: sum_m |Y_lm|^2 = {tot!r}, must be (2l+1)/4pi = {want!r}")
    m = np.arange(-l, l + 1)
    mirror = ((-1.0) ** np.abs(m)) * np.conj(got[::-1])
    for k in _bad(got, mirror, rtol=2e-10, atol=1e-11):
        if k < l:
            fails.append(f"{name}: Y_(l,{int(k) - l}) = {got[k]!r} but (-1)^m conj Y_(l,{l - int(k)}) = {mirror[k]!r}")


def _spell(x, kind):
    if kind == "np.float64":
        return np.float64(x)
    if kind == "int":
        return int(x)
    if kind == "np.int64":
        return np.int64(int(x))
    return float(x)


def _args(case):
    """The two angles as the caller spells them (`rep`; committed replays of round 1 carry `np_scalar` instead)."""
    t, p = float(case["theta"]), float(case["phi"])
    rep = case.get("rep") or ("np.float64" if case.get("np_scalar") else "float")
    kt, kp = {"mixed-f/np": ("float", "np.float64"), "mixed-np/f": ("np.float64", "float")}.get(rep, (rep, rep))
    return _spell(t, kt), _spell(p, kp)


def _degree(case, l):
    return np.int64(l) if case.get("ltype") == "np.int64" else int(l)


def _call(case, name, fn, t, p, l=None):
    """One call of the code under test, positionally (static/boo.py) or with the documented keywords theta=, phi=
    (, l=) (docs/utils.md VI, tests).  A TypeError raised by the call binding itself (a renamed parameter) has no
    frame inside PyMatterSim, so it is turned into a Violation here instead of a harness error."""
    require(callable(fn), f"{name} is missing from utils.spherical_harmonics")
    try:
        if case.get("call") == "kw":
            return fn(theta=t, phi=p) if l is None else fn(l=l, theta=t, phi=p)
        return fn(t, p) if l is None else fn(l, t, p)
    except TypeError as e:
        if exception_from_cut(e):
            raise
        raise Violation(f"{name}: the documented call ({case.get('call', 'pos')}) is rejected: {e}")


class _Alive:
    """Results handed out earlier must stay what they were (EXTENSION_3 class 3; seeded C08-F returned a per-degree work
    array, so every later call of that degree rewrote the arrays handed out before).  Every returned object is kept
    together with a copy taken at return time (the copy is what was compared with the oracle); `recheck` compares
    all of them bit for bit at the end of the case.  Arrays the "caller" overwrote on purpose must still hold what
    the caller wrote."""

    def __init__(self):
        self.items = []

    def keep(self, name, out):
        if isinstance(out, np.ndarray):
            self.items.append([name, out, out.copy()])

    def caller_wrote(self, out):
        for it in self.items:
            if it[1] is out:
                it[2] = out.copy()

    def recheck(self, fails):
        for name, out, snap in self.items:
            same = out.shape == snap.shape and bool(np.all((out == snap) | ((out != out) & (snap != snap))))
            if not same:
                k = int(np.flatnonzero(~(out == snap))[0]) if out.shape == snap.shape else 0
                fails.append(f"{name}: the array returned by this call was changed by a LATER call (entry {k}: held "
                             f"{snap.ravel()[k]!r} at return / after the caller's own write, holds {out.ravel()[k]!r} now)")


def _offset(x, bases):
    return min(abs(x - b) for b in bases)


def _classes(case):
    t, p = float(case["theta"]), float(case["phi"])
    rep = case.get("rep") or ("np.float64" if case.get("np_scalar") else "float")
    tags = ["pole" if np.sin(t) < 1e-6 else ("equator" if abs(np.cos(t)) < 1e-6 else "generic-theta"),
            "phi<0" if p < 0 else ("phi=0" if p == 0 else "phi>0"),
            "rep-" + rep, "call-" + case.get("call", "pos"),
            "theta-north" if t < _PI / 2 else "theta-south"]
    if abs(abs(p) - _PI) < 1e-12:
        tags.append("phi=+-pi")
    if p == -_PI:
        tags.append("phi=-pi-exact")
    if p > _PI:
        tags.append("phi-in-(pi,2pi]")
    if t in (0.0, _PI):
        tags.append("pole-exact")
    for lab, d in (("pole", _offset(t, (0.0, _PI))), ("equator", _offset(t, (_PI / 2,))),
                   ("phi-axis", _offset(p, (-_PI, -_PI / 2, 0.0, _PI / 2, _PI, 1.5 * _PI, _2PI)))):
        if 0 < d <= 1e-8:
            tags.append(f"{lab}-offset-(0,1e-8]")        # inside numpy.isclose's window, not exact
        elif 1e-8 < d <= 1e-4:
            tags.append(f"{lab}-offset-(1e-8,1e-4]")
    return tags


def _finish(case, fails, ncomp, nbig, extra_tags=(), nontrivial=None):
    if fails:
        head = f"theta = {float(case['theta'])!r}, phi = {float(case['phi'])!r}: {len(fails)} disagreement(s)\n  "
        raise Violation(head + "\n  ".join(fails[:12]) + ("\n  ..." if len(fails) > 12 else ""))
    tags = _classes(case) + list(extra_tags)
    if "ltype" in case:
        tags.append("ltype-" + case["ltype"])
    if case.get("mp"):
        tags.append("mpmath-checked")
    nt = bool(2 * nbig >= ncomp) if nontrivial is None else bool(nontrivial)
    return {"nontrivial": nt, "tags": tags,
            "extra": {"components_compared": int(ncomp), "components_above_1e-3": int(nbig)}}


def _oracle_atol(l):
    """How closely the oracles must agree among themselves.  l <= 20: 2e-13 (observed 4e-15).  l = 21..60: the argument
    m*phi of e^{i m phi} carries a rounding error <= m |phi| eps/2 <= 60 * 2 pi * 1.1e-16 = 4e-14 (relative to
    |Y| <~ 3) in each implementation and the recurrence adds O(l) ulps: 1e-12 (observed 4e-14)."""
    return 2e-13 if l <= LMAX_ABOVE else 1e-12


def _reference_at(t, p, lmax, degrees, mp_degrees=()):
    ref = R.ylm_table(lmax, t, p)
    for l in degrees:
        m = np.arange(-l, l + 1)
        B = np.asarray(sph_harm_y(l, m, t, p), dtype=np.complex128)
        # the oracles must agree among themselves far below the tolerance given to the code under test
        if len(_bad(ref[l], B, rtol=1e-12, atol=_oracle_atol(l))):
            raise AssertionError(f"oracle A and scipy disagree at l={l}, theta={t!r}, phi={p!r}: {ref[l]} vs {B}")
        if l in mp_degrees:
            C = R.ylm_mp(l, t, p)
            if len(_bad(ref[l], C, rtol=1e-12, atol=_oracle_atol(l))):
                raise AssertionError(f"oracle A and mpmath disagree at l={l}, theta={t!r}, phi={p!r}")
    return ref


def _reference(case, lmax, degrees):
    """Oracle A for l = 0..lmax at the point, cross-checked against scipy (always) and mpmath (flagged cases)."""
    degrees = list(degrees)
    return _reference_at(float(case["theta"]), float(case["phi"]), lmax, degrees, degrees if case.get("mp") else ())


# ----------------------------------------------------------------------------- facets


def check_tables(case):
    """SphHarm1..SphHarm10 at one point: all 120 components against A and B (C on the subsample)."""
    fails = []
    ref = _reference(case, 10, range(1, 11))
    t, p = _args(case)
    ncomp = nbig = 0
    alive = _Alive()
    for l in range(1, 11):
        out = _call(case, f"SphHarm{l}", TABLES[l], t, p)
        alive.keep(f"SphHarm{l}", out)
        got = _vec(f"SphHarm{l}", out, l)
        n0 = len(fails)
        _compare(f"SphHarm{l}", l, got, ref[l], fails, "reference recurrence")
        if len(fails) == n0:  # (A and B agree to 2e-13, so B can only add something if A found nothing)
            m = np.arange(-l, l + 1)
            B = np.asarray(sph_harm_y(l, m, float(t), float(p)), dtype=np.complex128)
            _compare(f"SphHarm{l}", l, got, B, fails, "scipy.sph_harm_y")
        _identities(f"SphHarm{l}", l, got, fails)
        ncomp += 2 * l + 1
        nbig += int(np.sum(np.abs(ref[l]) > 1e-3))
    alive.recheck(fails)
    return _finish(case, fails, ncomp, nbig)


def _check_delegated(case, degrees, lmax, mp_degrees):
    fails = []
    ref = _reference_at(float(case["theta"]), float(case["phi"]), lmax, degrees, mp_degrees)
    t, p = _args(case)
    ncomp = nbig = 0
    alive = _Alive()
    for l in degrees:
        name = f"SphHarm_above(l={l})"
        out = _call(case, name, SH.SphHarm_above, t, p, l=_degree(case, l))
        alive.keep(name, out)
        got = _vec(name, out, l)
        _compare(name, l, got, ref[l], fails, "reference recurrence")
        _identities(name, l, got, fails)
        ncomp += 2 * l + 1
        nbig += int(np.sum(np.abs(ref[l]) > 1e-3))
    alive.recheck(fails)
    return fails, ncomp, nbig


def check_above(case):
    """SphHarm_above for l = 11..20 at one point against A (and C on the subsample)."""
    degrees = list(range(11, LMAX_ABOVE + 1))
    fails, ncomp, nbig = _check_delegated(case, degrees, LMAX_ABOVE, degrees if case.get("mp") else ())
    return _finish(case, fails, ncomp, nbig)


def check_above_high(case):
    """SphHarm_above for three degrees in 21..60, in any order (EXTENSION_2 class 4: anything sized
    for 'l up to 20' - an order buffer, a factorial table - is invisible below)."""
    degrees = [int(l) for l in case["degrees"]]
    fails, ncomp, nbig = _check_delegated(case, degrees, max(degrees), degrees[:1] if case.get("mp") else ())
    order = "ascending" if degrees == sorted(degrees) else "descending" if degrees == sorted(degrees, reverse=True) else "mixed"
    tags = [f"l-{10 * (l // 10)}s" for l in degrees] + ["order-" + order]
    tags += sorted({"l-odd" if l % 2 else "l-even" for l in degrees})
    return _finish(case, fails, ncomp, nbig, extra_tags=sorted(set(tags)))


def check_dispatch(case):
    """sph_harm_l(l, theta, phi) is Y_l. (l = 1..20), and the very table / delegate of that degree."""
    l = int(case["l"])
    fails = []
    ref = _reference(case, l, [l])
    t, p = _args(case)
    alive = _Alive()
    out = _call(case, "sph_harm_l", SH.sph_harm_l, t, p, l=_degree(case, l))
    alive.keep(f"sph_harm_l(l={l})", out)
    got = _vec(f"sph_harm_l(l={l})", out, l)
    _compare(f"sph_harm_l(l={l})", l, got, ref[l], fails, "reference recurrence")
    # the table / delegate of the same degree, at the opposite azimuth first (a different result of the same degree
    # while `out` is still alive; phi -+ pi stays inside (-pi, pi]), then at the same point
    q = float(p) - _PI if float(p) > 0 else float(p) + _PI
    other = TABLES[l](t, q) if l <= 10 else SH.SphHarm_above(l, t, q)
    alive.keep(f"direct call of degree {l} at phi = {q!r}", other)
    direct = TABLES[l](t, p) if l <= 10 else SH.SphHarm_above(l, t, p)
    alive.keep(f"direct call of degree {l}", direct)
    direct = _vec(f"SphHarm{l}" if l <= 10 else f"SphHarm_above(l={l})", direct, l)
    for k in _bad(got, direct, rtol=1e-13, atol=1e-15):
        fails.append(f"sph_harm_l(l={l}) differs from the table of degree {l} at m = {int(k) - l}: {got[k]!r} vs {direct[k]!r}")
    alive.recheck(fails)
    nbig = int(np.sum(np.abs(ref[l]) > 1e-3))
    return _finish(case, fails, 2 * l + 1, nbig, extra_tags=[f"l={l:02d}", "l-odd" if l % 2 else "l-even"])


# ----------------------------------------------------------------------------- call histories in one process
#
# Every other facet evaluates one point per case with arguments it never looks at again.  Real use (static/boo.py) is a
# long loop over bonds in one process: the same degree again and again, nearly identical angles (crystals), degrees in
# any order.  A memo keyed on rounded angles, a cached result array handed out twice, a grow-only order buffer
# (seeded C08-B) are all exact for a single call.  A history is 3..8 calls; every result is compared with the oracle for
# the arguments of THAT call, and some results are overwritten in place by the "caller" before the next call.

_NEAR_EXP = st.integers(70, 120)   # offsets 1e-7 .. 1e-12


@st.composite
def history_st(draw, nsteps=(3, 8), lmax=24, pool_size=3):
    base = draw(point_st())
    if base["rep"] in ("int", "np.int64"):
        base["rep"] = "float"
    pool = draw(st.lists(st.integers(1, lmax), min_size=1, max_size=pool_size, unique=True))
    points = [(base["theta"], base["phi"])]
    steps = []
    for _ in range(draw(st.integers(*nsteps))):
        how = draw(st.sampled_from(["same", "same", "near-theta", "near-phi", "other"]))
        t0, p0 = points[draw(st.integers(0, len(points) - 1))]
        if how == "near-theta":
            d = draw(st.sampled_from([-1.0, 1.0])) * 10.0 ** (-draw(_NEAR_EXP) / 10.0)
            t, p = float(min(max(t0 + d, 0.0), _PI)), p0
        elif how == "near-phi":
            d = draw(st.sampled_from([-1.0, 1.0])) * 10.0 ** (-draw(_NEAR_EXP) / 10.0)
            t, p = t0, float(min(max(p0 + d, -_PI), _2PI))
        elif how == "other":
            t, p = draw(theta_st), draw(phi_st)
        else:
            t, p = t0, p0
        points.append((t, p))
        steps.append({"theta": t, "phi": p, "how": how, "l": draw(st.sampled_from(pool)),
                      "fn": draw(st.sampled_from(["dispatch", "dispatch", "direct"])),
                      "rep": draw(st.sampled_from(["float", "np.float64"])),
                      "after": draw(st.sampled_from(["keep", "keep", "scribble"]))})
    base["steps"] = steps
    return base


def check_history(case):
    fails, seen, tags = [], [], set()
    ncomp = nbig = 0
    repeated = False
    alive = _Alive()
    for k, stp in enumerate(case["steps"]):
        l, t, p = int(stp["l"]), float(stp["theta"]), float(stp["phi"])
        pt = {"theta": t, "phi": p, "rep": stp["rep"], "call": case.get("call", "pos")}
        ref = _reference_at(t, p, l, [l])
        a, b = _args(pt)
        if stp["fn"] == "dispatch":
            name, out = f"step {k}: sph_harm_l(l={l})", _call(pt, "sph_harm_l", SH.sph_harm_l, a, b, l=l)
        elif l <= 10:
            name, out = f"step {k}: SphHarm{l}", _call(pt, f"SphHarm{l}", TABLES[l], a, b)
        else:
            name, out = f"step {k}: SphHarm_above(l={l})", _call(pt, "SphHarm_above", SH.SphHarm_above, a, b, l=l)
        name += f" at theta = {t!r}, phi = {p!r} after {len(seen)} earlier call(s)"
        alive.keep(name, out)
        got = _vec(name, out, l)
        _compare(name, l, got, ref[l], fails, "reference recurrence")
        _identities(name, l, got, fails)
        for (l0, t0, p0, scribbled) in seen:
            if l0 != l:
                continue
            dist = max(abs(t0 - t), abs(p0 - p))
            if dist == 0:
                tags.add("repeat-exact")
                repeated = True
                if scribbled:
                    tags.add("repeat-after-caller-overwrote-result")
            elif dist <= 1e-8:
                tags.add("repeat-near-(0,1e-8]")
                repeated = True
            elif dist <= 1e-6:
                tags.add("repeat-near-(1e-8,1e-6]")
            if dist > 0:
                tags.add("same-degree-other-angles-while-earlier-result-alive")
        if any(l0 > l > 10 for (l0, _, _, _) in seen):
            tags.add("delegated-degree-after-a-larger-one")
        scribbled = False
        if stp["after"] == "scribble" and isinstance(out, np.ndarray) and out.flags.writeable and out.size:
            out[...] = 7.0          # what `y = sph_harm_l(..); y *= w; y += ..` does to the returned array
            alive.caller_wrote(out)
            scribbled = True
        seen.append((l, t, p, scribbled))
        ncomp += 2 * l + 1
        nbig += int(np.sum(np.abs(ref[l]) > 1e-3))
    alive.recheck(fails)
    ns = len(case["steps"])
    tags.add(f"steps-{ns}" if ns <= 8 else f"steps-{10 * (ns // 10)}s")
    tags.add("degrees-%d" % len({s["l"] for s in case["steps"]}))
    return _finish(case, fails, ncomp, nbig, extra_tags=sorted(tags), nontrivial=repeated and 2 * nbig >= ncomp)


def describe_history(case):
    d = describe(case)
    d["steps"] = [(s["fn"], int(s["l"]), float(s["theta"]), float(s["phi"]), s["rep"], s["after"]) for s in case["steps"]]
    return d


# structured complement: 41 x 41 grid.  Every table entry is a polynomial of degree <= 10 in (sin theta, cos theta)
# times e^{i m phi}; two such functions that agree on >= 21 distinct theta in [0, pi] and >= 21 distinct phi are
# identical, so agreement on the grid bounds every coefficient (the generated facets do not rely on this shape).
NGRID = 41


def _grid_point(k, j):
    theta = min(k * _PI / (NGRID - 1), _PI)
    phi = min(-_PI + 2.0 * _PI * (j + 1) / NGRID, _PI)  # (-pi, pi], last point = pi
    return theta, phi


_GRID_REF = {}


def _grid_reference():
    """Oracle A on the whole grid at once (vectorised), cross-checked against scipy everywhere and mpmath on 18 points."""
    if not _GRID_REF:
        kk, jj = np.meshgrid(np.arange(NGRID), np.arange(NGRID), indexing="ij")
        TH = np.array([[_grid_point(k, j)[0] for j in range(NGRID)] for k in range(NGRID)])
        PH = np.array([[_grid_point(k, j)[1] for j in range(NGRID)] for k in range(NGRID)])
        ref = R.ylm_table(LMAX_ABOVE, TH, PH)
        for l in range(LMAX_ABOVE + 1):
            m = np.arange(-l, l + 1)
            B = sph_harm_y(l, m[None, None, :], TH[:, :, None], PH[:, :, None])
            if not np.all(np.abs(B - ref[l]) <= 2e-13 + 1e-12 * np.abs(B)):
                raise AssertionError(f"oracle A and scipy disagree on the grid at l={l}")
            for k, j in zip(kk.ravel(), jj.ravel()):
                if (k * NGRID + j) % 97 == 0:
                    C = R.ylm_mp(l, TH[k, j], PH[k, j])
                    if not np.all(np.abs(C - ref[l][k, j]) <= 2e-13 + 1e-12 * np.abs(C)):
                        raise AssertionError(f"oracle A and mpmath disagree on the grid at l={l}, k={k}, j={j}")
        _GRID_REF.update(ref)
    return _GRID_REF


def _check_grid_point(case):
    k, j = case["k"], case["j"]
    theta, phi = _grid_point(k, j)
    pt = {"theta": theta, "phi": phi, "np_scalar": bool((k + j) % 2), "mp": (k * NGRID + j) % 97 == 0}
    fails = []
    gref = _grid_reference()
    ref = {l: gref[l][k, j] for l in gref}
    t, p = _args(pt)
    ncomp = nbig = 0
    if k == 0 and j == 0:
        y00 = arr("SphHarm0()", SH.SphHarm0(), shape=())
        if not abs(complex(y00) - ref[0][0]) <= ATOL:
            fails.append(f"SphHarm0() = {y00!r}, Y_00 = {ref[0][0]!r}")
    for l in range(1, LMAX_ABOVE + 1):
        if l <= 10:
            name = f"SphHarm{l}"
            got = _vec(name, TABLES[l](t, p), l)
            # the dispatcher for the delegated degrees is covered by the `dispatch` facet (each call costs 21-41 scipy calls)
            d = _vec(f"sph_harm_l(l={l})", SH.sph_harm_l(l, t, p), l)
            _compare(f"sph_harm_l(l={l})", l, d, ref[l], fails, "reference recurrence")
        else:
            name = f"SphHarm_above(l={l})"
            got = _vec(name, SH.SphHarm_above(l, t, p), l)
        _compare(name, l, got, ref[l], fails, "reference recurrence")
        _identities(name, l, got, fails)
        ncomp += 2 * l + 1
        nbig += int(np.sum(np.abs(ref[l]) > 1e-3))
    return _finish(pt, fails, ncomp, nbig, extra_tags=["grid"])


def grid_enum(tier):
    for k in range(NGRID):
        for j in range(NGRID):
            case = {"k": k, "j": j}
            try:
                info = _check_grid_point(case)
            except Violation as v:
                v.case = case
                raise
            except Exception as e:  # noqa: BLE001  (exceptions from the code under test are classified by the harness)
                e.case = case
                raise
            yield case, info


def describe(case):
    d = {"theta": float(case["theta"]), "phi": float(case["phi"]),
         "scalar": case.get("rep") or ("np.float64" if case.get("np_scalar") else "float"), "call": case.get("call", "pos")}
    if "l" in case:
        d["l"] = int(case["l"])
    if "ltype" in case:
        d["ltype"] = case["ltype"]
    if "degrees" in case:
        d["degrees"] = [int(x) for x in case["degrees"]]
    return d


def describe_grid(case):
    t, p = _grid_point(case["k"], case["j"])
    return {"k": case["k"], "j": case["j"], "theta": t, "phi": p}


_grid = Facet("grid41", check=grid_enum, exhaustive=True, describe=describe_grid,
              rule="41 x 41 grid theta_k = k pi/40, phi_j = -pi + 2 pi (j+1)/41: SphHarm0, all tables, SphHarm_above "
                   "l = 11..20 and the dispatcher l = 1..10 at every grid point (finite enumeration of the grid, "
                   "not of the continuum)")
_grid.replay = _check_grid_point

FACETS = [
    Facet("tables", point_st(), check_tables, quick=3000, thorough=400000, describe=describe, shards_quick=3,
          rule="closed forms l = 1..10, all 120 components per point vs recurrence reference and scipy; Unsoeld sum; "
               "m <-> -m symmetry; non-trivial as in RULE"),
    Facet("above", point_st(), check_above, quick=900, thorough=60000, describe=describe, shards_quick=3,
          rule="delegated branch l = 11..20, all components per point vs recurrence reference; Unsoeld; symmetry"),
    Facet("dispatch", point_st(with_l=(1, 20)), check_dispatch, quick=3000, thorough=300000, describe=describe,
          shards_quick=2, rule="sph_harm_l(l) for l = 1..20 is Y_l and equals the table of degree l"),
    Facet("above_high", point_st(high=True), check_above_high, quick=150, thorough=12000, describe=describe,
          rule="delegated branch, three degrees from 21..60 per point (any order), python int or "
               "numpy.int64 degree, vs recurrence reference (scipy always, mpmath on the subsample); Unsoeld; symmetry"),
    Facet("history", history_st(), check_history, quick=700, thorough=60000, describe=describe_history, shards_quick=2,
          rule="3..8 calls in one case (dispatcher / table / delegate, 1-3 degrees from 1..24 in any order, the same "
               "angles again, angles 1e-12..1e-7 away, other angles; some returned arrays overwritten in place by "
               "the caller before the next call); every result vs the oracle for the arguments of that call; "
               "non-trivial = some call repeats an earlier (degree, angles) exactly or within 1e-8, and >= half of "
               "the components exceed 1e-3"),
    Facet("history_long", history_st(nsteps=(12, 40), lmax=40, pool_size=6), check_history, quick=0, thorough=6000,
          describe=describe_history,
          rule="thorough tier only: histories of 12..40 calls over up to 6 degrees from 1..40; oracle as in `history`"),
    _grid,
]

MANIFEST = {
    "text": ("Generated search over the angle continuum plus a structured 41x41 grid: every closed-form entry of "
             "SphHarm1..SphHarm10 (120 components), the scipy-delegated branch SphHarm_above for l = 11..20 and the "
             "dispatcher sph_harm_l for l = 1..20 equal the orthonormal Condon-Shortley Y_lm(polar theta, azimuth phi) "
             "in the order m = -l..l to 5e-12 + 1e-10 relative, including poles, equator, phi = 0, +-pi/2, +-pi, negative "
             "phi, the documented upper half (pi, 2 pi], offsets 1e-14..1e-2 from all of these, python / numpy floats "
             "and whole numbers, positional and keyword calls, numpy integer degrees; the delegated branch also for three "
             "degrees from 21..60 per point; call histories (3..8 calls in one process: repeated and neighbouring angles, "
             "degrees in any order, returned arrays overwritten by the caller) with every result compared for its own "
             "arguments and all results of a case re-compared bit for bit with copies taken at return; the Unsoeld sum and Y_(l,-m) = (-1)^m conj Y_lm are asserted on the library output. Facets: "
             "tables, above, dispatch, above_high, history, history_long (thorough tier only: 12..40 calls, l <= 40), "
             "grid41 (finite grid enumeration). An import failure of "
             "utils.spherical_harmonics is reported as a violation."),
    "note": ("Exploration, not proof: equality 'identically in both angles' is sampled (thousands of points per run) and "
             "bounded on a 41x41 grid that determines trigonometric polynomials of degree <= 20 in each angle. "
             "Trusted base: the independent recurrence reference pbt/ref/ylm.py, cross-checked in every case against "
             "scipy.special.sph_harm_y and on ~4 % of cases against mpmath.spherharm at 30 digits. l > 60, float32 scalars "
             "and array arguments are not explored."),
    "technique": ("property-based testing (Hypothesis): reference-model differential (independent recurrence "
                  "implementation, scipy and mpmath as second/third opinions) plus algebraic identities (Unsoeld sum, "
                  "conjugation symmetry) and a finite grid enumeration as structured complement"),
}
