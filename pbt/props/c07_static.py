"""C07 facets for the pair / density observables: g(r), S(q), neighbour lists, pair entropy S2 and the repository's
sample trajectories.  Oracle everywhere: O(T x) = T' O(x) (metamorphic); pbt/ref/geom is used only to locate decision
boundaries (bin edges, cut-offs, k-th neighbour gaps, half-cell ties)."""
from __future__ import annotations

import functools
import itertools
import os

import numpy as np
from hypothesis import strategies as st

from .. import gen
from ..gen import cell_st, fl, nice_float
from ..harness import REPO, Violation
from ..ref import geom
from ..util import arr, col, columns, require
from . import c07_common as C
from .c07_common import EPS, apply_tf, close_tol, config_st, dense, inv_perm, tf_st, tf_tags

from PyMatterSim.neighbors.calculate_neighbors import Nnearests, cutoffneighbors, cutoffneighbors_particletype
from PyMatterSim.static.gr import gr
from PyMatterSim.static.pairentropy import S2
from PyMatterSim.static.sq import sq

# ============================================================================= partial-column bookkeeping


def partial_names(prefix, K):
    """Column names of the K-species tables (K <= 5): total, then aa, then ab (a < b)."""
    if K == 1:
        return [prefix], {}
    names = [prefix]
    key = {}
    for a in range(1, K + 1):
        names.append(f"{prefix}{a}{a}")
        key[(a, a)] = names[-1]
    for a in range(1, K + 1):
        for b in range(a + 1, K + 1):
            names.append(f"{prefix}{a}{b}")
            key[(a, b)] = names[-1]
    return names, key


def swapped_name(prefix, name, sigma):
    """Name of the column of the label-swapped system that holds what `name` holds in the original."""
    if name == prefix:
        return name
    a, b = int(name[len(prefix)]), int(name[len(prefix) + 1])
    a2, b2 = sorted((int(sigma[a - 1]), int(sigma[b - 1])))
    return f"{prefix}{a2}{b2}"


# ============================================================================= g(r)


@st.composite
def gr_case(draw):
    allowed = ["translate", "lattice", "perm", "swap", "axes", "dilate"]
    want = draw(C.pick(allowed))
    d = draw(C.pick([2, 3]))
    K = draw(C.pick([2, 2, 3, 3, 4, 5] + ([] if want == "swap" else [1, 1])))
    N = draw(st.integers(max(3, K), 16))
    cell = draw(cell_st(d, "ortho" if want == "axes" else "any", lmin=2.0, lmax=20.0, origin="any"))
    case = draw(config_st(d, N, cell, K=K, frames=(1, 2), ppp=draw(C.ppp_for(d, want))))
    nb = draw(st.integers(4, 30))
    frac = draw(fl(0.15, 0.85))
    Lmin = float(np.diag(cell["H"]).min())
    case["rdelta"] = Lmin / 2.0 / (nb + frac)
    case["nb"] = nb
    case["tf"] = draw(tf_st(allowed, N=N, K=K, d=d, F=len(case["pos"]), ortho=cell["kind"] == "ortho", ppp=case["ppp"],
                            first=want))
    return case


def run_gr(name, c, rdelta, nb):
    K = c["K"]
    snaps = gen.snapshots_from(c)
    df = gr(snaps, ppp=np.array(c["ppp"]), rdelta=rdelta).getresults()
    names = partial_names("gr", K)[0]
    columns(name, df, ["r"] + names)
    out = {n: arr(f"{name}[{n}]", col(name, df, n), ndim=1).astype(float) for n in ["r"] + names}
    require(len({len(v) for v in out.values()}) == 1, f"{name}: ragged table")
    return out


def gr_ambiguous_bins(c, rdelta, nb):
    """bins whose count is not decided: a pair of that class lies within EPS (relative) of one of the bin's edges.
    Returns dict column -> bool[nb].  A half-cell image tie in a non-orthogonal cell (the two images have different
    lengths) leaves every bin undecided."""
    K = c["K"]
    names, key = partial_names("gr", K)
    amb = {n: np.zeros(nb, dtype=bool) for n in names}
    H, ppp, types = c["cell"]["H"], c["ppp"], np.asarray(c["types"])
    ortho = c["cell"]["kind"] == "ortho"
    for pos in c["pos"]:
        N = len(pos)
        for i in range(N - 1):
            v, tie = geom.min_image(pos[i + 1:] - pos[i], H, ppp)
            if not ortho and tie.any():
                return {n: np.ones(nb, dtype=bool) for n in names}
            dist = np.sqrt((v * v).sum(axis=1))
            x = dist / rdelta
            k = np.rint(x)
            near = (np.abs(x - k) <= EPS * np.maximum(x, 1.0)) & (k <= nb)
            if not near.any():
                continue
            for kk, tj in zip(k[near].astype(int), types[i + 1:][near]):
                cols = [names[0]]
                if K > 1:
                    a, b = sorted((int(types[i]), int(tj)))
                    cols.append(key[(a, b)])
                for cn in cols:
                    if kk < nb:
                        amb[cn][kk] = True
                    if kk >= 1:
                        amb[cn][kk - 1] = True
    return amb


def compare_gr(o0, o1, amb, K, sigma, s):
    names = partial_names("gr", K)[0]
    require(len(o1["r"]) == len(o0["r"]), lambda: f"g(r): {len(o1['r'])} bins for the transformed system, "
            f"{len(o0['r'])} for the original")
    close_tol("g(r): r column", o1["r"], s * o0["r"], atol=0.0, rtol=1e-9)
    nskip = 0
    for n in names:
        n1 = swapped_name("gr", n, sigma)
        ok = ~amb[n]
        nskip += int((~ok).sum())
        if ok.any():
            scale = max(1.0, float(np.abs(o0[n][ok]).max()))
            close_tol(f"g(r): column {n1} of the transformed system vs column {n} of the original (bins "
                      f"{np.nonzero(ok)[0].tolist()[:4]}...)", o1[n1][ok], o0[n][ok], atol=1e-12 * scale, rtol=1e-9)
    return nskip


def check_gr(case):
    tf = case["tf"]
    tags = [f"d{case['d']}", case["cell"]["kind"], f"K{case['K']}", f"frames{len(case['pos'])}",
            "mask-full" if np.all(case["ppp"]) else ("mask-open" if not np.any(case["ppp"]) else "mask-partial"),
            "outside" if case["outside"] else "inside", case["kind"].split("+")[0].split(":")[0]] + tf_tags(tf)
    if C.tri_tie(case):
        return {"nontrivial": False, "tags": tags + ["skip-tri-tie"]}
    new = apply_tf(case, tf)
    o0 = run_gr("gr(original)", case, case["rdelta"], case["nb"])
    o1 = run_gr("gr(transformed)", new, case["rdelta"] * tf["s"], case["nb"])
    amb = gr_ambiguous_bins(case, case["rdelta"], len(o0["r"]))
    nskip = compare_gr(o0, o1, amb, case["K"], tf["sigma"], tf["s"])
    if nskip:
        tags.append("has-ambiguous-bins")
    return {"nontrivial": C.nondegenerate(o0["gr"]), "tags": tags, "extra": {"ambiguous_bins_not_asserted": nskip}}


# ============================================================================= S(q)


@st.composite
def sq_case(draw):
    allowed = ["translate", "lattice", "perm", "swap", "axes"]
    want = draw(C.pick(allowed))
    d = draw(C.pick([2, 3]))
    K = draw(C.pick([2, 2, 3, 3, 4, 5] + ([] if want == "swap" else [1, 1])))
    N = draw(st.integers(max(2, K), 20))
    cell = draw(cell_st(d, "ortho", lmin=2.0, lmax=20.0, origin="any"))
    if draw(st.integers(0, 4)) == 0:   # equal edges: axis permutations become pure relabellings of the q set
        cell["H"] = np.eye(d) * cell["H"][0, 0]
    case = draw(config_st(d, N, cell, K=K, frames=(1, 2), ppp=np.ones(d, dtype=int)))
    qmode = draw(C.pick(["explicit", "explicit", "range"]))
    case["qmode"] = qmode
    L = np.diag(cell["H"])
    if qmode == "explicit":
        nq = draw(st.integers(2, 24))
        qv = draw(st.lists(st.tuples(*[st.integers(-5, 5)] * d).filter(lambda v: any(v)), min_size=nq, max_size=nq,
                           unique=True))
        case["qvector"] = np.array(qv, dtype=np.int64)
    else:
        nq = draw(st.integers(2, 7 if d == 3 else 12))
        case["qrange"] = (nq + 0.5) * float((2 * np.pi / L).min()) / 2.0
        case["numofq"] = nq
        case["onlypositive"] = draw(st.booleans())
    case["tf"] = draw(tf_st(allowed, N=N, K=K, d=d, F=len(case["pos"]), ortho=True, ppp=case["ppp"], first=want))
    return case


def run_sq(name, c, qvector):
    snaps = gen.snapshots_from(c)
    if c["qmode"] == "explicit":
        obj = sq(snaps, qvector=np.array(qvector))
    else:
        obj = sq(snaps, qrange=c["qrange"], onlypositive=c["onlypositive"])
    df = obj.getresults()
    names = partial_names("Sq", c["K"])[0]
    columns(name, df, ["q"] + names)
    out = {n: arr(f"{name}[{n}]", col(name, df, n), ndim=1).astype(float) for n in ["q"] + names}
    nrows = len(out["q"])
    for n in names:
        require(len(out[n]) == nrows, f"{name}: ragged table")
    return out


def rounding_ambiguous(qint, L):
    """some |q| is so close to a 6-decimal rounding boundary that re-ordering the sum of squares could regroup it"""
    q = np.linalg.norm(qint.astype(float) * (2 * np.pi / np.asarray(L, dtype=float))[None, :], axis=1)
    y = q * 1e6
    return bool(np.any(np.abs((y - np.floor(y)) - 0.5) < 1e-3))


def check_sq(case):
    tf = case["tf"]
    d = case["d"]
    L = np.diag(case["cell"]["H"])
    tags = [f"d{d}", f"K{case['K']}", f"frames{len(case['pos'])}", "q-" + case["qmode"],
            "edges-equal" if np.ptp(L) == 0 else "edges-unequal", "outside" if case["outside"] else "inside"] + tf_tags(tf)
    new = apply_tf(case, tf)
    qv0 = case.get("qvector")
    qv1 = None
    if tf["axes"] is not None:
        ax = list(tf["axes"])
        if case["qmode"] == "explicit":
            qv1 = qv0[:, ax]
            probe = qv0
        else:
            nh = int(case["numofq"] / 2)
            probe = np.array(list(itertools.product(range(-nh, nh + 1), repeat=d)), dtype=np.int64)
        if rounding_ambiguous(probe, L) or rounding_ambiguous(probe[:, ax], L[ax]):
            return {"nontrivial": False, "tags": tags + ["skip-q-rounding-ambiguous"]}
    elif qv0 is not None:
        qv1 = qv0
    o0 = run_sq("sq(original)", case, qv0)
    o1 = run_sq("sq(transformed)", new, qv1)
    require(len(o0["q"]) == len(o1["q"]), lambda: f"S(q): {len(o1['q'])} distinct |q| rows for the transformed system, "
            f"{len(o0['q'])} for the original")
    close_tol("S(q): q column", o1["q"], o0["q"], atol=1.1e-6, rtol=1e-12)
    names = partial_names("Sq", case["K"])[0]
    for n in names:
        n1 = swapped_name("Sq", n, tf["sigma"])
        close_tol(f"S(q): column {n1} of the transformed system vs column {n} of the original", o1[n1], o0[n],
                  atol=2.1e-6, rtol=1e-9)
    return {"nontrivial": C.nondegenerate(o0["Sq"]) and len(o0["q"]) >= 2, "tags": tags,
            "extra": {"q_rows": len(o0["q"])}}


# ============================================================================= neighbour lists


@st.composite
def neigh_case(draw):
    d = draw(C.pick([2, 3]))
    mode = draw(C.pick(["nn", "nn", "cutoff", "cutoff_type"]))
    allowed = ["translate", "lattice", "perm", "axes"] + (["swap"] if mode == "cutoff_type" else [])
    want = draw(C.pick(allowed))
    K = (draw(st.integers(2, 3)) if want == "swap" else draw(st.integers(1, 3))) if mode == "cutoff_type" else 1
    N = draw(st.integers(max(3, K), 20))
    cell = draw(cell_st(d, "ortho" if want == "axes" else "any", lmin=2.0, lmax=20.0, origin="any"))
    case = draw(config_st(d, N, cell, K=K, frames=(1, 2), ppp=draw(C.ppp_for(d, want))))
    case["mode"] = mode
    Lmin = float(np.diag(cell["H"]).min())
    if mode == "nn":
        case["k"] = draw(st.integers(1, min(N - 1, 8)))
    elif mode == "cutoff":
        case["rcut"] = draw(fl(0.25, 0.98)) * Lmin / 2.0
    else:
        rc = draw(dense((K, K), fl(0.25, 0.98))) * Lmin / 2.0
        if draw(st.booleans()):
            rc = np.triu(rc) + np.triu(rc, 1).T
        case["rcut"] = rc
    case["tf"] = draw(tf_st(allowed, N=N, K=K, d=d, F=len(case["pos"]), ortho=cell["kind"] == "ortho", ppp=case["ppp"],
                            first=want))
    return case


def swap_matrix(m, sigma):
    """m'[sigma(a), sigma(b)] = m[a, b]  (0-based storage of 1-based labels)"""
    s = np.asarray(sigma, dtype=int) - 1
    out = np.empty_like(m)
    out[np.ix_(s, s)] = m
    return out


def run_neigh(name, c, mode, k=None, rcut=None, fn="nl.dat"):
    snaps = gen.snapshots_from(c)
    if os.path.exists(fn):
        os.remove(fn)
    ppp = np.array(c["ppp"])
    if mode == "nn":
        Nnearests(snaps, N=int(k), ppp=ppp, fnfile=fn)
    elif mode == "cutoff":
        cutoffneighbors(snaps, r_cut=float(rcut), ppp=ppp, fnfile=fn)
    else:
        cutoffneighbors_particletype(snaps, r_cut=np.array(rcut), ppp=ppp, fnfile=fn)
    return C.parse_neighbor_file(name, fn, len(c["types"]), len(c["pos"]))


def compare_lists(case, tf, l0, l1, mode, k=None, rcut=None):
    """Position-wise comparison by distance: both lists are sorted by distance, so entry p of either list must lie at
    the same distance (within the boundary width) from the centre; only entries tied in distance may differ.  For the
    cut-off modes the lists may differ in length by entries that sit on the cut-off."""
    H, ppp = case["cell"]["H"], case["ppp"]
    Lmax = float(np.abs(np.diag(H)).max())
    ortho = case["cell"]["kind"] == "ortho"
    inv = inv_perm(tf["perm"])
    perm = np.asarray(tf["perm"], dtype=int)
    types = np.asarray(case["types"])
    swapped = 0
    for f, pos in enumerate(case["pos"]):
        for i in range(len(pos)):
            a = list(l0[f][i])
            b = [int(inv[j]) for j in l1[f][int(perm[i])]]
            for nm, lst in (("original", a), ("transformed", b)):
                require(i not in lst, lambda: f"neighbour list ({nm}) of particle {i + 1} frame {f} contains itself")
                require(len(set(lst)) == len(lst), lambda: f"neighbour list ({nm}) of particle {i + 1} frame {f} has duplicates: {lst}")
            da, ta = C.mi_dist(pos, H, ppp, i, a) if a else (np.zeros(0), np.zeros(0, dtype=bool))
            db, tb = C.mi_dist(pos, H, ppp, i, b) if b else (np.zeros(0), np.zeros(0, dtype=bool))
            if not ortho and (ta.any() or tb.any()):
                continue        # half-cell tie in a tilted cell: the two images have different lengths
            m = min(len(a), len(b))
            tol = EPS * (np.maximum(da[:m], db[:m]) + Lmax)
            bad = np.abs(da[:m] - db[:m]) > tol
            if bad.any():
                p = int(np.nonzero(bad)[0][0])
                raise Violation(f"neighbour lists disagree: frame {f} particle {i + 1} (new id {perm[i] + 1}) entry {p}: "
                                f"original lists particle {a[p] + 1} at distance {da[p]!r}, transformed system lists "
                                f"(mapped back) particle {b[p] + 1} at distance {db[p]!r}; original {[j + 1 for j in a]}, "
                                f"transformed mapped back {[j + 1 for j in b]}")
            swapped += int(sum(x != y for x, y in zip(a[:m], b[:m])))
            if mode == "nn":
                require(len(a) == k and len(b) == k, lambda: f"Nnearests: particle {i + 1} lists {len(a)} / {len(b)} neighbours, asked {k}")
            elif len(a) != len(b):
                longer, dl = (a, da) if len(a) > len(b) else (b, db)
                for p in range(m, len(longer)):
                    j = longer[p]
                    rc = float(rcut) if mode == "cutoff" else float(rcut[types[i] - 1, types[j] - 1])
                    require(abs(dl[p] - rc) <= EPS * (rc + Lmax),
                            lambda: f"cut-off lists differ in length: frame {f} particle {i + 1}: original "
                            f"{[j + 1 for j in a]}, transformed mapped back {[j + 1 for j in b]}; extra particle "
                            f"{j + 1} at distance {dl[p]!r}, cut-off {rc!r}")
    return swapped


def check_neigh(case):
    tf = case["tf"]
    mode = case["mode"]
    tags = [f"d{case['d']}", case["cell"]["kind"], mode, f"frames{len(case['pos'])}",
            "mask-full" if np.all(case["ppp"]) else ("mask-open" if not np.any(case["ppp"]) else "mask-partial"),
            "outside" if case["outside"] else "inside", case["kind"].split("+")[0].split(":")[0]] + tf_tags(tf)
    if C.tri_tie(case):
        return {"nontrivial": False, "tags": tags + ["skip-tri-tie"]}
    if C.has_coincident(case):
        return {"nontrivial": False, "tags": tags + ["skip-coincident"]}
    new = apply_tf(case, tf)
    rc0 = case.get("rcut")
    rc1 = swap_matrix(rc0, tf["sigma"]) if mode == "cutoff_type" else rc0
    l0 = run_neigh("neighbours(original)", case, mode, case.get("k"), rc0, "nl0.dat")
    l1 = run_neigh("neighbours(transformed)", new, mode, case.get("k"), rc1, "nl1.dat")
    swapped = compare_lists(case, tf, l0, l1, mode, case.get("k"), rc0)
    cns = [len(v) for fr in l0 for v in fr.values()]
    nontrivial = bool(max(cns) >= 1 and (mode == "nn" or min(cns) < len(case["types"]) - 1))
    if swapped:
        tags.append("tied-entries-differ")
    return {"nontrivial": nontrivial, "tags": tags, "extra": {"entries_differing_within_ties": swapped}}


# ============================================================================= pair entropy S2


@st.composite
def s2_case(draw):
    allowed = ["translate", "lattice", "perm", "swap", "axes"]
    want = draw(C.pick(allowed))
    d = draw(C.pick([2, 3]))
    N = draw(st.integers(4, 18))
    K = draw(st.integers(2 if want == "swap" else 1, 3))
    rho = draw(st.sampled_from([0.6, 1.0, 2.0]))
    Lm = (N / rho) ** (1.0 / d)
    cell = draw(cell_st(d, "ortho" if want == "axes" else "any", lmin=0.75 * Lm, lmax=1.3 * Lm, origin="any"))
    case = draw(config_st(d, N, cell, K=K, frames=(1, 2), ppp=draw(C.ppp_for(d, want))))
    ndelta = draw(st.integers(10, 40))
    frac = draw(st.sampled_from([0.65, 0.8, 0.97]))
    rmax = frac * float(np.diag(cell["H"]).min()) / 2.0
    case["rdelta"] = rmax / (ndelta - 0.5)
    case["ndelta"] = ndelta
    case["rmax"] = rmax
    slo = max(0.05, rmax / 35.0)    # wide enough that the smeared g cannot underflow to 0 where a neighbour exists
    sig = draw(dense((K, K), nice_float(slo, max(0.3, 2 * slo))))
    if draw(st.booleans()):
        sig = np.triu(sig) + np.triu(sig, 1).T
    case["sigmas"] = sig
    case["tf"] = draw(tf_st(allowed, N=N, K=K, d=d, F=len(case["pos"]), ortho=cell["kind"] == "ortho", ppp=case["ppp"],
                            first=want))
    return case


def run_s2(name, c, sigmas, rdelta, ndelta):
    snaps = gen.snapshots_from(c)
    with np.errstate(all="ignore"):
        out = S2(snaps, sigmas=np.array(sigmas), ppp=np.array(c["ppp"]), rdelta=rdelta, ndelta=ndelta).particle_s2()
    return arr(name, out, shape=(len(c["pos"]), len(c["types"]))).astype(float)


def check_s2(case):
    tf = case["tf"]
    F, N = len(case["pos"]), len(case["types"])
    tags = [f"d{case['d']}", case["cell"]["kind"], f"K{case['K']}", f"frames{F}",
            "mask-full" if np.all(case["ppp"]) else ("mask-open" if not np.any(case["ppp"]) else "mask-partial"),
            "sigma-sym" if np.array_equal(case["sigmas"], case["sigmas"].T) else "sigma-asym",
            "outside" if case["outside"] else "inside"] + tf_tags(tf)
    if C.tri_tie(case):
        return {"nontrivial": False, "tags": tags + ["skip-tri-tie"]}
    if C.has_coincident(case):
        return {"nontrivial": False, "tags": tags + ["skip-coincident"]}
    new = apply_tf(case, tf)
    s0 = run_s2("S2(original)", case, case["sigmas"], case["rdelta"], case["ndelta"])
    s1 = run_s2("S2(transformed)", new, swap_matrix(case["sigmas"], tf["sigma"]), case["rdelta"], case["ndelta"])
    # particles with a pair on the r_max limit are not decided
    amb = np.zeros((F, N), dtype=bool)
    rich = False
    rmax = case["rmax"]
    for f in range(F):
        ii, jj, _, dist, _ = C.pair_info(case, f)
        near = np.abs(dist - rmax) <= EPS * 10 * rmax
        amb[f, ii[near]] = True
        rich = rich or bool(np.any(np.bincount(ii[dist < rmax], minlength=N) >= 2))
    inv = inv_perm(tf["perm"])
    want = s0[:, inv]          # particle a of the new system is particle inv[a] of the original
    ok = ~amb[:, inv]
    fin = np.isfinite(want[ok])
    scale = max(1.0, float(np.abs(want[ok][fin]).max())) if fin.any() else 1.0
    if ok.any():
        close_tol("S2 per particle (transformed vs original, mapped through the id permutation)", s1[ok], want[ok],
                  atol=1e-12 * scale, rtol=1e-8, equal_nan=True)
    if amb.any():
        tags.append("has-ambiguous")
    if np.isnan(s0).any():
        tags.append("has-nan")
    return {"nontrivial": bool(rich and C.nondegenerate(s0)), "tags": tags,
            "extra": {"particles_ambiguous": int(amb.sum()), "particles_asserted": int(ok.sum())}}


# ============================================================================= repository sample trajectories

SAMPLE_DIR_CANDIDATES = [os.path.join(REPO, "tests", "sample_test_data"), "/repo/tests/sample_test_data"]
# (file, ndim, weight in the draw); small files are listed more often so that the quick tier stays cheap
SMALL = [("unary.dump", 3), ("quarternary.dump", 3), ("IS.2DIPL.atom", 2), ("2d/2ddump.s.atom", 2), ("3d/3ddump.s.v.atom", 3)]
LARGE = [("dump_3D.atom", 3), ("2d_triclinic.atom", 2), ("ternary.dump", 3), ("dump_2D.atom", 2), ("binary_velocity.dump", 2)]
SAMPLES = SMALL + LARGE


def sample_dir():
    for p in SAMPLE_DIR_CANDIDATES:
        if os.path.isdir(p):
            return p
    raise AssertionError("sample_test_data not found")


@functools.lru_cache(maxsize=4)
def load_sample(fn, ndim):
    from PyMatterSim.reader.dump_reader import DumpReader
    r = DumpReader(os.path.join(sample_dir(), fn), ndim=ndim)
    r.read_onefile()
    s = r.snapshots.snapshots[0]
    H = np.array(s.hmatrix, dtype=float)
    kind = "ortho" if not np.any(H - np.diag(np.diag(H))) else "tri"
    lo = np.array(s.boxbounds, dtype=float)[:, 0]      # only used to rebuild the (unused) bounds
    types = np.array(s.particle_type, dtype=int)
    K = int(types.max())
    assert sorted(np.unique(types).tolist()) == list(range(1, K + 1))
    return {"d": ndim, "cell": {"d": ndim, "kind": kind, "H": H, "lo": lo, "origin": "file"},
            "pos": [np.array(s.positions, dtype=float)], "types": types, "ppp": np.ones(ndim, dtype=int), "K": K,
            "kind": "sample", "timesteps": [int(s.timestep)], "outside": False}


@st.composite
def sample_case(draw, large_gr=False):
    """large_gr=False: the <= 1000-particle files with every observable, the 6400..10000-particle files with S(q) and
    Nnearests (seconds).  large_gr=True: g(r) of the large files (20-40 CPU-s per case, N^2 pairs)."""
    if large_gr:
        fn, nd = draw(C.pick(LARGE))
        obs = "gr"
    else:
        fn, nd = draw(C.pick(SMALL + SMALL + LARGE))
        obs = draw(C.pick(["gr", "sq", "nn"] if (fn, nd) in SMALL else ["sq", "nn", "sq"]))
    kinds = [draw(C.pick(["translate", "lattice", "perm", "swap"]))]
    kinds += draw(st.lists(st.sampled_from(["translate", "lattice", "perm", "swap"]), min_size=0, max_size=2, unique=True))
    kinds = sorted(set(kinds))
    case = {"file": fn, "ndim": nd, "obs": obs, "kinds": sorted(kinds), "seed": draw(st.integers(0, 2 ** 32 - 1)),
            "tfrac": draw(dense((nd,), fl(-3.0, 3.0))), "nb": draw(st.integers(6, 25)), "binfrac": draw(fl(0.15, 0.85)),
            "k": draw(st.integers(1, 12))}
    nq = draw(st.integers(3, 10))
    case["qvector"] = np.array(draw(st.lists(st.tuples(*[st.integers(-4, 4)] * nd).filter(lambda v: any(v)),
                                             min_size=nq, max_size=nq, unique=True)), dtype=np.int64)
    return case


def sample_tf(case, base):
    """Bulk random numbers from numpy.random.default_rng(k), k drawn by Hypothesis (DESIGN 1.3)."""
    rng = np.random.default_rng(case["seed"])
    N, d, K = len(base["types"]), base["d"], base["K"]
    kinds = [k for k in case["kinds"] if not (k == "swap" and K < 2)] or ["translate"]
    tf = {"kinds": kinds, "R": None, "axes": None, "s": 1.0, "tfrac": np.zeros((1, d)), "n": np.zeros((1, N, d)),
          "perm": np.arange(N), "sigma": np.arange(1, K + 1), "movebox": False, "angle": 0.0}
    if "translate" in kinds:
        t = np.array(case["tfrac"], dtype=float)
        if np.abs(t).max() < 0.1:
            t[0] += 0.25
        tf["tfrac"] = t[None, :]
    if "lattice" in kinds:
        n = rng.integers(-2, 3, size=(1, N, d)).astype(float)
        if not n.any():
            n[0, 0, 0] = 1.0
        tf["n"] = n
    if "perm" in kinds:
        p = rng.permutation(N)
        if np.array_equal(p, np.arange(N)):
            p = np.roll(p, 1)
        tf["perm"] = p
    if "swap" in kinds:
        s_ = rng.permutation(np.arange(1, K + 1))
        if np.array_equal(s_, np.arange(1, K + 1)):
            s_[[0, 1]] = s_[[1, 0]]
        tf["sigma"] = s_
    return tf


def check_sample(case):
    base = load_sample(case["file"], case["ndim"])
    tf = sample_tf(case, base)
    new = apply_tf(base, tf)
    obs = case["obs"]
    N = len(base["types"])
    tags = [case["file"], obs, "N<=1000" if N <= 1000 else "N>1000", base["cell"]["kind"]] + tf_tags(tf)
    extra = {}
    if obs == "gr":
        Lmin = float(np.diag(base["cell"]["H"]).min())
        rdelta = Lmin / 2.0 / (case["nb"] + case["binfrac"])
        o0 = run_gr("gr(sample)", base, rdelta, case["nb"])
        o1 = run_gr("gr(sample, transformed)", new, rdelta, case["nb"])
        amb = gr_ambiguous_bins(base, rdelta, len(o0["r"]))
        extra["ambiguous_bins_not_asserted"] = compare_gr(o0, o1, amb, base["K"], tf["sigma"], 1.0)
        nontrivial = C.nondegenerate(o0["gr"])
    elif obs == "sq":
        if base["cell"]["kind"] != "ortho":
            return {"nontrivial": False, "tags": tags + ["skip-sq-triclinic"]}
        c0 = dict(base, qmode="explicit")
        c1 = dict(new, qmode="explicit")
        o0 = run_sq("sq(sample)", c0, case["qvector"])
        o1 = run_sq("sq(sample, transformed)", c1, case["qvector"])
        require(len(o0["q"]) == len(o1["q"]), "S(q): different number of |q| rows")
        close_tol("S(q) sample: q column", o1["q"], o0["q"], atol=1.1e-6, rtol=1e-12)
        for n in partial_names("Sq", base["K"])[0]:
            n1 = swapped_name("Sq", n, tf["sigma"])
            close_tol(f"S(q) sample: column {n1} (transformed) vs {n} (original)", o1[n1], o0[n], atol=2.1e-6, rtol=1e-9)
        nontrivial = C.nondegenerate(o0["Sq"])
    else:
        k = int(case["k"])
        l0 = run_neigh("Nnearests(sample)", base, "nn", k, None, "nl0.dat")
        l1 = run_neigh("Nnearests(sample, transformed)", new, "nn", k, None, "nl1.dat")
        extra["entries_differing_within_ties"] = compare_lists(base, tf, l0, l1, "nn", k)
        nontrivial = True
    return {"nontrivial": bool(nontrivial), "tags": tags, "extra": extra}


def describe_sample(case):
    return {k: (v.tolist() if isinstance(v, np.ndarray) else v) for k, v in case.items()}
