"""C07 facets for the pair / density observables: g(r), S(q), neighbour lists, pair entropy S2 and the repository's
sample trajectories.  Oracle everywhere: O(T x) = T' O(x) (metamorphic); pbt/ref/geom is used only to locate decision
boundaries (bin edges, cut-offs, k-th neighbour gaps, half-cell ties)."""
from __future__ import annotations

import functools
import itertools
import os

import numpy as np
from hypothesis import strategies as st

from .. import gen
from ..gen import cell_st, fl, nice_float
from ..harness import REPO, Violation
from ..ref import geom
from ..util import arr, col, columns, require
from . import c07_common as C
from .c07_common import EPS, apply_tf, close_tol, config_st, dense, inv_perm, tf_st, tf_tags

from PyMatterSim.neighbors.calculate_neighbors import Nnearests, cutoffneighbors, cutoffneighbors_particletype
from PyMatterSim.static.gr import gr
from PyMatterSim.static.pairentropy import S2
from PyMatterSim.static.sq import sq

# ============================================================================= partial-column bookkeeping


def partial_names(prefix, K):
    """Column names of the K-species tables: total, then aa, then ab (a < b); only the total for K = 1 and for K > 5
    (documented: 'only overall g(r) / S(q) calculated')."""
    if K == 1 or K > 5:
        return [prefix], {}
    names = [prefix]
    key = {}
    for a in range(1, K + 1):
        names.append(f"{prefix}{a}{a}")
        key[(a, a)] = names[-1]
    for a in range(1, K + 1):
        for b in range(a + 1, K + 1):
            names.append(f"{prefix}{a}{b}")
            key[(a, b)] = names[-1]
    return names, key


def swapped_name(prefix, name, sigma):
    """Name of the column of the label-swapped system that holds what `name` holds in the original."""
    if name == prefix:
        return name
    a, b = int(name[len(prefix)]), int(name[len(prefix) + 1])
    a2, b2 = sorted((int(sigma[a - 1]), int(sigma[b - 1])))
    return f"{prefix}{a2}{b2}"


def pick_cell(draw, d, lmin, lmax, kind="any"):
    """cell of any kind; one in five orthogonal cells gets integer-valued edges (int64 representation class)"""
    cell = draw(cell_st(d, kind, lmin=lmin, lmax=lmax, origin="any"))
    if C.chance(draw, 5):
        cell = C.integerise(cell)
    return cell


# ============================================================================= g(r)


@st.composite
def gr_case(draw, size="mixed"):
    allowed = ["translate", "lattice", "perm", "swap", "axes", "dilate", "rotate"]
    want = draw(C.pick(allowed))
    d = draw(C.pick([2, 3]))
    K = draw(C.pick([2, 2, 3, 3, 4, 5, 6] + ([] if want == "swap" else [1, 1])))
    N, bulk = draw(C.size_st((max(2, K), 16), size, share=12))
    if bulk and N > 133 and want != "swap":     # cost: the quinary selectors are evaluated for every centre particle
        K = min(K, 2)
    cell = pick_cell(draw, d, 2.0, 20.0)
    case = draw(C.any_config_st(d, N, bulk, cell, K, (1, 1) if bulk else (1, 2), draw(C.ppp_for(d, want))))
    nb = draw(C.pick(C.boundary_sizes(31, 260))) if C.chance(draw, 10) else draw(st.integers(4, 30))
    frac = draw(fl(0.15, 0.85))
    Lmin = float(np.diag(cell["H"]).min())
    case["rdelta"] = Lmin / 2.0 / (nb + frac)
    case["nb"] = nb
    case["obs"] = "gr"
    case["proto"] = draw(C.pick(C.PROTOCOLS))
    case["intcell"] = True
    case["tf"] = draw(tf_st(allowed, N=N, K=K, d=d, F=len(case["pos"]), ortho=cell["kind"] == "ortho", ppp=case["ppp"],
                            first=want, rng=np.random.default_rng(case["seed"] + 1) if bulk else None))
    return case


def parse_gr(name, df, K):
    names = partial_names("gr", K)[0]
    columns(name, df, ["r"] + names)
    out = {n: arr(f"{name}[{n}]", col(name, df, n), ndim=1).astype(float) for n in ["r"] + names}
    require(len({len(v) for v in out.values()}) == 1, f"{name}: ragged table")
    return out


def run_gr(name, c, rdelta, nb, snaps=None, side=0):
    K = c["K"]
    proto = c.get("proto", "fresh")
    snaps = gen.snapshots_from(c) if snaps is None else snaps
    kw = {}
    if proto == "outfile" and side == 1:
        kw["outputfile"] = "gr_out.csv"
    obj = gr(snaps, ppp=np.array(c["ppp"]), rdelta=rdelta, **kw)
    df = C.KEPT.add(name, obj.getresults())
    out = parse_gr(name, df, K)
    if kw:
        require(os.path.exists(kw["outputfile"]), f"{name}: outputfile {kw['outputfile']} not written")
    if proto == "twice":
        out2 = parse_gr(name + " (2nd getresults on the same object)", C.KEPT.add(name + " #2", obj.getresults()), K)
        for n in out:
            C.same_again(f"{name}[{n}]", out[n], out2[n])
        out = out2
    return out


def gr_ambiguous_bins(c, rdelta, nb, noise_bins=0.0):
    """bins whose count is not decided: a pair of that class lies within EPS (relative; plus the coordinate rounding
    noise, in bin units) of one of the bin's edges.  Returns dict column -> bool[nb].  A half-cell image tie in a
    non-orthogonal cell (the two images have different lengths) leaves every bin undecided."""
    K = c["K"]
    names, key = partial_names("gr", K)
    amb = {n: np.zeros(nb, dtype=bool) for n in names}
    H, ppp, types = c["cell"]["H"], c["ppp"], np.asarray(c["types"])
    ortho = c["cell"]["kind"] == "ortho"
    for pos in c["pos"]:
        N = len(pos)
        for i in range(N - 1):
            v, tie = geom.min_image(pos[i + 1:] - pos[i], H, ppp)
            if not ortho and tie.any():
                return {n: np.ones(nb, dtype=bool) for n in names}
            dist = np.sqrt((v * v).sum(axis=1))
            x = dist / rdelta
            k = np.rint(x)
            near = (np.abs(x - k) <= EPS * np.maximum(x, 1.0) + noise_bins) & (k <= nb)
            if not near.any():
                continue
            for kk, tj in zip(k[near].astype(int), types[i + 1:][near]):
                cols = [names[0]]
                if key:
                    a, b = sorted((int(types[i]), int(tj)))
                    cols.append(key[(a, b)])
                for cn in cols:
                    if kk < nb:
                        amb[cn][kk] = True
                    if kk >= 1:
                        amb[cn][kk - 1] = True
    return amb


def compare_gr(o0, o1, amb, K, sigma, s):
    names = partial_names("gr", K)[0]
    require(len(o1["r"]) == len(o0["r"]), lambda: f"g(r): {len(o1['r'])} bins for the transformed system, "
            f"{len(o0['r'])} for the original")
    close_tol("g(r): r column", o1["r"], s * o0["r"], atol=0.0, rtol=1e-9)
    nskip = 0
    for n in names:
        n1 = swapped_name("gr", n, sigma)
        ok = ~amb[n]
        nskip += int((~ok).sum())
        if ok.any():
            scale = max(1.0, float(np.abs(o0[n][ok]).max()))
            close_tol(f"g(r): column {n1} of the transformed system vs column {n} of the original (bins "
                      f"{np.nonzero(ok)[0].tolist()[:4]}...)", o1[n1][ok], o0[n][ok], atol=1e-12 * scale, rtol=1e-9)
    return nskip


def check_gr(case):
    tf = case["tf"]
    kept = C.new_kept()
    tags = C.config_tags(case) + tf_tags(tf, "gr") + [C.size_tag(case["nb"], "bins")] * (case["nb"] > 30)
    if C.tri_tie(case):
        return {"nontrivial": False, "tags": tags + ["skip-tri-tie"]}
    new = apply_tf(case, tf)
    o0, o1, ptags = C.two_runs(case, new, lambda c, sn, side: run_gr(
        "gr(transformed)" if side else "gr(original)", dict(c, proto=case["proto"]),
        case["rdelta"] * (tf["s"] if side else 1.0), case["nb"], sn, side))
    require(len(o0["r"]) == case["nb"], lambda: f"g(r): {len(o0['r'])} bins, int(Lmin / 2 / rdelta) = {case['nb']}")
    noise_bins = 8.0 * max(C.coord_noise(case) / case["rdelta"], C.coord_noise(new) / (case["rdelta"] * tf["s"]))
    amb = gr_ambiguous_bins(case, case["rdelta"], len(o0["r"]), noise_bins)
    nskip = compare_gr(o0, o1, amb, case["K"], tf["sigma"], tf["s"])
    if nskip:
        tags.append("has-ambiguous-bins")
    return {"nontrivial": C.nondegenerate(o0["gr"]), "tags": tags + ptags,
            "extra": {"ambiguous_bins_not_asserted": nskip, "kept_results_rechecked": kept.verify()}}


# ============================================================================= S(q)

QREPS = ("int64", "int64", "float64", "float32", "int32")


@st.composite
def sq_case(draw, size="mixed"):
    allowed = ["translate", "lattice", "perm", "swap", "axes"]
    want = draw(C.pick(allowed))
    d = draw(C.pick([2, 3]))
    K = draw(C.pick([2, 2, 3, 3, 4, 5, 6] + ([] if want == "swap" else [1, 1])))
    N, bulk = draw(C.size_st((max(2, K), 20), size))
    cell = pick_cell(draw, d, 2.0, 20.0, "ortho")
    if draw(st.integers(0, 4)) == 0:   # equal edges: axis permutations become pure relabellings of the q set
        cell["H"] = np.eye(d) * cell["H"][0, 0]
    case = draw(C.any_config_st(d, N, bulk, cell, K, (1, 2), np.ones(d, dtype=int)))
    qmode = draw(C.pick(["explicit", "explicit", "range"]))
    case["qmode"] = qmode
    L = np.diag(cell["H"])
    if qmode == "explicit":
        if C.chance(draw, 10):     # number of wave vectors on a block boundary
            nq = draw(C.pick(C.boundary_sizes(31, 260)))
            grid = np.array([v for v in itertools.product(range(-9, 10), repeat=d) if any(v)], dtype=np.int64)
            rq = np.random.default_rng(draw(st.integers(0, 2 ** 32 - 1)))
            case["qvector"] = grid[rq.permutation(len(grid))[:nq]]
        else:
            nq = draw(st.integers(1, 24))
            qv = draw(st.lists(st.tuples(*[st.integers(-5, 5)] * d).filter(lambda v: any(v)), min_size=nq, max_size=nq,
                               unique=True))
            case["qvector"] = np.array(qv, dtype=np.int64)
        case["nq"] = nq
        case["qrep"] = draw(C.pick(QREPS))
    else:
        nq = draw(st.integers(2, 7 if d == 3 else 12))
        case["qrange"] = (nq + 0.5) * float((2 * np.pi / L).min()) / 2.0
        case["numofq"] = nq
        case["onlypositive"] = draw(st.booleans())
    case["obs"] = "sq"
    case["proto"] = draw(C.pick(C.PROTOCOLS))
    case["saveq"] = draw(st.booleans())
    case["intcell"] = True
    case["tf"] = draw(tf_st(allowed, N=N, K=K, d=d, F=len(case["pos"]), ortho=True, ppp=case["ppp"], first=want,
                            rng=np.random.default_rng(case["seed"] + 1) if bulk else None))
    return case


def parse_sq(name, df, K):
    names = partial_names("Sq", K)[0]
    columns(name, df, ["q"] + names)
    out = {n: arr(f"{name}[{n}]", col(name, df, n), ndim=1).astype(float) for n in ["q"] + names}
    nrows = len(out["q"])
    for n in names:
        require(len(out[n]) == nrows, f"{name}: ragged table")
    return out


def run_sq(name, c, qvector, snaps=None, side=0):
    proto = c.get("proto", "fresh")
    snaps = gen.snapshots_from(c) if snaps is None else snaps
    kw = {}
    if proto == "outfile" and side == 1:
        kw = {"outputfile": "sq_out.csv", "saveqvectors": bool(c.get("saveq"))}
    if c["qmode"] == "explicit":
        # the transformed side may get the same integers in another representation (np.loadtxt gives float64)
        qv = np.array(qvector).astype(c.get("qrep", "int64") if side == 1 else np.int64)
        obj = sq(snaps, qvector=qv, **kw)
    else:
        obj = sq(snaps, qrange=c["qrange"], onlypositive=c["onlypositive"], **kw)
    df = C.KEPT.add(name, obj.getresults())
    out = parse_sq(name, df, c["K"])
    if kw:
        require(os.path.exists("sq_out.csv"), f"{name}: outputfile sq_out.csv not written")
        if kw["saveqvectors"]:
            require(os.path.exists("sq_out_qvectors.csv"), f"{name}: sq_out_qvectors.csv not written (saveqvectors=True)")
    if proto == "twice":
        out2 = parse_sq(name + " (2nd getresults on the same object)", C.KEPT.add(name + " #2", obj.getresults()), c["K"])
        for n in out:
            C.same_again(f"{name}[{n}]", out[n], out2[n])
        out = out2
    return out


def rounding_ambiguous(qint, L):
    """some |q| is so close to a 6-decimal rounding boundary that re-ordering the sum of squares could regroup it"""
    q = np.linalg.norm(qint.astype(float) * (2 * np.pi / np.asarray(L, dtype=float))[None, :], axis=1)
    y = q * 1e6
    return bool(np.any(np.abs((y - np.floor(y)) - 0.5) < 1e-3))


def check_sq(case):
    tf = case["tf"]
    d = case["d"]
    kept = C.new_kept()
    L = np.diag(case["cell"]["H"])
    tags = C.config_tags(case) + ["q-" + case["qmode"]] + tf_tags(tf, "sq")
    if case["qmode"] == "explicit":
        tags.append("qrep-" + case["qrep"])
        tags.append("nq1" if case["nq"] == 1 else (C.size_tag(case["nq"], "nq") if case["nq"] > 30 else "nq2-24"))
    new = apply_tf(case, tf)
    qv0 = case.get("qvector")
    qv1 = None
    if tf["axes"] is not None:
        ax = list(tf["axes"])
        if case["qmode"] == "explicit":
            qv1 = qv0[:, ax]
            probe = qv0
        else:
            nh = int(case["numofq"] / 2)
            probe = np.array(list(itertools.product(range(-nh, nh + 1), repeat=d)), dtype=np.int64)
        if rounding_ambiguous(probe, L) or rounding_ambiguous(probe[:, ax], L[ax]):
            return {"nontrivial": False, "tags": tags + ["skip-q-rounding-ambiguous"]}
    elif qv0 is not None:
        qv1 = qv0
    o0, o1, ptags = C.two_runs(case, new, lambda c, sn, side: run_sq(
        "sq(transformed)" if side else "sq(original)", dict(c, **{k: case[k] for k in (
            "qmode", "qrange", "onlypositive", "qrep", "saveq", "proto") if k in case}), qv1 if side else qv0, sn, side))
    require(len(o0["q"]) == len(o1["q"]), lambda: f"S(q): {len(o1['q'])} distinct |q| rows for the transformed system, "
            f"{len(o0['q'])} for the original")
    close_tol("S(q): q column", o1["q"], o0["q"], atol=1.1e-6, rtol=1e-12)
    names = partial_names("Sq", case["K"])[0]
    # phase noise: |d rho| <= N |q| dx per particle sum, S = |rho|^2 / N
    qmax = float(o0["q"].max()) if len(o0["q"]) else 0.0
    phase = 4.0 * len(case["types"]) * qmax * C.coord_noise(case, new)
    for n in names:
        n1 = swapped_name("Sq", n, tf["sigma"])
        close_tol(f"S(q): column {n1} of the transformed system vs column {n} of the original", o1[n1], o0[n],
                  atol=2.1e-6 + phase, rtol=1e-9)
    return {"nontrivial": C.nondegenerate(o0["Sq"]) and len(o0["q"]) >= 2, "tags": tags + ptags,
            "extra": {"q_rows": len(o0["q"]), "kept_results_rechecked": kept.verify()}}


# ============================================================================= neighbour lists


@st.composite
def neigh_case(draw, size="mixed", mode=None):
    d = draw(C.pick([2, 3]))
    mode = draw(C.pick(["nn", "nn", "cutoff", "cutoff_type"])) if mode is None else mode
    allowed = ["translate", "lattice", "perm", "axes", "swap", "rotate"]
    want = draw(C.pick(allowed))
    K = draw(st.integers(2, 3)) if want == "swap" else draw(st.integers(1, 3))
    N, bulk = draw(C.size_st((max(2, K), 20), size))
    cell = pick_cell(draw, d, 2.0, 20.0)
    case = draw(C.any_config_st(d, N, bulk, cell, K, (1, 2), draw(C.ppp_for(d, want))))
    case["mode"] = mode
    Lmin = float(np.diag(cell["H"]).min())
    if mode == "nn":
        if bulk and N > 40 and draw(st.integers(0, 2)) == 0:
            case["k"] = draw(st.sampled_from([31, 32, 33]))         # neighbours per particle on a block boundary
        else:
            case["k"] = draw(st.integers(1, min(N - 1, 12)))
    elif mode == "cutoff":
        case["rcut"] = draw(fl(0.25, 0.98)) * Lmin / 2.0
    else:
        rc = draw(dense((K, K), fl(0.25, 0.98))) * Lmin / 2.0
        if draw(st.booleans()):
            rc = np.triu(rc) + np.triu(rc, 1).T
        case["rcut"] = rc
    case["longlists"] = bool(bulk and mode != "nn" and N <= 140 and C.chance(draw, 3))
    if bulk and mode != "nn" and not case["longlists"]:       # keep the lists short: about 8 neighbours per particle
        vol = float(abs(np.linalg.det(cell["H"])))
        r8 = (8.0 * vol / N / (np.pi if d == 2 else 4.19)) ** (1.0 / d)
        case["rcut"] = case["rcut"] * min(1.0, r8 / (0.6 * Lmin / 2.0))
    case["obs"] = mode
    case["proto"] = draw(C.pick(["fresh", "fresh", "inplace", "default-file"]))
    case["intcell"] = True
    case["tf"] = draw(tf_st(allowed, N=N, K=K, d=d, F=len(case["pos"]), ortho=cell["kind"] == "ortho", ppp=case["ppp"],
                            first=want, rng=np.random.default_rng(case["seed"] + 1) if bulk else None))
    return case


def swap_matrix(m, sigma):
    """m'[sigma(a), sigma(b)] = m[a, b]  (0-based storage of 1-based labels)"""
    s = np.asarray(sigma, dtype=int) - 1
    out = np.empty_like(m)
    out[np.ix_(s, s)] = m
    return out


def run_neigh(name, c, mode, k=None, rcut=None, fn="nl.dat", snaps=None):
    snaps = gen.snapshots_from(c) if snaps is None else snaps
    kw = {} if fn is None else {"fnfile": fn}
    fn = "neighborlist.dat" if fn is None else fn      # documented default name
    if os.path.exists(fn):
        os.remove(fn)
    ppp = np.array(c["ppp"])
    if mode == "nn":
        Nnearests(snaps, N=int(k), ppp=ppp, **kw)
    elif mode == "cutoff":
        cutoffneighbors(snaps, r_cut=float(rcut), ppp=ppp, **kw)
    else:
        cutoffneighbors_particletype(snaps, r_cut=np.array(rcut), ppp=ppp, **kw)
    return C.parse_neighbor_file(name, fn, len(c["types"]), len(c["pos"]))


def compare_lists(case, tf, l0, l1, mode, k=None, rcut=None, noise=0.0):
    """Position-wise comparison by distance: both lists are sorted by distance, so entry p of either list must lie at
    the same distance (within the boundary width) from the centre; only entries tied in distance may differ.  For the
    cut-off modes the lists may differ in length by entries that sit on the cut-off."""
    H, ppp = case["cell"]["H"], case["ppp"]
    Lmax = float(np.abs(np.diag(H)).max())
    ortho = case["cell"]["kind"] == "ortho"
    inv = inv_perm(tf["perm"])
    perm = np.asarray(tf["perm"], dtype=int)
    types = np.asarray(case["types"])
    swapped = 0
    for f, pos in enumerate(case["pos"]):
        for i in range(len(pos)):
            a = list(l0[f][i])
            b = [int(inv[j]) for j in l1[f][int(perm[i])]]
            for nm, lst in (("original", a), ("transformed", b)):
                require(i not in lst, lambda: f"neighbour list ({nm}) of particle {i + 1} frame {f} contains itself")
                require(len(set(lst)) == len(lst), lambda: f"neighbour list ({nm}) of particle {i + 1} frame {f} has duplicates: {lst}")
            da, ta = C.mi_dist(pos, H, ppp, i, a) if a else (np.zeros(0), np.zeros(0, dtype=bool))
            db, tb = C.mi_dist(pos, H, ppp, i, b) if b else (np.zeros(0), np.zeros(0, dtype=bool))
            if not ortho and (ta.any() or tb.any()):
                continue        # half-cell tie in a tilted cell: the two images have different lengths
            m = min(len(a), len(b))
            tol = EPS * (np.maximum(da[:m], db[:m]) + Lmax) + 8.0 * noise
            bad = np.abs(da[:m] - db[:m]) > tol
            if bad.any():
                p = int(np.nonzero(bad)[0][0])
                raise Violation(f"neighbour lists disagree: frame {f} particle {i + 1} (new id {perm[i] + 1}) entry {p}: "
                                f"original lists particle {a[p] + 1} at distance {da[p]!r}, transformed system lists "
                                f"(mapped back) particle {b[p] + 1} at distance {db[p]!r}; original {[j + 1 for j in a]}, "
                                f"transformed mapped back {[j + 1 for j in b]}")
            swapped += int(sum(x != y for x, y in zip(a[:m], b[:m])))
            if mode == "nn":
                require(len(a) == k and len(b) == k, lambda: f"Nnearests: particle {i + 1} lists {len(a)} / {len(b)} neighbours, asked {k}")
            elif len(a) != len(b):
                longer, dl = (a, da) if len(a) > len(b) else (b, db)
                for p in range(m, len(longer)):
                    j = longer[p]
                    rc = float(rcut) if mode == "cutoff" else float(rcut[types[i] - 1, types[j] - 1])
                    require(abs(dl[p] - rc) <= EPS * (rc + Lmax) + 8.0 * noise,
                            lambda: f"cut-off lists differ in length: frame {f} particle {i + 1}: original "
                            f"{[j + 1 for j in a]}, transformed mapped back {[j + 1 for j in b]}; extra particle "
                            f"{j + 1} at distance {dl[p]!r}, cut-off {rc!r}")
    return swapped


def check_neigh(case):
    tf = case["tf"]
    mode = case["mode"]
    tags = C.config_tags(case) + [mode] + tf_tags(tf, mode) + ["proto-" + case["proto"]]
    if mode == "nn" and case["k"] > 30:
        tags.append(C.size_tag(case["k"], "k"))
    if C.tri_tie(case):
        return {"nontrivial": False, "tags": tags + ["skip-tri-tie"]}
    if C.has_coincident(case):
        return {"nontrivial": False, "tags": tags + ["skip-coincident"]}
    new = apply_tf(case, tf)
    rc0 = case.get("rcut")
    rc1 = swap_matrix(rc0, tf["sigma"]) if mode == "cutoff_type" else rc0
    default = case["proto"] == "default-file"
    s0 = gen.snapshots_from(case)
    l0 = run_neigh("neighbours(original)", case, mode, case.get("k"), rc0, None if default else "nl0.dat", s0)
    if case["proto"] == "inplace":
        s1 = C.mutate_snaps(s0, new)
    else:
        s1, applied = C.build_snaps(new, case["intcell"])
        if applied:
            tags.append("rep-intcell")
    l1 = run_neigh("neighbours(transformed)", new, mode, case.get("k"), rc1, None if default else "nl1.dat", s1)
    swapped = compare_lists(case, tf, l0, l1, mode, case.get("k"), rc0, C.coord_noise(case, new))
    cns = [len(v) for fr in l0 for v in fr.values()]
    tags.append("cn>64" if max(cns) > 64 else ("cn>32" if max(cns) > 32 else "cn<=32"))
    nontrivial = bool(max(cns) >= 1 and (mode == "nn" or min(cns) < len(case["types"]) - 1))
    if swapped:
        tags.append("tied-entries-differ")
    return {"nontrivial": nontrivial, "tags": tags, "extra": {"entries_differing_within_ties": swapped}}


# ============================================================================= pair entropy S2


@st.composite
def s2_case(draw, size="mixed"):
    allowed = ["translate", "lattice", "perm", "swap", "axes", "rotate"]
    want = draw(C.pick(allowed))
    d = draw(C.pick([2, 3]))
    K = draw(st.integers(2 if want == "swap" else 1, 3))
    N, bulk = draw(C.size_st((max(4, K), 18), size, boundary_hi=133, large=(199, 260), share=12))
    rho = draw(st.sampled_from([0.6, 1.0, 2.0]))
    Lm = (N / rho) ** (1.0 / d)
    cell = pick_cell(draw, d, 0.75 * Lm, 1.3 * Lm)
    case = draw(C.any_config_st(d, N, bulk, cell, K, (1, 2), draw(C.ppp_for(d, want))))
    ndelta = draw(st.integers(10, 40))
    frac = draw(st.sampled_from([0.65, 0.8, 0.97]))
    rmax = frac * float(np.diag(cell["H"]).min()) / 2.0
    if bulk:
        rmax = min(rmax, 2.2 / rho ** (1.0 / d))        # a few dozen neighbours inside r_max
    case["rdelta"] = rmax / (ndelta - 0.5)
    case["ndelta"] = ndelta
    case["rmax"] = rmax
    slo = max(0.05, rmax / 35.0)    # wide enough that the smeared g cannot underflow to 0 where a neighbour exists
    sig = draw(dense((K, K), nice_float(slo, max(0.3, 2 * slo))))
    if draw(st.booleans()):
        sig = np.triu(sig) + np.triu(sig, 1).T
    case["sigmas"] = sig
    case["obs"] = "s2"
    case["proto"] = draw(C.pick(C.PROTOCOLS))
    case["savegr"] = C.chance(draw, 3)
    case["intcell"] = True
    case["tf"] = draw(tf_st(allowed, N=N, K=K, d=d, F=len(case["pos"]), ortho=cell["kind"] == "ortho", ppp=case["ppp"],
                            first=want, rng=np.random.default_rng(case["seed"] + 1) if bulk else None))
    return case


def run_s2(name, c, sigmas, rdelta, ndelta, snaps=None, side=0):
    proto = c.get("proto", "fresh")
    snaps = gen.snapshots_from(c) if snaps is None else snaps
    F, N = len(c["pos"]), len(c["types"])
    kw = {"savegr": True} if c.get("savegr") else {}
    if proto == "outfile" and side == 1:
        kw["outputfile"] = "s2_out"
    with np.errstate(all="ignore"):
        obj = S2(snaps, sigmas=np.array(sigmas), ppp=np.array(c["ppp"]), rdelta=rdelta, ndelta=ndelta)
        res = obj.particle_s2(**kw)
        if proto == "twice":
            first = res
            res = obj.particle_s2(**kw)
    pg = None

    def split(r, nm):
        if c.get("savegr"):
            require(isinstance(r, tuple) and len(r) == 2, f"{nm}: particle_s2(savegr=True) must return (s2, particle_gr)")
            C.KEPT.add(nm, list(r))
            return arr(nm, r[0], shape=(F, N)).astype(float), arr(nm + " particle_gr", r[1], shape=(F, N, ndelta)).astype(float)
        C.KEPT.add(nm, r)
        return arr(nm, r, shape=(F, N)).astype(float), None
    out, pg = split(res, name)
    if proto == "twice":
        o1, _ = split(first, name + " (1st of two evaluations)")
        C.same_again(name, o1, out)
    if "outputfile" in kw:
        require(os.path.exists("s2_out.npy"), f"{name}: outputfile s2_out.npy not written")
    return out, pg


def check_s2(case):
    tf = case["tf"]
    kept = C.new_kept()
    F, N = len(case["pos"]), len(case["types"])
    tags = C.config_tags(case) + ["sigma-sym" if np.array_equal(case["sigmas"], case["sigmas"].T) else "sigma-asym",
                                  "savegr" if case["savegr"] else "no-savegr"] + tf_tags(tf, "s2")
    if C.tri_tie(case):
        return {"nontrivial": False, "tags": tags + ["skip-tri-tie"]}
    if C.has_coincident(case):
        return {"nontrivial": False, "tags": tags + ["skip-coincident"]}
    new = apply_tf(case, tf)
    sig1 = swap_matrix(case["sigmas"], tf["sigma"])
    (s0, g0), (s1, g1), ptags = C.two_runs(case, new, lambda c, sn, side: run_s2(
        "S2(transformed)" if side else "S2(original)", dict(c, proto=case["proto"], savegr=case["savegr"]),
        sig1 if side else case["sigmas"], case["rdelta"], case["ndelta"], sn, side))
    # particles with a pair on the r_max limit are not decided
    noise = C.coord_noise(case, new)
    amb = np.zeros((F, N), dtype=bool)
    rich = False
    rmax = case["rmax"]
    for f in range(F):
        ii, jj, _, dist, _ = C.pair_info(case, f)
        near = np.abs(dist - rmax) <= EPS * 10 * rmax + 8.0 * noise
        amb[f, ii[near]] = True
        rich = rich or bool(np.any(np.bincount(ii[dist < rmax], minlength=N) >= 2))
    inv = inv_perm(tf["perm"])
    want = s0[:, inv]          # particle a of the new system is particle inv[a] of the original
    ok = ~amb[:, inv]
    fin = np.isfinite(want[ok])
    scale = max(1.0, float(np.abs(want[ok][fin]).max())) if fin.any() else 1.0
    smooth = 50.0 * noise / float(case["sigmas"].min())      # d/dr of a Gaussian of width sigma, times |ln g| <~ 40
    if ok.any():
        close_tol("S2 per particle (transformed vs original, mapped through the id permutation)", s1[ok], want[ok],
                  atol=(1e-12 + smooth) * scale, rtol=1e-8, equal_nan=True)
    if g0 is not None:
        wantg = g0[:, inv, :]
        gs = max(1.0, float(np.abs(wantg[ok]).max())) if ok.any() else 1.0
        if ok.any():
            close_tol("S2 particle_gr (savegr=True; transformed vs original, mapped through the id permutation)",
                      g1[ok], wantg[ok], atol=(1e-12 + smooth) * gs, rtol=1e-8, equal_nan=True)
    if amb.any():
        tags.append("has-ambiguous")
    if np.isnan(s0).any():
        tags.append("has-nan")
    return {"nontrivial": bool(rich and C.nondegenerate(s0)), "tags": tags + ptags,
            "extra": {"particles_ambiguous": int(amb.sum()), "particles_asserted": int(ok.sum()),
                      "kept_results_rechecked": kept.verify()}}


# ============================================================================= repository sample trajectories

SAMPLE_DIR_CANDIDATES = [os.path.join(REPO, "tests", "sample_test_data"), "/repo/tests/sample_test_data"]
# (file, ndim); small files are listed more often so that the quick tier stays cheap
SMALL = [("unary.dump", 3), ("quarternary.dump", 3), ("IS.2DIPL.atom", 2), ("2d/2ddump.s.atom", 2), ("3d/3ddump.s.v.atom", 3)]
LARGE = [("dump_3D.atom", 3), ("2d_triclinic.atom", 2), ("ternary.dump", 3), ("dump_2D.atom", 2), ("binary_velocity.dump", 2)]
SAMPLES = SMALL + LARGE
SAMPLE_KINDS = ["translate", "lattice", "perm", "swap", "axes"]


def sample_dir():
    for p in SAMPLE_DIR_CANDIDATES:
        if os.path.isdir(p):
            return p
    raise AssertionError("sample_test_data not found")


@functools.lru_cache(maxsize=4)
def load_sample(fn, ndim):
    """first (up to four) frames of a sample dump as a configuration case; the arrays are never modified"""
    from PyMatterSim.reader.dump_reader import DumpReader
    r = DumpReader(os.path.join(sample_dir(), fn), ndim=ndim)
    r.read_onefile()
    snaps = r.snapshots.snapshots[:4]
    s = snaps[0]
    H = np.array(s.hmatrix, dtype=float)
    kind = "ortho" if not np.any(H - np.diag(np.diag(H))) else "tri"
    lo = np.array(s.boxbounds if s.realbounds is None else s.realbounds, dtype=float)[:, 0]
    types = np.array(s.particle_type, dtype=int)
    K = int(types.max())
    assert sorted(np.unique(types).tolist()) == list(range(1, K + 1))
    same = all(np.array_equal(np.array(x.particle_type), types) and np.array_equal(np.array(x.hmatrix), H) for x in snaps)
    return {"d": ndim, "cell": {"d": ndim, "kind": kind, "H": H, "lo": lo, "origin": "file"},
            "pos": [np.array(x.positions, dtype=float) for x in snaps] if same else [np.array(s.positions, dtype=float)],
            "types": types, "ppp": np.ones(ndim, dtype=int), "K": K,
            "kind": "sample", "timesteps": [int(x.timestep) for x in snaps] if same else [int(s.timestep)], "outside": False,
            "unwrapped": "wrapped"}


@st.composite
def sample_case(draw, large_gr=False):
    """large_gr=False: the <= 1000-particle files with every observable, the 6400..10000-particle files with S(q) and
    Nnearests (seconds).  large_gr=True: g(r) of the large files (20-40 CPU-s per case, N^2 pairs)."""
    if large_gr:
        fn, nd = draw(C.pick(LARGE))
        obs = "gr"
    else:
        fn, nd = draw(C.pick(SMALL + SMALL + LARGE))
        if (fn, nd) in SMALL:
            obs = draw(C.pick(["gr", "sq", "nn", "cutoff", "s2", "relaxation"] + (["tetrahedral", "boo3d"] if nd == 3 else ["boo2d"])))
        else:
            obs = draw(C.pick(["sq", "nn", "sq"]))
    allowed = SAMPLE_KINDS + (["dilate"] if obs == "gr" else [])
    kinds = [draw(C.pick(allowed))]
    r = C._scramble(draw(st.integers(0, 2 ** 32 - 1))) % 10
    extra = 0 if r <= 3 else (1 if r <= 6 else (2 if r <= 8 else len(allowed)))
    order = draw(st.permutations(allowed))
    kinds = sorted(set(kinds + list(order[:extra])))
    case = {"file": fn, "ndim": nd, "obs": obs, "kinds": kinds, "seed": draw(st.integers(0, 2 ** 32 - 1)),
            "tfrac": draw(dense((nd,), st.one_of(fl(-3.0, 3.0), fl(-40.0, 40.0)))), "nb": draw(st.integers(6, 25)),
            "binfrac": draw(fl(0.15, 0.85)), "k": draw(st.integers(1, 12)),
            "axes": draw(st.sampled_from([p for p in itertools.permutations(range(nd)) if p != tuple(range(nd))])),
            "s": draw(st.sampled_from([0.5, 2.0, 3.0, 0.37])), "lat": draw(C.pick(["near", "several", "far"])),
            "l": draw(C.pick([4, 6, 6, 5, 3])), "rc": draw(fl(1.1, 1.9)), "ndelta": draw(st.integers(15, 40)),
            "nframes": draw(st.integers(2, 4))}
    nq = draw(st.integers(3, 10))
    case["qvector"] = np.array(draw(st.lists(st.tuples(*[st.integers(-4, 4)] * nd).filter(lambda v: any(v)),
                                             min_size=nq, max_size=nq, unique=True)), dtype=np.int64)
    return case


def sample_tf(case, base):
    """Bulk random numbers from numpy.random.default_rng(k), k drawn by Hypothesis (DESIGN 1.3)."""
    rng = np.random.default_rng(case["seed"])
    N, d, K, F = len(base["types"]), base["d"], base["K"], len(base["pos"])
    kinds = [k for k in case["kinds"] if not (k == "swap" and K < 2)] or ["translate"]
    tf = {"kinds": kinds, "R": None, "axes": None, "s": 1.0, "tfrac": np.zeros((F, d)), "n": np.zeros((F, N, d)),
          "perm": np.arange(N), "sigma": np.arange(1, K + 1), "movebox": False, "angle": 0.0, "lat": None, "far": False}
    if "axes" in kinds:
        tf["axes"] = tuple(case["axes"])
    if "dilate" in kinds:
        tf["s"] = float(case["s"])
    if "translate" in kinds:
        t = np.array(case["tfrac"], dtype=float)
        if np.abs(t).max() < 0.1:
            t[0] += 0.25
        tf["tfrac"] = np.repeat(t[None, :], F, axis=0)
        tf["far"] = bool(np.abs(t).max() > 5)
        tf["movebox"] = bool(case["seed"] % 2)
    if "lattice" in kinds:
        lat = case["lat"]
        amp = 8 if lat == "several" else 2
        n = rng.integers(-amp, amp + 1, size=(F, N, d)).astype(float)
        if lat == "far":
            n[:, rng.integers(0, N, size=max(1, N // 50)), 0] = float(rng.integers(20, 61))
        if not n.any():
            n[0, 0, 0] = 1.0
        tf["n"] = n
        tf["lat"] = lat
    if "perm" in kinds:
        p = rng.permutation(N)
        if np.array_equal(p, np.arange(N)):
            p = np.roll(p, 1)
        tf["perm"] = p
    if "swap" in kinds:
        s_ = rng.permutation(np.arange(1, K + 1))
        if np.array_equal(s_, np.arange(1, K + 1)):
            s_[[0, 1]] = s_[[1, 0]]
        tf["sigma"] = s_
    return tf


def check_sample(case):
    from . import c07_local as L
    full = load_sample(case["file"], case["ndim"])
    obs = case["obs"]
    F = min(len(full["pos"]), case["nframes"]) if obs == "relaxation" else 1
    base = dict(full, pos=full["pos"][:F], timesteps=full["timesteps"][:F])
    tf = sample_tf(case, base)
    new = apply_tf(base, tf)
    kept = C.new_kept()
    N, d, K = len(base["types"]), base["d"], base["K"]
    tags = [case["file"], "obs-" + obs, "N<=1000" if N <= 1000 else "N>1000", base["cell"]["kind"], f"K{K}"] \
        + tf_tags(tf, obs) + [f"cell:{case['file']}:{k}" for k in tf["kinds"]]
    extra = {}
    noise = C.coord_noise(base, new)
    Lmin = float(np.diag(base["cell"]["H"]).min())
    rho = N / float(abs(np.linalg.det(base["cell"]["H"])))
    inv = inv_perm(tf["perm"])
    if obs == "gr":
        rdelta = Lmin / 2.0 / (case["nb"] + case["binfrac"])
        o0 = run_gr("gr(sample)", base, rdelta, case["nb"])
        o1 = run_gr("gr(sample, transformed)", new, rdelta * tf["s"], case["nb"])
        amb = gr_ambiguous_bins(base, rdelta, len(o0["r"]), 8.0 * max(C.coord_noise(base) / rdelta, C.coord_noise(new) / (rdelta * tf["s"])))
        extra["ambiguous_bins_not_asserted"] = compare_gr(o0, o1, amb, K, tf["sigma"], tf["s"])
        nontrivial = C.nondegenerate(o0["gr"])
    elif obs == "sq":
        if base["cell"]["kind"] != "ortho":
            return {"nontrivial": False, "tags": tags + ["skip-sq-triclinic"]}
        qv0 = case["qvector"]
        qv1 = qv0[:, list(tf["axes"])] if tf["axes"] is not None else qv0
        Lb = np.diag(base["cell"]["H"])
        if tf["axes"] is not None and (rounding_ambiguous(qv0, Lb) or rounding_ambiguous(qv1, Lb[list(tf["axes"])])):
            return {"nontrivial": False, "tags": tags + ["skip-q-rounding-ambiguous"]}
        o0 = run_sq("sq(sample)", dict(base, qmode="explicit"), qv0)
        o1 = run_sq("sq(sample, transformed)", dict(new, qmode="explicit"), qv1)
        require(len(o0["q"]) == len(o1["q"]), "S(q): different number of |q| rows")
        close_tol("S(q) sample: q column", o1["q"], o0["q"], atol=1.1e-6, rtol=1e-12)
        phase = 4.0 * N * float(o0["q"].max()) * noise
        for n in partial_names("Sq", K)[0]:
            n1 = swapped_name("Sq", n, tf["sigma"])
            close_tol(f"S(q) sample: column {n1} (transformed) vs {n} (original)", o1[n1], o0[n], atol=2.1e-6 + phase, rtol=1e-9)
        nontrivial = C.nondegenerate(o0["Sq"])
    elif obs in ("nn", "cutoff"):
        k = int(case["k"])
        rc = case["rc"] / rho ** (1.0 / d)
        l0 = run_neigh(f"{obs}(sample)", base, obs, k, rc, "nl0.dat")
        l1 = run_neigh(f"{obs}(sample, transformed)", new, obs, k, rc, "nl1.dat")
        extra["entries_differing_within_ties"] = compare_lists(base, tf, l0, l1, obs, k, rc, noise)
        nontrivial = True
    elif obs == "s2":
        rmax = 2.5 / rho ** (1.0 / d)
        ndelta = case["ndelta"]
        rdelta = rmax / (ndelta - 0.5)
        sig = np.full((K, K), max(0.05, rmax / 35.0) * 1.5) + 0.02 * np.arange(K)[:, None] + 0.01 * np.arange(K)[None, :]
        (s0, _), (s1, _) = (run_s2("S2(sample)", base, sig, rdelta, ndelta),
                            run_s2("S2(sample, transformed)", new, swap_matrix(sig, tf["sigma"]), rdelta, ndelta))
        ii, jj, _, dist, tie = C.pair_info(base, 0) if N <= 1000 else (None,) * 5
        amb = np.zeros((1, N), dtype=bool)
        amb[0, ii[(np.abs(dist - rmax) <= EPS * 10 * rmax + 8.0 * noise) | tie]] = True
        ok = ~amb[:, inv]
        want = s0[:, inv]
        fin = np.isfinite(want[ok])
        scale = max(1.0, float(np.abs(want[ok][fin]).max())) if fin.any() else 1.0
        close_tol("S2 per particle (sample)", s1[ok], want[ok], atol=(1e-12 + 50.0 * noise / float(sig.min())) * scale,
                  rtol=1e-8, equal_nan=True)
        extra["particles_asserted"] = int(ok.sum())
        nontrivial = C.nondegenerate(s0)
    elif obs == "tetrahedral":
        q0 = L.run_tetra("q8_tetrahedral(sample)", base)
        q1 = L.run_tetra("q8_tetrahedral(sample, transformed)", new)
        amb, dmin = L.tetra_ambiguous(base, noise)
        ok = ~amb[:, inv]
        close_tol("tetrahedral order per particle (sample)", q1[ok], q0[:, inv][ok], atol=1e-12 + 10.0 * noise / dmin, rtol=1e-8)
        extra["particles_asserted"] = int(ok.sum())
        nontrivial = C.nondegenerate(q0[~amb])
    elif obs in ("boo3d", "boo2d"):
        # bond topology from the library's own N-nearest lists of the original; relabelled consistently
        k = {3: 12, 2: 6}[d]
        lists = run_neigh("Nnearests(sample)", base, "nn", k, None, "nl0.dat")
        nl = [[lists[0][i] for i in range(N)]]
        bv = L.bond_vectors(base, nl)
        if d == 3 and L.near_pole(bv):
            return {"nontrivial": False, "tags": tags + ["skip-near-pole"]}
        _, _, _, _, tie = C.pair_info(base, 0)
        if tie.any():
            return {"nontrivial": False, "tags": tags + ["skip-halfcell-tie"]}
        nl1 = C.permute_lists(nl, tf["perm"])
        rows = [list(range(N))]
        ex = (case["l"] + 1) * noise / float(np.sqrt((bv * bv).sum(axis=1)).min())
        cc = {"proto": "fresh", "Nmax": None, "bins": 5, "binfrac": 0.5}
        if d == 3:
            if L.near_pole(L.bond_vectors(new, nl1)):
                return {"nontrivial": False, "tags": tags + ["skip-near-pole"]}
            o0 = L.run_boo3("boo_3d(sample)", base, nl, None, rows, case["l"], "0", None, None, 0, dict(base, **cc))
            o1 = L.run_boo3("boo_3d(sample, transformed)", new, nl1, None, rows, case["l"], "1", None, None, 1, dict(new, **cc))
            for cg in (False, True):
                close_tol(f"boo_3d q_l (sample, cg={cg})", o1["q", cg], o0["q", cg][:, inv], atol=1e-11 + ex, rtol=1e-8)
            nontrivial = C.nondegenerate(o0["q", False])
        else:
            (p0, _), (p1, _) = (L.run_boo2("boo_2d(sample)", base, nl, None, rows, case["l"], "0", None, 0, dict(base, **cc)),
                                L.run_boo2("boo_2d(sample, transformed)", new, nl1, None, rows, case["l"], "1", None, 1, dict(new, **cc)))
            close_tol("boo_2d |psi_l| (sample)", np.abs(p1), np.abs(p0[:, inv]), atol=1e-11 + ex, rtol=1e-8)
            if tf["axes"] is None:
                close_tol("boo_2d psi_l (sample, complex value)", p1, p0[:, inv], atol=1e-10 + 2 * ex, rtol=1e-8)
            nontrivial = C.nondegenerate(np.abs(p0))
    else:   # relaxation, wrapped coordinates of the first frames of a multi-frame sample
        if F < 2:
            return {"nontrivial": False, "tags": tags + ["skip-single-frame"]}
        diam = np.array([1.0, 1.2, 0.9, 1.1, 0.8][:K])
        cfg = {"mode": "x", "dt": 0.002, "a": 0.3, "cal_type": "slow", "qconst": 2 * np.pi, "proto": "fresh"}
        dcase = dict(base, **cfg, diam=diam, cond=None, nl=None)
        on_thr, tie = L.dyn_boundaries(dcase, noise)
        if tie:
            return {"nontrivial": False, "tags": tags + ["skip-halfcell-tie"]}
        diam1 = np.empty_like(diam)
        diam1[np.asarray(tf["sigma"], dtype=int) - 1] = diam
        o0 = L.run_dyn("relaxation(sample)", dict(base, **cfg), None, diam, None, None, None, "0")
        o1 = L.run_dyn("relaxation(sample, transformed)", dict(new, **cfg), None, diam1, None, None, None, "1")
        rms = np.sqrt(np.maximum(o0["msd"], 0.0))
        close_tol("relaxation (sample): isf", o1["isf"], o0["isf"], atol=1e-9 + 4.0 * 2 * np.pi / diam.min() * noise, rtol=1e-8)
        close_tol("relaxation (sample): msd", o1["msd"], o0["msd"], atol=1e-13 * Lmin ** 2 + 8.0 * noise * (rms + noise), rtol=1e-8)
        if not on_thr:
            close_tol("relaxation (sample): Qt", o1["Qt"], o0["Qt"], atol=1e-12, rtol=0.0)
        tags.append(f"frames{F}")
        nontrivial = bool(o0["msd"].max() > 0)
    extra["kept_results_rechecked"] = kept.verify()
    return {"nontrivial": bool(nontrivial), "tags": tags, "extra": extra}


def describe_sample(case):
    return {k: (v.tolist() if isinstance(v, np.ndarray) else v) for k, v in case.items()}
