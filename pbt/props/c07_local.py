"""C07 facets for the per-particle / spectral observables: boo_3d, boo_2d, tetrahedral order, Hessian, Dynamics.relaxation,
gyration descriptors, participation ratio.  Oracle: O(T x) = T' O(x); pbt/ref/geom only locates decision boundaries."""
from __future__ import annotations

import itertools
import math
import os
import warnings

import numpy as np
import pandas as pd
from hypothesis import strategies as st
from hypothesis.extra import numpy as hnp

from .. import gen
from ..gen import cell_st, fl, nice_float, ppp_st, types_st
from ..harness import Violation
from ..ref import geom
from ..util import arr, col, columns, require
from . import c07_common as C
from .c07_common import EPS, apply_tf, close_tol, config_st, dense, inv_perm, linear_part, tf_st, tf_tags

from PyMatterSim.dynamic.dynamics import Dynamics
from PyMatterSim.static.boo import boo_2d, boo_3d
from PyMatterSim.static.geometric import q8_tetrahedral
from PyMatterSim.static.hessians import HessianMatrix, InteractionParams, ModelName
from PyMatterSim.static.shape import gyration_tensor
from PyMatterSim.static.vector import participation_ratio
from PyMatterSim.static.sq import conditional_sq  # noqa: F401  (import check of a sibling module used by dynamics)

warnings.filterwarnings("ignore", category=RuntimeWarning)


def mask_tag(ppp):
    return "mask-full" if np.all(ppp) else ("mask-open" if not np.any(ppp) else "mask-partial")


# ============================================================================= bond-orientational order (shared)


@st.composite
def boo_case(draw, d):
    allowed = ["translate", "lattice", "perm", "axes", "rotate"]
    want = draw(C.pick(allowed))
    N = draw(st.integers(4, 10))
    cell = draw(cell_st(d, "ortho" if want == "axes" else "any", lmin=2.0, lmax=20.0, origin="any"))
    ppp = draw(C.ppp_for(d, want))
    case = draw(config_st(d, N, cell, K=1, frames=(1, 2), ppp=ppp))
    F = len(case["pos"])
    cmax = min(N - 1, draw(C.pick([3, 4, 6, 8])))
    mode = draw(C.pick(["nearest", "random"]))
    Lmin = float(np.diag(cell["H"]).min())
    nl, degenerate = [], False
    for f in range(F):
        ii, jj, _, dist, tie = geom.pair_table(case["pos"][f], cell["H"], ppp)
        D = np.full((N, N), np.inf)
        # bonds whose direction is not defined (coincident pair, half-cell image tie) are never used
        D[ii, jj] = np.where(tie | (dist < 1e-6 * Lmin), np.inf, dist)
        lists = []
        for i in range(N):
            good = np.nonzero(np.isfinite(D[i]))[0]
            if len(good) == 0:
                degenerate = True
                lists.append([(i + 1) % N])
                continue
            cn = draw(st.integers(1, min(cmax, len(good))))
            if mode == "nearest":
                js = good[np.argsort(D[i, good], kind="stable")][:cn]
            else:
                idx = draw(st.lists(st.integers(0, len(good) - 1), min_size=cn, max_size=cn, unique=True))
                js = good[idx]
            lists.append([int(j) for j in js])
        nl.append(lists)
    wmode = draw(C.pick(["none", "none", "random"]))
    w = None
    if wmode == "random":
        w = []
        for f in range(F):
            tab = draw(dense((N, cmax), st.one_of(st.sampled_from([1.0, 0.5, 2.0]), fl(0.05, 20.0))))
            w.append([[float(x) for x in tab[i, :len(nl[f][i])]] for i in range(N)])
    case.update(nl=nl, w=w, wmode=wmode, lmode=mode, degenerate=degenerate,
                rows0=[list(draw(st.permutations(range(N)))) for _ in range(F)],
                rows1=[list(draw(st.permutations(range(N)))) for _ in range(F)],
                l=draw(C.pick([1, 2, 3, 4, 4, 5, 6, 6, 6, 7, 8, 10, 12])), wcg=draw(st.booleans()))
    case["tf"] = draw(tf_st(allowed, N=N, K=1, d=d, F=F, ortho=cell["kind"] == "ortho", ppp=ppp, first=want))
    return case


def write_boo_files(c, nl, w, rows, nfile, wfile):
    C.write_listfile(nfile, nl, rows=rows)
    if w is None:
        return None
    C.write_listfile(wfile, w, header="id cn weightlist", rows=rows, fmt=repr)
    return wfile


def bond_vectors(c, nl):
    out = []
    for f, pos in enumerate(c["pos"]):
        for i, js in enumerate(nl[f]):
            v, _ = geom.min_image(pos[np.asarray(js, dtype=int)] - pos[i], c["cell"]["H"], c["ppp"])
            out.append(v)
    return np.vstack(out)


def near_pole(v):
    """a bond so close to (but not on) the polar axis that theta = arccos(z/r) loses half its digits"""
    r = np.sqrt((v * v).sum(axis=1))
    s = np.sqrt(v[:, 0] ** 2 + v[:, 1] ** 2) / r
    return bool(np.any((s > 1e-10) & (s < 1e-5)))


def boo_tags(case):
    tf = case["tf"]
    return [case["cell"]["kind"], mask_tag(case["ppp"]), f"l{case['l']}", f"frames{len(case['pos'])}",
            ("wigner-cg" if case["wcg"] else "wigner-local") if (case["l"] <= 6 and case["d"] == 3) else "wigner-none",
            "w-" + case["wmode"], "lists-" + case["lmode"], "outside" if case["outside"] else "inside",
            case["kind"].split("+")[0].split(":")[0]] + tf_tags(tf)


# ----------------------------------------------------------------------------- boo_3d


def run_boo3(name, c, nl, w, rows, l, tag, wcg):
    F, N = len(c["pos"]), len(c["types"])
    nfile = f"nb{tag}.dat"
    wfile = write_boo_files(c, nl, w, rows, nfile, f"w{tag}.dat")
    snaps = gen.snapshots_from(c)
    kw = {"weightsfile": wfile} if wfile else {}
    with np.errstate(all="ignore"):
        b = boo_3d(snaps, l=int(l), neighborfile=nfile, ppp=np.array(c["ppp"]), **kw)
        out = {}
        for cg in (False, True):
            out["q", cg] = arr(f"{name} ql_Ql(cg={cg})", b.ql_Ql(coarse_graining=cg), shape=(F, N)).astype(float)
            if cg != wcg:       # the Wigner contraction multiplies sympy Floats (0.1-0.3 s per call): one variant per case
                continue
            res = b.w_W_cap(coarse_graining=cg)
            require(isinstance(res, tuple) and len(res) == 2, f"{name}: w_W_cap must return (w, w_cap)")
            out["w", cg] = arr(f"{name} w(cg={cg})", res[0], shape=(F, N)).astype(float)
            out["wc", cg] = arr(f"{name} w_cap(cg={cg})", res[1], shape=(F, N)).astype(float)
    return out


def check_boo3(case):
    tf = case["tf"]
    tags = boo_tags(case)
    if case["degenerate"]:
        return {"nontrivial": False, "tags": tags + ["skip-no-usable-bond"]}
    l = case["l"]
    new = apply_tf(case, tf)
    nl1 = C.permute_lists(case["nl"], tf["perm"])
    w1 = None if case["w"] is None else C.permute_lists(case["w"], tf["perm"], values=True)
    if near_pole(bond_vectors(case, case["nl"])) or near_pole(bond_vectors(new, nl1)):
        return {"nontrivial": False, "tags": tags + ["skip-near-pole"]}
    wcg = case["wcg"] if l <= 6 else None
    o0 = run_boo3("boo_3d(original)", case, case["nl"], case["w"], case["rows0"], l, "0", wcg)
    o1 = run_boo3("boo_3d(transformed)", new, nl1, w1, case["rows1"], l, "1", wcg)
    inv = inv_perm(tf["perm"])
    sign = float(round(np.linalg.det(linear_part(tf, 3)))) ** l      # w_l is a pseudo-scalar for odd l
    asserted = 0
    for cg in (False, True):
        nm = "coarse-grained " if cg else ""
        q0 = o0["q", cg][:, inv]
        close_tol(f"boo_3d {nm}q_l", o1["q", cg], q0, atol=1e-11, rtol=1e-8)
        if cg != wcg:
            continue
        close_tol(f"boo_3d {nm}w_l", o1["w", cg], sign * o0["w", cg][:, inv], atol=1e-12, rtol=1e-8)
        norm2 = q0 ** 2 * (2 * l + 1) / (4 * np.pi)
        ok = norm2 >= 1e-4
        asserted += int(ok.sum())
        if ok.any():
            close_tol(f"boo_3d {nm}w-hat_l", o1["wc", cg][ok], sign * o0["wc", cg][:, inv][ok],
                      atol=1e-13 / norm2[ok] ** 1.5, rtol=1e-8)
    return {"nontrivial": C.nondegenerate(o0["q", False]), "tags": tags, "extra": {"w_hat_asserted": asserted}}


# ----------------------------------------------------------------------------- boo_2d


def run_boo2(name, c, nl, w, rows, l, tag):
    F, N = len(c["pos"]), len(c["types"])
    nfile = f"nb{tag}.dat"
    wfile = write_boo_files(c, nl, w, rows, nfile, f"w{tag}.dat")
    snaps = gen.snapshots_from(c)
    kw = {"weightsfile": wfile} if wfile else {}
    b = boo_2d(snaps, l=int(l), neighborfile=nfile, ppp=np.array(c["ppp"]), **kw)
    psi = arr(f"{name} ParticlePhi", b.ParticlePhi, shape=(F, N))
    require(np.iscomplexobj(psi), f"{name}: order parameter is not complex")
    return psi


def check_boo2(case):
    tf = case["tf"]
    tags = boo_tags(case)
    if case["degenerate"]:
        return {"nontrivial": False, "tags": tags + ["skip-no-usable-bond"]}
    l = case["l"]
    new = apply_tf(case, tf)
    nl1 = C.permute_lists(case["nl"], tf["perm"])
    w1 = None if case["w"] is None else C.permute_lists(case["w"], tf["perm"], values=True)
    p0 = run_boo2("boo_2d(original)", case, case["nl"], case["w"], case["rows0"], l, "0")
    p1 = run_boo2("boo_2d(transformed)", new, nl1, w1, case["rows1"], l, "1")
    inv = inv_perm(tf["perm"])
    want = p0[:, inv]
    close_tol("boo_2d |psi_l|", np.abs(p1), np.abs(want), atol=1e-11, rtol=1e-8)
    # the complex value itself: unchanged by translations / lattice shifts / relabelling, multiplied by exp(i l alpha)
    # under a proper rotation by alpha (l-fold definition); a reflection (axis swap) only fixes the modulus
    if tf["axes"] is None:
        phase = np.exp(1j * l * tf["angle"]) if tf["R"] is not None else 1.0
        close_tol("boo_2d psi_l (complex value, rotated by exp(i l alpha))", p1, phase * want, atol=1e-10, rtol=1e-8)
        tags.append("phase-asserted")
    return {"nontrivial": C.nondegenerate(np.abs(p0)), "tags": tags}


# ============================================================================= tetrahedral order


@st.composite
def tetra_case(draw):
    allowed = ["translate", "lattice", "perm", "axes", "rotate"]
    want = draw(C.pick(allowed))
    N = 5 if draw(st.integers(0, 4)) == 0 else draw(st.integers(6, 14))
    cell = draw(cell_st(3, "ortho" if want == "axes" else "any", lmin=2.0, lmax=20.0, origin="any"))
    ppp = draw(C.ppp_for(3, want))
    case = draw(config_st(3, N, cell, K=1, frames=(1, 2), ppp=ppp))
    case["tf"] = draw(tf_st(allowed, N=N, K=1, d=3, F=len(case["pos"]), ortho=cell["kind"] == "ortho", ppp=ppp,
                            first=want))
    return case


def tetra_ambiguous(case):
    H = case["cell"]["H"]
    Lmax, Lmin = float(np.diag(H).max()), float(np.diag(H).min())
    F, N = len(case["pos"]), len(case["types"])
    amb = np.zeros((F, N), dtype=bool)
    for f in range(F):
        ii, jj, _, dist, tie = C.pair_info(case, f)
        D = np.full((N, N), np.inf)
        D[ii, jj] = dist
        T = np.zeros((N, N), dtype=bool)
        T[ii, jj] = tie
        for i in range(N):
            o = np.argsort(D[i])
            d4 = D[i, o[3]]
            tol = EPS * (d4 + Lmax)
            amb[f, i] = bool((N - 1 > 4 and D[i, o[4]] - d4 <= tol) or np.any(T[i] & (D[i] <= d4 + tol))
                             or D[i, o[0]] < 1e-7 * Lmin)
    return amb


def run_tetra(name, c):
    snaps = gen.snapshots_from(c)
    with np.errstate(all="ignore"):
        q = q8_tetrahedral(snaps, ppp=np.array(c["ppp"]))
    return arr(name, q, shape=(len(c["pos"]), len(c["types"]))).astype(float)


def check_tetra(case):
    tf = case["tf"]
    N = len(case["types"])
    tags = ["N5" if N == 5 else "N6+", case["cell"]["kind"], mask_tag(case["ppp"]), f"frames{len(case['pos'])}",
            "outside" if case["outside"] else "inside", case["kind"].split("+")[0].split(":")[0]] + tf_tags(tf)
    if C.tri_tie(case):
        return {"nontrivial": False, "tags": tags + ["skip-tri-tie"]}
    new = apply_tf(case, tf)
    q0 = run_tetra("q8_tetrahedral(original)", case)
    q1 = run_tetra("q8_tetrahedral(transformed)", new)
    amb = tetra_ambiguous(case)
    inv = inv_perm(tf["perm"])
    ok = ~amb[:, inv]
    if ok.any():
        close_tol("tetrahedral order per particle", q1[ok], q0[:, inv][ok], atol=1e-12, rtol=1e-8)
    if amb.any():
        tags.append("has-ambiguous")
    return {"nontrivial": bool(ok.any() and C.nondegenerate(q0[~amb])), "tags": tags,
            "extra": {"particles_ambiguous": int(amb.sum()), "particles_asserted": int(ok.sum())}}


# ============================================================================= Hessian

MODELS = ("lennard_jones", "inverse_power_law", "harmonic_hertz")
# lattice spacing / sigma_max, smallest sigma ratio, cut-off factor range
GEOM = {"lennard_jones": ((0.95, 1.3), 0.7, (1.5, 2.5)),
        "inverse_power_law": ((0.9, 1.1), 0.75, (1.3, 1.8)),
        "harmonic_hertz": ((0.84, 0.92), 0.9, (1.0, 1.0))}
DMIN = 0.81


def _sym(draw, K, lo, hi):
    m = np.zeros((K, K))
    for a in range(K):
        for b in range(a, K):
            m[a, b] = m[b, a] = draw(nice_float(lo, hi))
    return m


def perp_widths(H):
    Hi = np.linalg.inv(H)
    return 1.0 / np.sqrt((Hi * Hi).sum(axis=0))


@st.composite
def hess_case(draw):
    allowed = ["translate", "lattice", "perm", "swap", "axes", "rotate"]
    want = draw(C.pick(allowed))
    model = draw(C.pick(MODELS))
    d = draw(C.pick([2, 3]))
    K = draw(C.pick([2, 2, 3] + ([] if want == "swap" else [1])))
    (fa_lo, fa_hi), smin, (c_lo, c_hi) = GEOM[model]
    sig = _sym(draw, K, smin, 1.0)
    sig = sig / sig.max() * draw(st.sampled_from([1.0, 1.0, 0.7, 1.6]))
    smax = float(sig.max())
    rc = sig.copy() if model == "harmonic_hertz" else sig * _sym(draw, K, c_lo, c_hi)
    eps = _sym(draw, K, 0.5, 2.0)
    if K > 1 and draw(st.booleans()):
        masses = np.array(draw(st.lists(st.integers(5, 50), min_size=K, max_size=K, unique=True)), dtype=float) / 10.0
    else:
        masses = np.full(K, draw(st.sampled_from([1.0, 2.5])))
    a0 = smax * draw(fl(fa_lo, fa_hi))
    stretch = [0.0, 0.0, 0.03, 0.06] if model == "harmonic_hertz" else [0.0, 0.0, 0.1, 0.25]
    ak = a0 * (1.0 + np.array([draw(st.sampled_from(stretch)) for _ in range(d)]))
    bl = [draw(st.integers(2, 4)) for _ in range(d)] if d == 2 else [draw(st.integers(1, 3)) for _ in range(d)]
    if int(np.prod(bl)) < 4:
        bl[0], bl[1] = 2, 2
    sites = np.array(list(itertools.product(*[range(b) for b in bl])), dtype=float)
    N = draw(st.integers(max(4, K), min(12, len(sites))))
    sites = sites[list(draw(st.permutations(range(len(sites))))[:N])]
    jmax = (a0 - DMIN * smax) / (2.0 * np.sqrt(d))
    jf = draw(st.sampled_from([0.0, 0.3, 1.0, 1.0, 1.0]))
    local = sites * ak + jf * jmax * draw(dense((N, d), fl(-1.0, 1.0)))
    diam = float(np.linalg.norm((np.array(bl) - 1) * ak + 2 * jf * jmax))
    ppp = draw(C.ppp_for(d, want))
    tri = bool(ppp.all()) and want != "axes" and draw(st.integers(0, 1)) == 0
    W = 1.06 * max(2.0 * rc.max(), diam + rc.max())
    L = W * np.array([draw(st.sampled_from([1.0, 1.0, 1.3, 2.0])) for _ in range(d)])
    Hm = np.diag(L)
    if tri:
        Hm[1, 0] = draw(fl(-0.5, 0.5)) * L[0]
        if d == 3:
            Hm[2, 0] = draw(fl(-0.5, 0.5)) * L[0]
            Hm[2, 1] = draw(fl(-0.5, 0.5)) * L[1]
        if not np.any(Hm - np.diag(L)):
            Hm[1, 0] = 0.3 * L[0]
        w = perp_widths(Hm).min()
        if w < W:
            Hm = Hm * (W / w * 1.001)
    lo = np.zeros(d) if draw(st.booleans()) else np.array([draw(nice_float(-20.0, 20.0)) for _ in range(d)])
    origin = draw(dense((d,), fl(0.0, 1.0, exclude_max=True))) @ Hm
    f = geom.frac_coords(origin + local, Hm)
    f = np.where(ppp > 0, f - np.floor(f), f)      # wrapped through the periodic faces only
    images = np.zeros((N, d))
    if draw(st.booleans()):
        images = draw(hnp.arrays(np.int64, (N, d), elements=st.integers(-1, 1))).astype(float) * ppp
    pos = lo + (f + images) @ Hm
    cell = {"d": d, "kind": "tri" if tri else "ortho", "H": Hm, "lo": lo, "origin": "any"}
    case = {"d": d, "cell": cell, "pos": [pos], "types": draw(types_st(N, K)), "ppp": ppp, "K": K, "kind": f"blob-j{jf}",
            "timesteps": [0], "outside": bool(np.any(images)), "model": model, "eps": eps, "sig": sig, "rc": rc,
            "masses": masses,
            "n": draw(st.sampled_from([6, 10, 12, 10.0, 12.0])) if draw(st.integers(0, 3)) else draw(fl(4.0, 14.0)),
            "A": draw(st.one_of(st.just(1.0), nice_float(0.5, 3.0))),
            "alpha": draw(st.sampled_from([2.0, 2.5, 3.0])) if draw(st.integers(0, 3)) else draw(fl(2.0, 3.0)),
            "shift": draw(st.booleans())}
    case["tf"] = draw(tf_st(allowed, N=N, K=K, d=d, F=1, ortho=not tri, ppp=ppp, first=want))
    return case


def run_hess(name, c, eps, sig, rc, masses, stem):
    m = c["model"]
    if m == "lennard_jones":
        ip = InteractionParams(model_name=ModelName.lennard_jones)
    elif m == "inverse_power_law":
        ip = InteractionParams(model_name=ModelName.inverse_power_law, ipl_n=c["n"], ipl_A=c["A"])
    else:
        ip = InteractionParams(model_name=ModelName.harmonic_hertz, harmonic_hertz_alpha=c["alpha"])
    snap = gen.snapshot_from(c["cell"], c["pos"][0], c["types"])
    h = HessianMatrix(snapshot=snap, masses={k + 1: float(x) for k, x in enumerate(masses)}, epsilons=np.array(eps),
                      sigmas=np.array(sig), r_cuts=np.array(rc), ppp=np.array(c["ppp"]), shiftpotential=bool(c["shift"]))
    f_h, f_c = f"{stem}.hessianmatrix.npy", f"{stem}.omega_PR.csv"
    for fn in (f_h, f_c):
        if os.path.exists(fn):
            os.remove(fn)
    with np.errstate(all="ignore"):
        h.diagonalize_hessian(interaction_params=ip, saveevecs=False, savehessian=True, outputfile=stem)
    require(os.path.exists(f_h) and os.path.exists(f_c), f"{name}: output files not written")
    dN = c["d"] * len(c["types"])
    Hm = arr(f"{name} saved Hessian", np.load(f_h), shape=(dN, dN)).astype(float)
    df = pd.read_csv(f_c)
    columns(f"{name} omega_PR.csv", df, ["omega", "PR"])
    om = arr(f"{name} omega", col(name, df, "omega"), shape=(dN,)).astype(float)
    pr = arr(f"{name} PR", col(name, df, "PR"), shape=(dN,)).astype(float)
    return Hm, om, pr


def check_hess(case):
    tf = case["tf"]
    d, N = case["d"], len(case["types"])
    tags = [case["model"], f"d{d}", f"K{case['K']}", case["cell"]["kind"], mask_tag(case["ppp"]),
            "shift" if case["shift"] else "noshift", "outside" if case["outside"] else "inside",
            "mass-equal" if np.ptp(case["masses"]) == 0 else "mass-unequal", case["kind"]] + tf_tags(tf)
    # decision boundary: a pair on its cut-off
    ii, jj, _, dist, _ = C.pair_info(case, 0)
    t0 = np.asarray(case["types"]) - 1
    rcp = case["rc"][t0[ii], t0[jj]]
    if np.any(np.abs(dist - rcp) <= 1e-6 * rcp):
        return {"nontrivial": False, "tags": tags + ["skip-pair-on-cutoff"]}
    new = apply_tf(case, tf)
    sm = lambda m: C_swap(m, tf["sigma"])  # noqa: E731
    mass1 = np.empty_like(case["masses"])
    mass1[np.asarray(tf["sigma"], dtype=int) - 1] = case["masses"]
    H0, om0, pr0 = run_hess("Hessian(original)", case, case["eps"], case["sig"], case["rc"], case["masses"], "h0")
    H1, om1, pr1 = run_hess("Hessian(transformed)", new, sm(case["eps"]), sm(case["sig"]), sm(case["rc"]), mass1, "h1")
    # expected matrix: u' = P u with P[(perm[i], a'), (i, a)] = A[a', a]
    A = linear_part(tf, d)
    perm = np.asarray(tf["perm"], dtype=int)
    P = np.zeros((d * N, d * N))
    for i in range(N):
        P[perm[i] * d:(perm[i] + 1) * d, i * d:(i + 1) * d] = A
    want = P @ H0 @ P.T
    gmax = float(np.abs(H0).max())
    blk = np.abs(want).reshape(N, d, N, d).max(axis=(1, 3))
    atol = 1e-8 * np.repeat(np.repeat(blk, d, axis=0), d, axis=1) + 1e-10 * gmax
    close_tol("saved Hessian matrix (transformed vs P H P^T of the original)", H1, want, atol=atol, rtol=0.0)
    lam0 = np.where(om0 > 0, om0 ** 2, om0)
    lam1 = np.where(om1 > 0, om1 ** 2, om1)
    nrm = max(float(np.abs(lam0).max()), 1e-300)
    close_tol("Hessian eigenvalues (omega^2, ascending)", lam1, lam0, atol=1e-9 * nrm, rtol=0.0)
    big = lam0 > 1e-6 * nrm
    if big.any():
        close_tol("eigenfrequencies omega", om1[big], om0[big], atol=0.0, rtol=1e-7)
    # participation ratio: only where the eigenvector is determined (isolated eigenvalue)
    gap = np.full(len(lam0), np.inf)
    dl = np.diff(lam0)
    gap[1:] = np.minimum(gap[1:], dl)
    gap[:-1] = np.minimum(gap[:-1], dl)
    iso = gap > 1e-3 * nrm
    if iso.any():
        close_tol("participation ratio of isolated modes", pr1[iso], pr0[iso], atol=1e-11 * nrm / gap[iso], rtol=1e-8)
    return {"nontrivial": bool(gmax > 0 and np.count_nonzero(H0) > d * d), "tags": tags,
            "extra": {"pr_modes_asserted": int(iso.sum()), "modes": len(lam0)}}


def C_swap(m, sigma):
    s = np.asarray(sigma, dtype=int) - 1
    out = np.empty_like(m)
    out[np.ix_(s, s)] = m
    return out


# ============================================================================= Dynamics.relaxation


@st.composite
def dyn_case(draw):
    allowed = ["translate", "lattice", "perm", "swap", "axes"]
    want = draw(C.pick(allowed))
    d = draw(C.pick([2, 3]))
    cell = draw(cell_st(d, "ortho" if want == "axes" else "any", lmin=3.0, lmax=20.0, origin="any"))
    N = draw(st.integers(3, 10))
    K = 2 if want == "swap" else draw(st.integers(1, 2))
    T = draw(st.integers(2, 5))
    mode = draw(C.pick(["xu", "x", "both"]))
    if mode == "x":
        ppp = draw(ppp_st(d, True))
        if not ppp.any():
            ppp = np.ones(d, dtype=int)
    elif want == "lattice":
        ppp = np.ones(d, dtype=int)
    else:
        ppp = draw(C.pick([np.zeros(d, dtype=int), np.ones(d, dtype=int)]))
    f0, kind = draw(C.fracs_st(d, N, exact_ok=False, kinds=("gas", "lattice-jit", "cluster")))
    fu = [f0]
    for _ in range(T - 1):
        amp = draw(C.pick([0.005, 0.02, 0.1, 0.3, 0.3]))
        step = amp * draw(dense((N, d), fl(-1.0, 1.0)))
        if draw(st.integers(0, 3)) == 3:       # some particles arrested in this interval
            step = step * draw(hnp.arrays(np.int64, (N, 1), elements=st.integers(0, 1)))
        fu.append(fu[-1] + step)
    H, lo = cell["H"], cell["lo"]
    pos_u = [lo + f @ H for f in fu]
    pos_x = [lo + np.where(ppp > 0, f - np.floor(f), f) @ H for f in fu]
    t0 = draw(st.integers(0, 10 ** 5))
    dts = draw(st.integers(1, 2000))
    sig2 = draw(st.sampled_from([1.0, 1.4, 0.8]))
    case = {"d": d, "cell": cell, "pos": pos_x if mode == "x" else pos_u, "posx": pos_x if mode == "both" else None,
            "types": draw(types_st(N, K)), "ppp": ppp, "K": K, "kind": kind,
            "timesteps": [t0 + k * dts for k in range(T)], "outside": False, "mode": mode,
            "diam": np.array([1.0, sig2][:K]) * draw(st.sampled_from([1.0, 1.0, 0.5])),
            "a": draw(st.sampled_from([0.1, 0.3, 0.5, 1.0])), "cal_type": draw(st.sampled_from(["slow", "slow", "fast"])),
            "qconst": draw(st.sampled_from([2 * np.pi, 7.0, 1.0])), "dt": draw(st.sampled_from([0.002, 1.0, 0.005]))}
    cond = None
    if draw(st.integers(0, 2)) == 0:
        cond = draw(hnp.arrays(np.bool_, (T, N)))
        for k in range(T):
            if not cond[k].any():
                cond[k, draw(st.integers(0, N - 1))] = True
    case["cond"] = cond
    nl = None
    if draw(st.integers(0, 2)) == 0:
        nl = []
        for _ in range(T):
            lists = []
            for i in range(N):
                idx = draw(st.lists(st.integers(0, N - 2), min_size=1, max_size=min(4, N - 1), unique=True))
                lists.append([j if j < i else j + 1 for j in idx])
            nl.append(lists)
    case["nl"] = nl
    case["rows0"] = [list(draw(st.permutations(range(N)))) for _ in range(T)]
    case["rows1"] = [list(draw(st.permutations(range(N)))) for _ in range(T)]
    case["tf"] = draw(tf_st(allowed, N=N, K=K, d=d, F=T, ortho=cell["kind"] == "ortho", ppp=ppp, per_frame=False,
                            lattice_per_frame=mode == "x", first=want))
    return case


def run_dyn(name, c, posx, diam, cond, nl, rows, tag):
    T = len(c["pos"])
    main = gen.snapshots_from(c)
    kw = {}
    if c["mode"] == "x":
        kw["x_snapshots"] = main
    else:
        kw["xu_snapshots"] = main
        if c["mode"] == "both":
            kw["x_snapshots"] = gen.snapshots_from(dict(c, pos=posx))
    if nl is not None:
        C.write_listfile(f"dyn{tag}.dat", nl, rows=rows)
        kw["neighborfile"] = f"dyn{tag}.dat"
    dyn = Dynamics(dt=c["dt"], ppp=np.array(c["ppp"]), diameters={k + 1: float(x) for k, x in enumerate(diam)},
                   a=c["a"], cal_type=c["cal_type"], **kw)
    with np.errstate(all="ignore"):
        df = dyn.relaxation(qconst=c["qconst"], condition=None if cond is None else cond.copy(), outputfile="")
    names = "t isf Qt X4_Qt msd alpha2".split()
    columns(name, df, names)
    return {n: arr(f"{name}[{n}]", col(name, df, n), shape=(T - 1,)).astype(float) for n in names}


def dyn_boundaries(case):
    """(some displacement sits on the mobility threshold, some wrapped displacement is a half-cell tie)"""
    T = len(case["pos"])
    H, ppp = case["cell"]["H"], case["ppp"]
    a2 = (case["diam"][np.asarray(case["types"]) - 1] * case["a"]) ** 2
    on_thr = tie_any = False
    for n in range(1, T):
        for nn in range(1, n + 1):
            o = n - nn
            R = case["pos"][n] - case["pos"][o]
            if case["mode"] == "x":
                R, tie = geom.min_image(R, H, ppp)
                tie_any = tie_any or bool(tie.any())
            if case["nl"] is not None:
                R = np.array([R[i] - R[np.asarray(js, dtype=int)].mean(axis=0) for i, js in enumerate(case["nl"][o])])
            d2 = (R * R).sum(axis=1)
            sel = slice(None) if case["cond"] is None else case["cond"][o]
            on_thr = on_thr or bool(np.any(np.abs(d2[sel] - a2[sel]) <= 1e-8 * a2[sel]))
    return on_thr, tie_any


def check_dyn(case):
    tf = case["tf"]
    T = len(case["pos"])
    tags = [f"d{case['d']}", case["cell"]["kind"], "mode-" + case["mode"], mask_tag(case["ppp"]), f"T{T}", f"K{case['K']}",
            case["cal_type"], "cond" if case["cond"] is not None else "all", "cage" if case["nl"] is not None else "abs"] \
        + tf_tags(tf)
    on_thr, tie = dyn_boundaries(case)
    if tie:
        return {"nontrivial": False, "tags": tags + ["skip-halfcell-tie"]}
    new = apply_tf(case, tf)
    posx1 = apply_tf(dict(case, pos=case["posx"]), tf)["pos"] if case["posx"] is not None else None
    inv = inv_perm(tf["perm"])
    diam1 = np.empty_like(case["diam"])
    diam1[np.asarray(tf["sigma"], dtype=int) - 1] = case["diam"]
    cond1 = None if case["cond"] is None else case["cond"][:, inv]
    nl1 = None if case["nl"] is None else C.permute_lists(case["nl"], tf["perm"])
    o0 = run_dyn("relaxation(original)", case, case["posx"], case["diam"], case["cond"], case["nl"], case["rows0"], "0")
    o1 = run_dyn("relaxation(transformed)", new, posx1, diam1, cond1, nl1, case["rows1"], "1")
    L2 = float(np.abs(case["cell"]["H"]).max()) ** 2
    close_tol("relaxation: t", o1["t"], o0["t"], atol=0.0, rtol=1e-12)
    close_tol("relaxation: isf", o1["isf"], o0["isf"], atol=1e-9, rtol=1e-8)
    close_tol("relaxation: msd", o1["msd"], o0["msd"], atol=1e-13 * L2, rtol=1e-8)
    # alpha2 = c <r^4>/<r^2>^2 - 1 is 0/0 for a trajectory without motion: asserted where the rms displacement exceeds
    # 1e-5 L (coordinates carry an absolute rounding error ~1e-15 L, i.e. <= 1e-10 relative on the dominant terms)
    moving = o0["msd"] >= 1e-10 * L2
    if moving.any():
        close_tol("relaxation: alpha2", o1["alpha2"][moving], o0["alpha2"][moving], atol=1e-7, rtol=1e-7)
    if not moving.all():
        tags.append("alpha2-no-motion-not-asserted")
    if not on_thr:
        close_tol("relaxation: Qt", o1["Qt"], o0["Qt"], atol=1e-12, rtol=0.0)
        close_tol("relaxation: X4_Qt", o1["X4_Qt"], o0["X4_Qt"], atol=1e-9, rtol=1e-9)
    else:
        tags.append("Qt-on-threshold-not-asserted")
    varied = bool(np.ptp(o0["Qt"]) > 0 or (0 < o0["Qt"][0] < 1)) or C.nondegenerate(o0["msd"])
    return {"nontrivial": bool(varied and np.all(np.isfinite(o0["msd"])) and o0["msd"].max() > 0), "tags": tags,
            "extra": {"Qt_mixed": int(np.any((o0["Qt"] > 0) & (o0["Qt"] < 1)))}}


# ============================================================================= gyration descriptors


@st.composite
def cloud_case(draw, vector=False):
    d = draw(C.pick([2, 3]))
    N = draw(st.integers(1 if vector else 2, 30))
    spread = draw(st.sampled_from([0.5, 2.0, 10.0]))
    centre = np.zeros(d) if vector else draw(dense((d,), fl(-20.0, 20.0)))
    x = centre + spread * draw(dense((N, d), fl(-1.0, 1.0)))
    if draw(st.integers(0, 3)) == 0:     # anisotropic cloud
        x = centre + (x - centre) * np.array([1.0, 0.3, 0.05][:d])
    allowed = ["perm", "axes", "rotate"] + ([] if vector else ["translate"])
    if N < 2:
        allowed = [k for k in allowed if k != "perm"]
    tf = draw(tf_st(allowed, N=N, K=1, d=d, F=1, ortho=True, ppp=np.zeros(d, dtype=int)))
    return {"d": d, "x": x, "tf": tf, "spread": spread, "tvec": 20.0 * tf["tfrac"][0]}


def transform_cloud(case):
    tf = case["tf"]
    x = case["x"]
    c = x.mean(axis=0)
    A = linear_part(tf, case["d"])
    y = (x - c) @ A.T + c + case["tvec"]
    out = np.empty_like(y)
    out[np.asarray(tf["perm"], dtype=int)] = y
    return out


def check_gyration(case):
    tf = case["tf"]
    d, x = case["d"], case["x"]
    y = transform_cloud(case)
    names = ["radius_of_gyration", "asphericity", "acylindricity", "shape_anisotropy", "fractal_dimension"] if d == 3 \
        else ["radius_of_gyration", "acylindricity", "fractal_dimension"]
    tags = [f"d{d}", "N<=3" if len(x) <= 3 else "N>3"] + tf_tags(tf)
    with np.errstate(all="ignore"):
        g0 = gyration_tensor(x.copy())
        g1 = gyration_tensor(y.copy())
    for nm, g in (("original", g0), ("transformed", g1)):
        require(isinstance(g, (list, tuple)) and len(g) == len(names), f"gyration_tensor({nm}) returned {g!r}")
    g0 = dict(zip(names, [float(np.real(v)) for v in g0]))
    g1 = dict(zip(names, [float(np.real(v)) for v in g1]))
    Rg = g0["radius_of_gyration"]
    if not (np.isfinite(Rg) and Rg > 1e-6 * case["spread"]):
        return {"nontrivial": False, "tags": tags + ["skip-degenerate-cloud"]}
    cond = max(float(np.abs(x).max()), float(np.abs(y).max())) / Rg    # distance from the origin in units of R_g
    rel = 1e-9 + 1e-14 * cond
    close_tol("radius of gyration", g1["radius_of_gyration"], Rg, atol=0.0, rtol=rel)
    close_tol("acylindricity", g1["acylindricity"], g0["acylindricity"], atol=rel * Rg ** 2, rtol=1e-9)
    if d == 3:
        close_tol("asphericity", g1["asphericity"], g0["asphericity"], atol=rel * Rg ** 2, rtol=1e-9)
        close_tol("shape anisotropy", g1["shape_anisotropy"], g0["shape_anisotropy"], atol=10 * rel, rtol=1e-9)
    lg = abs(math.log10(Rg))
    if lg > 1e-3:
        close_tol("fractal dimension", g1["fractal_dimension"], g0["fractal_dimension"], atol=0.0, rtol=rel / min(1.0, lg))
    else:
        tags.append("fractal-not-asserted")
    return {"nontrivial": bool(len(x) >= 3), "tags": tags}


def check_pr(case):
    tf = case["tf"]
    x = case["x"]
    tags = [f"d{case['d']}", "N1" if len(x) == 1 else "N>1"] + tf_tags(tf)
    if float(np.abs(x).max()) < 1e-6:
        return {"nontrivial": False, "tags": tags + ["skip-zero-field"]}
    A = linear_part(tf, case["d"])
    y = np.empty_like(x)
    y[np.asarray(tf["perm"], dtype=int)] = x @ A.T
    p0 = float(participation_ratio(x.copy()))
    p1 = float(participation_ratio(y.copy()))
    close_tol("participation ratio", p1, p0, atol=1e-13, rtol=1e-9)
    return {"nontrivial": bool(len(x) >= 2 and 1.0 / len(x) + 1e-9 < p0 < 1 - 1e-9), "tags": tags}


def describe_cloud(case):
    return {"d": case["d"], "x": np.round(case["x"][:4], 4).tolist(), "N": len(case["x"]), "tf": C.describe_tf(case["tf"])}
