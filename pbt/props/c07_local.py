"""C07 facets for the per-particle / spectral observables: boo_3d, boo_2d, tetrahedral order, Hessian, Dynamics.relaxation,
gyration descriptors, participation ratio.  Oracle: O(T x) = T' O(x); pbt/ref/geom only locates decision boundaries."""
from __future__ import annotations

import itertools
import math
import os
import warnings

import numpy as np
import pandas as pd
from hypothesis import strategies as st
from hypothesis.extra import numpy as hnp

from .. import gen
from ..gen import cell_st, fl, nice_float, ppp_st, types_st
from ..harness import Violation
from ..ref import geom
from ..util import arr, col, columns, require
from . import c07_common as C
from .c07_common import EPS, apply_tf, close_tol, config_st, dense, inv_perm, linear_part, tf_st, tf_tags

from PyMatterSim.dynamic.dynamics import Dynamics
from PyMatterSim.static.boo import boo_2d, boo_3d
from PyMatterSim.static.geometric import q8_tetrahedral
from PyMatterSim.static.hessians import HessianMatrix, InteractionParams, ModelName
from PyMatterSim.static.shape import gyration_tensor
from PyMatterSim.static.vector import participation_ratio
from PyMatterSim.static.sq import conditional_sq  # noqa: F401  (import check of a sibling module used by dynamics)

warnings.filterwarnings("ignore", category=RuntimeWarning)


def mask_tag(ppp):
    return "mask-full" if np.all(ppp) else ("mask-open" if not np.any(ppp) else "mask-partial")


def _seed(case):
    return case.get("seed", 0)


# ============================================================================= bond-orientational order (shared)

BOO_PROTOCOLS = ("fresh", "fresh", "inplace", "twice", "outfile", "interleave")


@st.composite
def boo_case(draw, d, size="mixed"):
    allowed = ["translate", "lattice", "perm", "axes", "rotate", "swap"]
    want = draw(C.pick(allowed))
    K = draw(st.integers(2, 3)) if want == "swap" else draw(st.integers(1, 2))       # labels are ignored by the routine
    N, bulk = draw(C.size_st((max(4, K), 14), size, boundary_hi=133 if d == 3 else 260, large=(199, 513),
                             share=14 if d == 3 else 10))
    cell = draw(cell_st(d, "any", lmin=2.0, lmax=20.0, origin="any"))
    if C.chance(draw, 5):
        cell = C.integerise(cell)
    ppp = draw(C.ppp_for(d, want))
    case = draw(C.any_config_st(d, N, bulk, cell, K, (1, 1) if bulk else (1, 2), ppp))
    F = len(case["pos"])
    cmax = min(N - 1, draw(C.pick([3, 4, 6, 8, 10, 12])))
    mode = draw(C.pick(["nearest", "random"]))
    Lmin = float(np.diag(cell["H"]).min())
    rng = np.random.default_rng(case["seed"] + 2) if bulk else None
    nl, degenerate = [], False
    for f in range(F):
        ii, jj, _, dist, tie = geom.pair_table(case["pos"][f], cell["H"], ppp)
        D = np.full((N, N), np.inf)
        # bonds whose direction is not defined (coincident pair, half-cell image tie) are never used
        D[ii, jj] = np.where(tie | (dist < 1e-6 * Lmin), np.inf, dist)
        lists = []
        for i in range(N):
            good = np.nonzero(np.isfinite(D[i]))[0]
            if len(good) == 0:
                degenerate = True
                lists.append([(i + 1) % N])
                continue
            top = min(cmax, len(good))
            cn = int(rng.integers(1, top + 1)) if bulk else draw(st.integers(1, top))
            if i == N - 1 and not degenerate:
                cn = top                     # the frame maximum is always reached (cn == Nmax classes)
            if mode == "nearest":
                js = good[np.argsort(D[i, good], kind="stable")][:cn]
            elif bulk:
                js = good[rng.permutation(len(good))[:cn]]
            else:
                idx = draw(st.lists(st.integers(0, len(good) - 1), min_size=cn, max_size=cn, unique=True))
                js = good[idx]
            lists.append([int(j) for j in js])
        nl.append(lists)
    # boo_2d documents weights of either sign (normalised by the sum of absolute values); boo_3d divides by the plain sum
    wmode = draw(C.pick(["none", "none", "random"] + (["mixed-sign"] if d == 2 else [])))
    w = None
    if wmode != "none":
        w = []
        for f in range(F):
            if bulk:
                tab = rng.uniform(0.05, 20.0, size=(N, cmax))
            else:
                tab = draw(dense((N, cmax), st.one_of(st.sampled_from([1.0, 0.5, 2.0]), fl(0.05, 20.0))))
            if wmode == "mixed-sign":
                sg = rng.integers(0, 2, size=tab.shape) if bulk else draw(hnp.arrays(np.int64, tab.shape, elements=st.integers(0, 1)))
                tab = tab * (2.0 * sg - 1.0)
            w.append([[float(x) for x in tab[i, :len(nl[f][i])]] for i in range(N)])
    maxcn = max(len(x) for fr in nl for x in fr)
    default_nmax = 30 if d == 3 else 10
    nmax_mode = draw(C.pick(["default", "exact", "exact", "plus", "large"]))
    if nmax_mode == "default" and maxcn > default_nmax:
        nmax_mode = "exact"
    if bulk:
        rows0 = [list(rng.permutation(N)) for _ in range(F)]
        rows1 = [list(rng.permutation(N)) for _ in range(F)]
    else:
        rows0 = [list(draw(st.permutations(range(N)))) for _ in range(F)]
        rows1 = [list(draw(st.permutations(range(N)))) for _ in range(F)]
    case.update(nl=nl, w=w, wmode=wmode, lmode=mode, degenerate=degenerate, rows0=rows0, rows1=rows1, maxcn=maxcn,
                nmax_mode=nmax_mode,
                Nmax={"default": None, "exact": maxcn, "plus": maxcn + draw(st.integers(1, 3)), "large": 200}[nmax_mode],
                l=draw(C.pick([1, 2, 3, 4, 4, 5, 6, 6, 6, 7, 8, 10, 12] if not (bulk and d == 3) else [2, 3, 4, 5, 6, 6])),
                wcg=draw(st.booleans()), l_other=draw(C.pick([1, 2, 3, 4, 5, 6])), obs="boo3d" if d == 3 else "boo2d",
                proto=draw(C.pick(BOO_PROTOCOLS)), intcell=True,
                bins=draw(st.integers(3, 12)), binfrac=draw(fl(0.15, 0.85)))
    case["tf"] = draw(tf_st(allowed, N=N, K=K, d=d, F=F, ortho=cell["kind"] == "ortho", ppp=ppp, first=want, rng=rng))
    return case


def write_boo_files(c, nl, w, rows, nfile, wfile):
    C.write_listfile(nfile, nl, rows=rows)
    if w is None:
        return None
    C.write_listfile(wfile, w, header="id cn weightlist", rows=rows, fmt=repr)
    return wfile


def bond_vectors(c, nl):
    out = []
    for f, pos in enumerate(c["pos"]):
        for i, js in enumerate(nl[f]):
            v, _ = geom.min_image(pos[np.asarray(js, dtype=int)] - pos[i], c["cell"]["H"], c["ppp"])
            out.append(v)
    return np.vstack(out)


def near_pole(v):
    """a bond so close to (but not on) the polar axis that theta = arccos(z/r) loses half its digits"""
    r = np.sqrt((v * v).sum(axis=1))
    s = np.sqrt(v[:, 0] ** 2 + v[:, 1] ** 2) / r
    return bool(np.any((s > 1e-10) & (s < 1e-5)))


def boo_tags(case):
    tf = case["tf"]
    l = case["l"]
    obs = ["q_l", "Q_l", "w_l", "w-hat_l", "sij"] if case["d"] == 3 else ["psi_l"]
    return C.config_tags(case) + [
        f"l{l}", "l-odd" if l % 2 else "l-even",
        ("wigner-cg" if case["wcg"] else "wigner-local") if (l <= 6 and case["d"] == 3 and len(case["types"]) <= 33)
        else "wigner-none",
        "w-" + case["wmode"], "lists-" + case["lmode"], "Nmax-" + case["nmax_mode"],
        f"maxcn{case['maxcn']}" if case["maxcn"] >= 10 else "maxcn<10"] + tf_tags(tf, obs + ["G_l(r)"])


def boo_extra_tol(case, new, bv):
    """relative rounding noise of a bond direction: coordinate noise / shortest bond used"""
    dmin = float(np.sqrt((bv * bv).sum(axis=1)).min())
    return C.coord_noise(case, new) / max(dmin, 1e-300)


def corr_rdelta(case):
    return float(np.diag(case["cell"]["H"]).min()) / 2.0 / (case["bins"] + case["binfrac"])


def compare_corr(name, df0, df1, case, new, tf, extra):
    """spatial correlation table (conditional_gr): r, the plain g(r) and the bond-order weighted G_l(r); bins with a
    pair on one of their edges are not decided (same rule as g(r))."""
    from .c07_static import gr_ambiguous_bins
    for nm, df in ((name + "(original)", df0), (name + "(transformed)", df1)):
        columns(nm, df, ["r", "gr", "gA"])
    o0 = {n: arr(f"{name}[{n}]", col(name, df0, n), ndim=1).astype(float) for n in ("r", "gr", "gA")}
    o1 = {n: arr(f"{name}[{n}]", col(name, df1, n), shape=o0[n].shape).astype(float) for n in ("r", "gr", "gA")}
    require(len(o0["r"]) == case["bins"], lambda: f"{name}: {len(o0['r'])} bins, int(Lmin / 2 / rdelta) = {case['bins']}")
    rd = corr_rdelta(case)
    noise_bins = 8.0 * C.coord_noise(case, new) / rd
    amb = gr_ambiguous_bins(dict(case, K=1), rd, case["bins"], noise_bins)["gr"]
    ok = ~amb
    close_tol(f"{name}: r column", o1["r"], o0["r"], atol=0.0, rtol=1e-9)
    if ok.any():
        # gA is a signed sum of pair weights |w| <= sum_m |q_lm|^2 <= (2l+1)/4pi < 2.5: errors scale with the gross sum
        gscale = max(1.0, float(np.abs(o0["gr"][ok]).max()))
        for n, ex, scale in (("gr", 0.0, gscale), ("gA", extra, 2.5 * gscale)):
            close_tol(f"{name}: column {n}", o1[n][ok], o0[n][ok], atol=(1e-11 + ex) * scale, rtol=1e-8, equal_nan=True)
    return int(amb.sum())


# ----------------------------------------------------------------------------- boo_3d


def run_boo3(name, c, nl, w, rows, l, tag, wcg, snaps=None, side=0, case=None):
    case = c if case is None else case
    proto = case.get("proto", "fresh")
    F, N = len(c["pos"]), len(c["types"])
    nfile = f"nb{tag}.dat"
    wfile = write_boo_files(c, nl, w, rows, nfile, f"w{tag}.dat")
    snaps = gen.snapshots_from(c) if snaps is None else snaps
    kw = {"weightsfile": wfile} if wfile else {}
    if case.get("Nmax") is not None:
        kw["Nmax"] = int(case["Nmax"])
    outfile = proto == "outfile" and side == 1
    with np.errstate(all="ignore"):
        b = boo_3d(snaps, l=int(l), neighborfile=nfile, ppp=np.array(c["ppp"]), **kw)
        C.KEPT.add(f"{name} smallqlm", b.smallqlm)
        C.KEPT.add(f"{name} largeQlm", b.largeQlm)
        out = {}
        for cg in (False, True):
            okw = {"outputfile": f"ql_{int(cg)}.npy"} if outfile else {}
            raw = C.KEPT.add(f"{name} ql_Ql(cg={cg})", b.ql_Ql(coarse_graining=cg, **okw))
            out["q", cg] = arr(f"{name} ql_Ql(cg={cg})", raw, shape=(F, N)).astype(float)
            if okw:
                require(os.path.exists(okw["outputfile"]), f"{name}: ql_Ql outputfile not written")
            if proto == "twice":
                again = C.KEPT.add(f"{name} ql_Ql(cg={cg}) #2", b.ql_Ql(coarse_graining=cg))
                C.same_again(f"{name} ql_Ql(cg={cg})", out["q", cg], arr(name, again, shape=(F, N)).astype(float))
            if cg != wcg:       # the Wigner contraction multiplies sympy Floats (0.1-0.3 s per call): one variant per case
                continue
            okw = {"outputw": "w_out.npy", "outputwcap": "wcap_out.npy"} if outfile else {}
            res = b.w_W_cap(coarse_graining=cg, **okw)
            require(isinstance(res, tuple) and len(res) == 2, f"{name}: w_W_cap must return (w, w_cap)")
            C.KEPT.add(f"{name} w_W_cap(cg={cg})", list(res))
            out["w", cg] = arr(f"{name} w(cg={cg})", res[0], shape=(F, N)).astype(float)
            out["wc", cg] = arr(f"{name} w_cap(cg={cg})", res[1], shape=(F, N)).astype(float)
            if okw:
                require(os.path.exists("w_out.npy") and os.path.exists("wcap_out.npy"), f"{name}: w_W_cap output files not written")
        # bond correlation s_ij of the (wcg or local) variant, and the spatial correlation table of the local q_lm
        cgs = bool(wcg)
        sij = b.sij_ql_Ql(coarse_graining=cgs)
        require(isinstance(sij, list) and len(sij) == F, f"{name}: sij_ql_Ql must return one array per snapshot")
        width = int(case["Nmax"]) if case.get("Nmax") is not None else 30
        out["sij"] = [arr(f"{name} sij frame {f}", C.KEPT.add(f"{name} sij[{f}]", x), shape=(N, 2 + width)).astype(float)
                      for f, x in enumerate(sij)]
        if N <= 40:
            out["corr"] = C.KEPT.add(f"{name} spatial_corr", b.spatial_corr(coarse_graining=False, rdelta=corr_rdelta(case)))
    return out


def check_boo3(case):
    tf = case["tf"]
    kept = C.new_kept()
    tags = boo_tags(case)
    if case["degenerate"]:
        return {"nontrivial": False, "tags": tags + ["skip-no-usable-bond"]}
    l = case["l"]
    F, N = len(case["pos"]), len(case["types"])
    new = apply_tf(case, tf)
    nl1 = C.permute_lists(case["nl"], tf["perm"])
    w1 = None if case["w"] is None else C.permute_lists(case["w"], tf["perm"], values=True)
    bv0, bv1 = bond_vectors(case, case["nl"]), bond_vectors(new, nl1)
    if near_pole(bv0) or near_pole(bv1):
        return {"nontrivial": False, "tags": tags + ["skip-near-pole"]}
    # the Wigner contraction multiplies sympy Floats per particle (7 ms each): not for the large systems
    wcg = case["wcg"] if (l <= 6 and N <= 33) else None

    def run(c, sn, side):
        out = run_boo3("boo_3d(transformed)" if side else "boo_3d(original)", c, nl1 if side else case["nl"],
                       w1 if side else case["w"], case["rows1"] if side else case["rows0"], l, str(side), wcg, sn, side, case)
        if side == 0 and case["proto"] == "interleave":
            # another degree on other data between the two evaluations: results of degree l handed out before must
            # not move (per-degree work buffers)
            run_boo3("boo_3d(other degree)", new, nl1, w1, case["rows1"], case["l_other"], "x", None, None, 0,
                     dict(case, proto="fresh"))
            run_boo3("boo_3d(same degree, other data)", new, nl1, w1, case["rows1"], l, "y", None, None, 0,
                     dict(case, proto="fresh"))
        return out
    o0, o1, ptags = C.two_runs(case, new, run)
    inv = inv_perm(tf["perm"])
    sign = float(round(np.linalg.det(linear_part(tf, 3)))) ** l      # w_l is a pseudo-scalar for odd l
    ex = (l + 1) * max(boo_extra_tol(case, new, bv0), boo_extra_tol(case, new, bv1))
    asserted = 0
    for cg in (False, True):
        nm = "coarse-grained " if cg else ""
        q0 = o0["q", cg][:, inv]
        close_tol(f"boo_3d {nm}q_l", o1["q", cg], q0, atol=1e-11 + ex, rtol=1e-8)
        if cg != wcg:
            continue
        close_tol(f"boo_3d {nm}w_l", o1["w", cg], sign * o0["w", cg][:, inv], atol=1e-12 + ex, rtol=1e-8)
        norm2 = q0 ** 2 * (2 * l + 1) / (4 * np.pi)
        ok = norm2 >= 1e-4
        asserted += int(ok.sum())
        if ok.any():
            close_tol(f"boo_3d {nm}w-hat_l", o1["wc", cg][ok], sign * o0["wc", cg][:, inv][ok],
                      atol=(1e-13 + ex) / norm2[ok] ** 1.5, rtol=1e-8)
    # s_ij: row perm[i] of the relabelled system = row i of the original (id and cn columns mapped, bond order kept);
    # stored as float32 (2 ulp at 1.0 = 2.4e-7); asserted where both bond-order vectors have a usable norm
    qn = o0["q", bool(wcg)]
    sij_asserted = 0
    for f in range(F):
        a0, a1 = o0["sij"][f], o1["sij"][f]
        perm = np.asarray(tf["perm"], dtype=int)
        close_tol("boo_3d sij table: id column", a1[:, 0], np.arange(N) + 1.0, atol=0.0, rtol=0.0)
        close_tol("boo_3d sij table: CN column", a1[perm, 1], a0[:, 1], atol=0.0, rtol=0.0)
        for i in range(N):
            js = case["nl"][f][i]
            require(int(a0[i, 1]) == len(js), lambda: f"boo_3d sij: particle {i + 1} has CN {a0[i, 1]}, its list has {len(js)}")
            good = np.array([(qn[f, i] ** 2) * (2 * l + 1) / (4 * np.pi) >= 1e-4 and
                             (qn[f, j] ** 2) * (2 * l + 1) / (4 * np.pi) >= 1e-4 for j in js], dtype=bool)
            if good.any():
                sij_asserted += int(good.sum())
                close_tol(f"boo_3d s_ij of particle {i + 1} (new id {perm[i] + 1})", a1[perm[i], 2:2 + len(js)][good],
                          a0[i, 2:2 + len(js)][good], atol=2.5e-7 + 100 * ex, rtol=0.0)
            pad0, pad1 = a0[i, 2 + len(js):], a1[perm[i], 2 + len(js):]
            require(not pad0.any() and not pad1.any(), lambda: f"boo_3d sij: entries beyond the coordination number of "
                    f"particle {i + 1} are not zero")
    namb = 0
    if "corr" in o0 and not C.tri_tie(case):
        namb = compare_corr("boo_3d spatial_corr", o0["corr"], o1["corr"], case, new, tf, 10 * ex)
        tags.append("G_l(r)-asserted")
    return {"nontrivial": C.nondegenerate(o0["q", False]), "tags": tags + ptags,
            "extra": {"w_hat_asserted": asserted, "sij_asserted": sij_asserted, "corr_bins_ambiguous": namb,
                      "kept_results_rechecked": kept.verify()}}


# ----------------------------------------------------------------------------- boo_2d


def run_boo2(name, c, nl, w, rows, l, tag, snaps=None, side=0, case=None):
    case = c if case is None else case
    proto = case.get("proto", "fresh")
    F, N = len(c["pos"]), len(c["types"])
    nfile = f"nb{tag}.dat"
    wfile = write_boo_files(c, nl, w, rows, nfile, f"w{tag}.dat")
    snaps = gen.snapshots_from(c) if snaps is None else snaps
    kw = {"weightsfile": wfile} if wfile else {}
    if case.get("Nmax") is not None:
        kw["Nmax"] = int(case["Nmax"])
    if proto == "outfile" and side == 1:
        kw["output_phi"] = "phi_out.npy"
    b = boo_2d(snaps, l=int(l), neighborfile=nfile, ppp=np.array(c["ppp"]), **kw)
    psi = arr(f"{name} ParticlePhi", C.KEPT.add(f"{name} ParticlePhi", b.ParticlePhi), shape=(F, N))
    require(np.iscomplexobj(psi), f"{name}: order parameter is not complex")
    if "output_phi" in kw:
        require(os.path.exists("phi_out.npy"), f"{name}: output_phi file not written")
    if proto == "twice":
        again = arr(f"{name} lthorder() #2", C.KEPT.add(f"{name} lthorder #2", b.lthorder()), shape=(F, N))
        C.same_again(f"{name} lthorder (real part)", psi.real, again.real)
        C.same_again(f"{name} lthorder (imaginary part)", psi.imag, again.imag)
    corr = None
    if N <= 40:
        corr = C.KEPT.add(f"{name} spatial_corr", b.spatial_corr(rdelta=corr_rdelta(case)))
    return psi.copy(), corr


def check_boo2(case):
    tf = case["tf"]
    kept = C.new_kept()
    tags = boo_tags(case)
    if case["degenerate"]:
        return {"nontrivial": False, "tags": tags + ["skip-no-usable-bond"]}
    l = case["l"]
    new = apply_tf(case, tf)
    nl1 = C.permute_lists(case["nl"], tf["perm"])
    w1 = None if case["w"] is None else C.permute_lists(case["w"], tf["perm"], values=True)

    def run(c, sn, side):
        out = run_boo2("boo_2d(transformed)" if side else "boo_2d(original)", c, nl1 if side else case["nl"],
                       w1 if side else case["w"], case["rows1"] if side else case["rows0"], l, str(side), sn, side, case)
        if side == 0 and case["proto"] == "interleave":
            run_boo2("boo_2d(other degree)", new, nl1, w1, case["rows1"], case["l_other"], "x", None, 0, dict(case, proto="fresh"))
            run_boo2("boo_2d(same degree, other data)", new, nl1, w1, case["rows1"], l, "y", None, 0, dict(case, proto="fresh"))
        return out
    (p0, c0), (p1, c1), ptags = C.two_runs(case, new, run)
    inv = inv_perm(tf["perm"])
    want = p0[:, inv]
    ex = l * max(boo_extra_tol(case, new, bond_vectors(case, case["nl"])), boo_extra_tol(case, new, bond_vectors(new, nl1)))
    close_tol("boo_2d |psi_l|", np.abs(p1), np.abs(want), atol=1e-11 + ex, rtol=1e-8)
    # the complex value itself: unchanged by translations / lattice shifts / relabelling, multiplied by exp(i l alpha)
    # under a proper rotation by alpha (l-fold definition); a reflection (axis swap) only fixes the modulus
    if tf["axes"] is None:
        phase = np.exp(1j * l * tf["angle"]) if tf["R"] is not None else 1.0
        close_tol("boo_2d psi_l (complex value, rotated by exp(i l alpha))", p1, phase * want, atol=1e-10 + 2 * ex, rtol=1e-8)
        tags.append("phase-asserted")
    namb = 0
    if c0 is not None and not C.tri_tie(case):
        namb = compare_corr("boo_2d spatial_corr", c0, c1, case, new, tf, 10 * ex)
        tags.append("G_l(r)-asserted")
    return {"nontrivial": C.nondegenerate(np.abs(p0)), "tags": tags + ptags,
            "extra": {"corr_bins_ambiguous": namb, "kept_results_rechecked": kept.verify()}}


# ============================================================================= tetrahedral order


@st.composite
def tetra_case(draw, size="mixed"):
    allowed = ["translate", "lattice", "perm", "axes", "rotate", "swap"]
    want = draw(C.pick(allowed))
    K = draw(st.integers(2, 3)) if want == "swap" else draw(st.integers(1, 2))       # labels are ignored by the routine
    N, bulk = draw(C.size_st((6, 14), size))
    if not bulk and C.chance(draw, 5):
        N = 5
    cell = draw(cell_st(3, "any", lmin=2.0, lmax=20.0, origin="any"))
    if C.chance(draw, 5):
        cell = C.integerise(cell)
    ppp = draw(C.ppp_for(3, want))
    case = draw(C.any_config_st(3, N, bulk, cell, K, (1, 1) if bulk else (1, 2), ppp))
    case["obs"] = "tetrahedral"
    case["proto"] = draw(C.pick(["fresh", "fresh", "inplace", "outfile"]))
    case["intcell"] = True
    case["tf"] = draw(tf_st(allowed, N=N, K=K, d=3, F=len(case["pos"]), ortho=cell["kind"] == "ortho", ppp=ppp,
                            first=want, rng=np.random.default_rng(case["seed"] + 1) if bulk else None))
    return case


def tetra_ambiguous(case, noise=0.0):
    """(undecided particles, shortest distance to one of the four nearest neighbours)"""
    H = case["cell"]["H"]
    Lmax, Lmin = float(np.diag(H).max()), float(np.diag(H).min())
    F, N = len(case["pos"]), len(case["types"])
    amb = np.zeros((F, N), dtype=bool)
    dmin = np.inf
    for f in range(F):
        ii, jj, _, dist, tie = C.pair_info(case, f)
        D = np.full((N, N), np.inf)
        D[ii, jj] = dist
        T = np.zeros((N, N), dtype=bool)
        T[ii, jj] = tie
        for i in range(N):
            o = np.argsort(D[i])
            d4 = D[i, o[3]]
            tol = EPS * (d4 + Lmax) + 8.0 * noise
            amb[f, i] = bool((N - 1 > 4 and D[i, o[4]] - d4 <= tol) or np.any(T[i] & (D[i] <= d4 + tol))
                             or D[i, o[0]] < 1e-7 * Lmin)
            if not amb[f, i]:
                dmin = min(dmin, float(D[i, o[0]]))
    return amb, dmin


def run_tetra(name, c, snaps=None, side=0):
    proto = c.get("proto", "fresh")
    snaps = gen.snapshots_from(c) if snaps is None else snaps
    kw = {"outputfile": "tetra_out.npy"} if (proto == "outfile" and side == 1) else {}
    with np.errstate(all="ignore"):
        q = C.KEPT.add(name, q8_tetrahedral(snaps, ppp=np.array(c["ppp"]), **kw))
    if kw:
        require(os.path.exists("tetra_out.npy"), f"{name}: outputfile not written")
    return arr(name, q, shape=(len(c["pos"]), len(c["types"]))).astype(float)


def check_tetra(case):
    tf = case["tf"]
    kept = C.new_kept()
    N = len(case["types"])
    tags = ["N5" if N == 5 else "N6+"] + C.config_tags(case) + tf_tags(tf, "tetrahedral")
    if C.tri_tie(case):
        return {"nontrivial": False, "tags": tags + ["skip-tri-tie"]}
    new = apply_tf(case, tf)
    q0, q1, ptags = C.two_runs(case, new, lambda c, sn, side: run_tetra(
        "q8_tetrahedral(transformed)" if side else "q8_tetrahedral(original)", dict(c, proto=case["proto"]), sn, side))
    noise = C.coord_noise(case, new)
    amb, dmin = tetra_ambiguous(case, noise)
    inv = inv_perm(tf["perm"])
    ok = ~amb[:, inv]
    if ok.any():
        # six squared (cos + 1/3) terms, each cosine carries the relative noise of two bond vectors
        close_tol("tetrahedral order per particle", q1[ok], q0[:, inv][ok], atol=1e-12 + 10.0 * noise / dmin, rtol=1e-8)
    if amb.any():
        tags.append("has-ambiguous")
    return {"nontrivial": bool(ok.any() and C.nondegenerate(q0[~amb])), "tags": tags + ptags,
            "extra": {"particles_ambiguous": int(amb.sum()), "particles_asserted": int(ok.sum()),
                      "kept_results_rechecked": kept.verify()}}


# ============================================================================= Hessian

MODELS = ("lennard_jones", "inverse_power_law", "harmonic_hertz")
# lattice spacing / sigma_max, smallest sigma ratio, cut-off factor range
GEOM = {"lennard_jones": ((0.95, 1.3), 0.7, (1.5, 2.5)),
        "inverse_power_law": ((0.9, 1.1), 0.75, (1.3, 1.8)),
        "harmonic_hertz": ((0.84, 0.92), 0.9, (1.0, 1.0))}
DMIN = 0.81


def _sym(draw, K, lo, hi):
    m = np.zeros((K, K))
    for a in range(K):
        for b in range(a, K):
            m[a, b] = m[b, a] = draw(nice_float(lo, hi))
    return m


def perp_widths(H):
    Hi = np.linalg.inv(H)
    return 1.0 / np.sqrt((Hi * Hi).sum(axis=0))


@st.composite
def hess_case(draw, size="mixed"):
    allowed = ["translate", "lattice", "perm", "swap", "axes", "rotate"]
    want = draw(C.pick(allowed))
    model = draw(C.pick(MODELS))
    d = draw(C.pick([2, 3]))
    K = draw(C.pick([2, 2, 3] + ([] if want == "swap" else [1])))
    (fa_lo, fa_hi), smin, (c_lo, c_hi) = GEOM[model]
    sig = _sym(draw, K, smin, 1.0)
    sig = sig / sig.max() * draw(st.sampled_from([1.0, 1.0, 0.7, 1.6]))
    smax = float(sig.max())
    rc = sig.copy() if model == "harmonic_hertz" else sig * _sym(draw, K, c_lo, c_hi)
    inteps = C.chance(draw, 4)          # integer-valued cohesive energies (handed over as int64 on one side)
    eps = _sym(draw, K, 0.5, 2.0)
    if inteps:
        eps = np.maximum(1.0, np.rint(eps))
    mass_mode = draw(C.pick(["equal", "unequal", "unequal", "unequal-int"])) if K > 1 else "equal"
    if mass_mode == "unequal":
        masses = np.array(draw(st.lists(st.integers(5, 50), min_size=K, max_size=K, unique=True)), dtype=float) / 10.0
    elif mass_mode == "unequal-int":
        masses = np.array(draw(st.lists(st.integers(1, 9), min_size=K, max_size=K, unique=True)), dtype=float)
    else:
        masses = np.full(K, draw(st.sampled_from([1.0, 2.5])))
    a0 = smax * draw(fl(fa_lo, fa_hi))
    stretch = [0.0, 0.0, 0.03, 0.06] if model == "harmonic_hertz" else [0.0, 0.0, 0.1, 0.25]
    ak = a0 * (1.0 + np.array([draw(st.sampled_from(stretch)) for _ in range(d)]))
    if size == "large" or isinstance(size, tuple) or (size == "mixed" and C.chance(draw, 20)):
        # particle number on a block boundary: a larger blob (the assembly is a Python double loop over particles)
        N = draw(C.pick([33, 51, 65, 101, 129] + C.boundary_sizes(31, 133) if size != "large" else C.boundary_sizes(190, 260)))
        if isinstance(size, tuple):
            N = int(size[1])
        m = int(np.ceil(N ** (1.0 / d)))
        bl = [m] * d
        bulk = True
    else:
        bl = [draw(st.integers(2, 4)) for _ in range(d)] if d == 2 else [draw(st.integers(1, 3)) for _ in range(d)]
        if int(np.prod(bl)) < 4:
            bl[0], bl[1] = 2, 2
        N = None
        bulk = False
    sites = np.array(list(itertools.product(*[range(b) for b in bl])), dtype=float)
    seed = draw(st.integers(0, 2 ** 32 - 1))
    rng = np.random.default_rng(seed)
    if N is None:
        N = draw(st.integers(max(4, K), min(12, len(sites))))
        sites = sites[list(draw(st.permutations(range(len(sites))))[:N])]
    else:
        sites = sites[rng.permutation(len(sites))[:N]]
    jmax = (a0 - DMIN * smax) / (2.0 * np.sqrt(d))
    jf = draw(st.sampled_from([0.0, 0.3, 1.0, 1.0, 1.0]))
    jit = rng.uniform(-1.0, 1.0, size=(N, d)) if bulk else draw(dense((N, d), fl(-1.0, 1.0)))
    local = sites * ak + jf * jmax * jit
    diam = float(np.linalg.norm((np.array(bl) - 1) * ak + 2 * jf * jmax))
    ppp = draw(C.ppp_for(d, want))
    tri = bool(ppp.all()) and draw(st.integers(0, 1)) == 0
    W = 1.06 * max(2.0 * rc.max(), diam + rc.max())
    L = W * np.array([draw(st.sampled_from([1.0, 1.0, 1.3, 2.0])) for _ in range(d)])
    Hm = np.diag(L)
    if tri:
        Hm[1, 0] = draw(fl(-0.5, 0.5)) * L[0]
        if d == 3:
            Hm[2, 0] = draw(fl(-0.5, 0.5)) * L[0]
            Hm[2, 1] = draw(fl(-0.5, 0.5)) * L[1]
        if not np.any(Hm - np.diag(L)):
            Hm[1, 0] = 0.3 * L[0]
        w = perp_widths(Hm).min()
        if w < W:
            Hm = Hm * (W / w * 1.001)
    lo = np.zeros(d) if draw(st.booleans()) else np.array([draw(nice_float(-20.0, 20.0)) for _ in range(d)])
    origin = draw(dense((d,), fl(0.0, 1.0, exclude_max=True))) @ Hm
    f = geom.frac_coords(origin + local, Hm)
    f = np.where(ppp > 0, f - np.floor(f), f)      # wrapped through the periodic faces only
    images, unwrapped = draw(C.unwrap_st(N, d, ppp, rng=rng if bulk else None))
    pos = lo + (f + images) @ Hm
    cell = {"d": d, "kind": "tri" if tri else "ortho", "H": Hm, "lo": lo, "origin": "any"}
    if bulk:
        types = np.concatenate([np.arange(1, K + 1), rng.integers(1, K + 1, size=N - K)])[rng.permutation(N)].astype(int)
    else:
        types = draw(types_st(N, K))
    case = {"d": d, "cell": cell, "pos": [pos], "types": types, "ppp": ppp, "K": K, "kind": f"blob-j{jf}",
            "timesteps": [0], "outside": bool(np.any(images)), "unwrapped": unwrapped, "model": model, "eps": eps, "sig": sig,
            "rc": rc, "masses": masses, "mass_mode": mass_mode, "inteps": inteps, "seed": seed, "bulk": bulk,
            "n": draw(st.sampled_from([6, 10, 12, 10.0, 12.0])) if draw(st.integers(0, 3)) else draw(fl(4.0, 14.0)),
            "A": draw(st.one_of(st.just(1.0), nice_float(0.5, 3.0))),
            "alpha": draw(st.sampled_from([2.0, 2.5, 3.0])) if draw(st.integers(0, 3)) else draw(fl(2.0, 3.0)),
            "shift": draw(st.booleans()), "obs": "hessian",
            # how the species tables reach the routine on the transformed side
            "mass_rep": draw(C.pick(["plain", "plain", "extra-keys", "reversed", "int-values"])),
            "saveevecs": C.chance(draw, 3), "savehessian": not C.chance(draw, 6),
            "proto": draw(C.pick(["fresh", "fresh", "fresh", "inplace", "default-stem"]))}
    case["tf"] = draw(tf_st(allowed, N=N, K=K, d=d, F=1, ortho=not tri, ppp=ppp, first=want, rng=rng if bulk else None))
    return case


def mass_dict(masses, rep):
    """masses: dict type id -> mass, in the representations a caller may use"""
    K = len(masses)
    items = [(k + 1, float(x)) for k, x in enumerate(masses)]
    if rep == "int-values" and all(float(x).is_integer() for _, x in items):
        items = [(k, int(x)) for k, x in items]
    if rep == "extra-keys":          # more species in the table than the configuration uses
        items = [(K + 2, 77.0)] + items + [(K + 1, 0.125)]
    if rep == "reversed":
        items = items[::-1]
    return dict(items)


def run_hess(name, c, eps, sig, rc, masses, stem, snap=None, side=0, case=None):
    case = c if case is None else case
    m = c["model"]
    if m == "lennard_jones":
        ip = InteractionParams(model_name=ModelName.lennard_jones)
    elif m == "inverse_power_law":
        ip = InteractionParams(model_name=ModelName.inverse_power_law, ipl_n=c["n"], ipl_A=c["A"])
    else:
        ip = InteractionParams(model_name=ModelName.harmonic_hertz, harmonic_hertz_alpha=c["alpha"])
    snap = gen.snapshot_from(c["cell"], c["pos"][0], c["types"]) if snap is None else snap
    eps = np.array(eps)
    if side == 1 and case.get("inteps"):
        eps = np.rint(eps).astype(np.int64)
    h = HessianMatrix(snapshot=snap, masses=mass_dict(masses, case.get("mass_rep", "plain") if side == 1 else "plain"),
                      epsilons=eps, sigmas=np.array(sig), r_cuts=np.array(rc), ppp=np.array(c["ppp"]),
                      shiftpotential=bool(c["shift"]))
    default_stem = case.get("proto") == "default-stem" and side == 1
    out_stem = ModelName[m].name if default_stem else stem
    f_h, f_c, f_e = f"{out_stem}.hessianmatrix.npy", f"{out_stem}.omega_PR.csv", f"{out_stem}.evecs.npy"
    for fn in (f_h, f_c, f_e):
        if os.path.exists(fn):
            os.remove(fn)
    saveh, savee = bool(case.get("savehessian", True)), bool(case.get("saveevecs", False))
    with np.errstate(all="ignore"):
        h.diagonalize_hessian(interaction_params=ip, saveevecs=savee, savehessian=saveh,
                              **({} if default_stem else {"outputfile": stem}))
    require(os.path.exists(f_c), f"{name}: {f_c} not written")
    require(os.path.exists(f_h) == saveh, f"{name}: savehessian={saveh} but {f_h} " + ("missing" if saveh else "written"))
    require(os.path.exists(f_e) == savee, f"{name}: saveevecs={savee} but {f_e} " + ("missing" if savee else "written"))
    dN = c["d"] * len(c["types"])
    Hm = arr(f"{name} saved Hessian", np.load(f_h), shape=(dN, dN)).astype(float) if saveh else None
    ev = arr(f"{name} saved eigenvectors", np.load(f_e), shape=(dN, dN)).astype(float) if savee else None
    df = pd.read_csv(f_c)
    columns(f"{name} omega_PR.csv", df, ["omega", "PR"])
    om = arr(f"{name} omega", col(name, df, "omega"), shape=(dN,)).astype(float)
    pr = arr(f"{name} PR", col(name, df, "PR"), shape=(dN,)).astype(float)
    return Hm, om, pr, ev


def check_hess(case):
    tf = case["tf"]
    d, N = case["d"], len(case["types"])
    tags = [case["model"], "shift" if case["shift"] else "noshift", "mass-" + case["mass_mode"], "massrep-" + case["mass_rep"],
            "eps-int64" if case["inteps"] else "eps-float", "saveevecs" if case["saveevecs"] else "no-evecs",
            "savehessian" if case["savehessian"] else "no-savehessian", "proto-" + case["proto"]] \
        + C.config_tags(case) + tf_tags(tf, ["hessian-matrix", "omega", "PR"])
    # decision boundary: a pair on its cut-off
    ii, jj, _, dist, _ = C.pair_info(case, 0)
    t0 = np.asarray(case["types"]) - 1
    rcp = case["rc"][t0[ii], t0[jj]]
    if np.any(np.abs(dist - rcp) <= 1e-6 * rcp):
        return {"nontrivial": False, "tags": tags + ["skip-pair-on-cutoff"]}
    new = apply_tf(case, tf)
    # conditioning: the logarithmic derivative d ln(s'', s') / dr of a pair block is <= alpha / (r_c - r) for
    # the Hertzian family (it vanishes like a power of r_c - r) and <= 20 / r for the power laws; times the coordinate
    # rounding noise this is the relative accuracy the symmetry can hold to
    inter = dist < rcp
    if inter.any():
        sens = (3.0 / (rcp[inter] - dist[inter]) + 3.0 / dist[inter]) if case["model"] == "harmonic_hertz" \
            else 20.0 / dist[inter]
        cond = 4.0 * float(sens.max()) * C.coord_noise(case, new)
    else:
        cond = 0.0
    sm = lambda m: C_swap(m, tf["sigma"])  # noqa: E731
    mass1 = np.empty_like(case["masses"])
    mass1[np.asarray(tf["sigma"], dtype=int) - 1] = case["masses"]
    snap0 = gen.snapshot_from(case["cell"], case["pos"][0], case["types"])
    H0, om0, pr0, ev0 = run_hess("Hessian(original)", case, case["eps"], case["sig"], case["rc"], case["masses"], "h0", snap0, 0, case)
    snap1 = None
    if case["proto"] == "inplace":
        from PyMatterSim.reader.reader_utils import Snapshots
        snap1 = C.mutate_snaps(Snapshots(nsnapshots=1, snapshots=[snap0]), new).snapshots[0]
    H1, om1, pr1, ev1 = run_hess("Hessian(transformed)", new, sm(case["eps"]), sm(case["sig"]), sm(case["rc"]), mass1, "h1",
                                 snap1, 1, case)
    # expected matrix: u' = P u with P[(perm[i], a'), (i, a)] = A[a', a]
    A = linear_part(tf, d)
    perm = np.asarray(tf["perm"], dtype=int)
    P = np.zeros((d * N, d * N))
    for i in range(N):
        P[perm[i] * d:(perm[i] + 1) * d, i * d:(i + 1) * d] = A
    nontrivial = True
    if H0 is not None:
        want = P @ H0 @ P.T
        gmax = float(np.abs(H0).max())
        blk = np.abs(want).reshape(N, d, N, d).max(axis=(1, 3))
        atol = (1e-8 + cond) * np.repeat(np.repeat(blk, d, axis=0), d, axis=1) + 1e-10 * gmax
        close_tol("saved Hessian matrix (transformed vs P H P^T of the original)", H1, want, atol=atol, rtol=0.0)
        nontrivial = bool(gmax > 0 and np.count_nonzero(H0) > d * d)
    lam0 = np.where(om0 > 0, om0 ** 2, om0)
    lam1 = np.where(om1 > 0, om1 ** 2, om1)
    nrm = max(float(np.abs(lam0).max()), 1e-300)
    close_tol("Hessian eigenvalues (omega^2, ascending)", lam1, lam0, atol=(1e-9 + 10.0 * cond) * nrm, rtol=0.0)
    big = lam0 > 1e-6 * nrm
    if big.any():
        close_tol("eigenfrequencies omega", om1[big], om0[big], atol=10.0 * cond * nrm / np.sqrt(lam0[big]), rtol=1e-7)
    # participation ratio: only where the eigenvector is determined (isolated eigenvalue)
    gap = np.full(len(lam0), np.inf)
    dl = np.diff(lam0)
    gap[1:] = np.minimum(gap[1:], dl)
    gap[:-1] = np.minimum(gap[:-1], dl)
    iso = gap > 1e-3 * nrm
    if iso.any():
        close_tol("participation ratio of isolated modes", pr1[iso], pr0[iso], atol=(1e-11 + 20.0 * cond) * nrm / gap[iso],
                  rtol=1e-8)
    nvec = 0
    if ev0 is not None and iso.any():
        # saved eigenvectors of isolated modes: column k of the transformed run = +- P (column k of the original)
        ov = np.abs(np.einsum("ik,ik->k", P @ ev0[:, iso], ev1[:, iso]))
        nvec = int(iso.sum())
        close_tol("saved eigenvectors of isolated modes: |<P e_k, e'_k>|", ov, np.ones(nvec), atol=(1e-9 + 20.0 * cond) * nrm / gap[iso], rtol=0.0)
    return {"nontrivial": bool(nontrivial and nrm > 1e-300), "tags": tags,
            "extra": {"pr_modes_asserted": int(iso.sum()), "modes": len(lam0), "eigenvectors_asserted": nvec}}


def C_swap(m, sigma):
    s = np.asarray(sigma, dtype=int) - 1
    out = np.empty_like(m)
    out[np.ix_(s, s)] = m
    return out


# ============================================================================= Dynamics.relaxation


@st.composite
def dyn_case(draw, size="mixed"):
    allowed = ["translate", "lattice", "perm", "swap", "axes"]
    want = draw(C.pick(allowed))
    d = draw(C.pick([2, 3]))
    cell = draw(cell_st(d, "any", lmin=3.0, lmax=20.0, origin="any"))
    if C.chance(draw, 5):
        cell = C.integerise(cell)
    N, bulk = draw(C.size_st((3, 10), size))
    K = draw(st.integers(2, 3)) if want == "swap" else draw(st.integers(1, 3))
    N = max(N, K)
    T = draw(st.integers(2, 5))
    if isinstance(size, tuple) and size[0] == "frames":      # the size sweep over the number of frames
        N, bulk, T = draw(st.integers(max(3, K), 8)), False, int(size[1])
    elif not bulk and size != "large" and C.chance(draw, 12):
        T = draw(st.sampled_from([31, 32, 33]))           # number of frames on a block boundary
    mode = draw(C.pick(["xu", "x", "both"]))
    if mode == "x":
        ppp = draw(ppp_st(d, True))
        if not ppp.any():
            ppp = np.ones(d, dtype=int)
    elif want == "lattice":
        ppp = np.ones(d, dtype=int)
    else:
        ppp = draw(C.pick([np.zeros(d, dtype=int), np.ones(d, dtype=int)]))
    seed = draw(st.integers(0, 2 ** 32 - 1))
    rng = np.random.default_rng(seed)
    critical = mode == "x" and bool(ppp.all()) and cell["kind"] == "tri" and C.chance(draw, 2)
    if critical:
        # every particle makes the SAME step, short in every Cartesian component but beyond the half cell along the
        # first cell vector of a strongly tilted cell (EXTENSION_3 class 4: the whole batch is in the critical region)
        sgn = draw(st.sampled_from([-1.0, 1.0]))
        cell["H"][1, 0] = sgn * 0.45 * cell["H"][0, 0]
    if bulk:
        kind = "bulk-" + draw(C.pick(["gas", "lattice-jit", "cluster"]))
        f0 = C.bulk_fracs(rng, N, d, kind[5:])
    else:
        f0, kind = draw(C.fracs_st(d, N, exact_ok=False, kinds=("gas", "lattice-jit", "cluster")))
    fu = [f0]
    for _ in range(T - 1):
        amp = draw(C.pick([0.005, 0.02, 0.1, 0.3, 0.3]))
        if critical:
            base = np.zeros(d)
            base[0], base[1] = 0.62, -0.4 * sgn
            step = base[None, :] * draw(st.sampled_from([1.0, -1.0])) + 1e-3 * rng.uniform(-1.0, 1.0, size=(N, d))
        elif bulk or T > 8:
            step = amp * rng.uniform(-1.0, 1.0, size=(N, d))
        else:
            step = amp * draw(dense((N, d), fl(-1.0, 1.0)))
        if draw(st.integers(0, 3)) == 3 and not critical:       # some particles arrested in this interval
            step = step * (rng.integers(0, 2, size=(N, 1)) if (bulk or T > 8) else
                           draw(hnp.arrays(np.int64, (N, 1), elements=st.integers(0, 1))))
        fu.append(fu[-1] + step)
    H, lo = cell["H"], cell["lo"]
    pos_u = [lo + f @ H for f in fu]
    pos_x = [lo + np.where(ppp > 0, f - np.floor(f), f) @ H for f in fu]
    t0 = draw(st.integers(0, 10 ** 5))
    dts = draw(st.integers(1, 2000))
    diam = np.array([1.0, draw(st.sampled_from([1.0, 1.4, 0.8])), draw(st.sampled_from([2.0, 1.2, 3.0]))][:K]) \
        * draw(st.sampled_from([1.0, 1.0, 0.5, 2.0]))
    if bulk:
        types = np.concatenate([np.arange(1, K + 1), rng.integers(1, K + 1, size=N - K)])[rng.permutation(N)].astype(int)
    else:
        types = draw(types_st(N, K))
    case = {"d": d, "cell": cell, "pos": pos_x if mode == "x" else pos_u, "posx": pos_x if mode == "both" else None,
            "types": types, "ppp": ppp, "K": K, "kind": kind + ("+critical-steps" if critical else ""),
            "timesteps": [t0 + k * dts for k in range(T)], "outside": False, "mode": mode, "seed": seed, "critical": critical,
            "diam": diam, "a": draw(st.sampled_from([0.1, 0.3, 0.5, 1.0])),
            "cal_type": draw(st.sampled_from(["slow", "slow", "fast"])),
            "qconst": draw(st.sampled_from([2 * np.pi, 7.0, 1.0])), "dt": draw(st.sampled_from([0.002, 1.0, 0.005])),
            "obs": "relaxation", "proto": draw(C.pick(C.PROTOCOLS)), "intcell": True,
            "diam_rep": draw(C.pick(["plain", "plain", "extra-keys", "reversed", "int-values"])),
            # type ids that are not 1..K on the transformed side (the routine only looks the diameters up by label)
            "labels": sorted(draw(st.lists(st.integers(1, 9), min_size=K, max_size=K, unique=True))) if C.chance(draw, 4)
            else list(range(1, K + 1))}
    big = bulk or T > 8
    cond = None
    if draw(st.integers(0, 2)) == 0:
        cond = (rng.integers(0, 2, size=(T, N)) > 0) if big else draw(hnp.arrays(np.bool_, (T, N)))
        for k in range(T):
            if not cond[k].any():
                cond[k, draw(st.integers(0, N - 1))] = True
    case["cond"] = cond
    nl = None
    case["maxnb_mode"] = "none"
    if draw(st.integers(0, 2)) == 0:
        nl = []
        top = min(draw(C.pick([4, 4, 8, 12])), N - 1)
        for _ in range(T):
            lists = []
            for i in range(N):
                if big:
                    idx = list(rng.permutation(N - 1)[:int(rng.integers(1, top + 1))])
                else:
                    idx = draw(st.lists(st.integers(0, N - 2), min_size=1, max_size=top, unique=True))
                lists.append([int(j) if j < i else int(j) + 1 for j in idx])
            nl.append(lists)
        case["maxnb_mode"] = draw(C.pick(["default", "exact", "plus"]))
        mx = max(len(x) for fr in nl for x in fr)
        case["max_neighbors"] = {"default": None, "exact": mx, "plus": mx + draw(st.integers(1, 3))}[case["maxnb_mode"]]
    case["nl"] = nl
    if big:
        case["rows0"] = [list(rng.permutation(N)) for _ in range(T)]
        case["rows1"] = [list(rng.permutation(N)) for _ in range(T)]
    else:
        case["rows0"] = [list(draw(st.permutations(range(N)))) for _ in range(T)]
        case["rows1"] = [list(draw(st.permutations(range(N)))) for _ in range(T)]
    case["tf"] = draw(tf_st(allowed, N=N, K=K, d=d, F=T, ortho=cell["kind"] == "ortho", ppp=ppp, per_frame=False,
                            lattice_per_frame=mode == "x", first=want, rng=rng if big else None))
    return case


def diam_dict(diam, rep, labels=None):
    K = len(diam)
    labels = list(range(1, K + 1)) if labels is None else list(labels)
    items = [(int(labels[k]), float(x)) for k, x in enumerate(diam)]
    if rep == "int-values" and all(float(x).is_integer() for _, x in items):
        items = [(k, int(x)) for k, x in items]
    if rep == "extra-keys":
        spare = [x for x in range(1, 14) if x not in labels]
        items = [(spare[-1], 9.0)] + items + [(spare[0], 0.25)]
    if rep == "reversed":
        items = items[::-1]
    return dict(items)


def run_dyn(name, c, posx, diam, cond, nl, rows, tag, snaps=None, side=0, case=None):
    case = c if case is None else case
    proto = case.get("proto", "fresh")
    T = len(c["pos"])
    main = gen.snapshots_from(c) if snaps is None else snaps
    kw = {}
    if c["mode"] == "x":
        kw["x_snapshots"] = main
    else:
        kw["xu_snapshots"] = main
        if c["mode"] == "both":
            kw["x_snapshots"] = gen.snapshots_from(dict(c, pos=posx))
    if nl is not None:
        C.write_listfile(f"dyn{tag}.dat", nl, rows=rows)
        kw["neighborfile"] = f"dyn{tag}.dat"
        if case.get("max_neighbors") is not None:
            kw["max_neighbors"] = int(case["max_neighbors"])
    dyn = Dynamics(dt=c["dt"], ppp=np.array(c["ppp"]),
                   diameters=diam_dict(diam, case.get("diam_rep", "plain") if side == 1 else "plain",
                                       case.get("labels") if side == 1 else None),
                   a=c["a"], cal_type=c["cal_type"], **kw)
    outfile = "relax_out.csv" if (proto == "outfile" and side == 1) else ""
    names = "t isf Qt X4_Qt msd alpha2".split()

    def evaluate(nm):
        with np.errstate(all="ignore"):
            df = C.KEPT.add(nm, dyn.relaxation(qconst=c["qconst"], condition=None if cond is None else cond.copy(),
                                               outputfile=outfile))
        columns(nm, df, names)
        return {n: arr(f"{nm}[{n}]", col(nm, df, n), shape=(T - 1,)).astype(float) for n in names}
    out = evaluate(name)
    if outfile:
        require(os.path.exists(outfile), f"{name}: outputfile not written")
    if proto == "twice":
        out2 = evaluate(name + " (2nd relaxation() on the same object)")
        for n in names:
            C.same_again(f"{name}[{n}]", out[n], out2[n])
        out = out2
    return out


def dyn_boundaries(case, noise=0.0):
    """(some displacement sits on the mobility threshold, some wrapped displacement is a half-cell tie, smallest rms)"""
    T = len(case["pos"])
    H, ppp = case["cell"]["H"], case["ppp"]
    a2 = (case["diam"][np.asarray(case["types"]) - 1] * case["a"]) ** 2
    on_thr = tie_any = False
    for n in range(1, T):
        for nn in range(1, n + 1):
            o = n - nn
            R = case["pos"][n] - case["pos"][o]
            if case["mode"] == "x":
                R, tie = geom.min_image(R, H, ppp)
                tie_any = tie_any or bool(tie.any())
            if case["nl"] is not None:
                R = np.array([R[i] - R[np.asarray(js, dtype=int)].mean(axis=0) for i, js in enumerate(case["nl"][o])])
            d2 = (R * R).sum(axis=1)
            sel = slice(None) if case["cond"] is None else case["cond"][o]
            on_thr = on_thr or bool(np.any(np.abs(d2[sel] - a2[sel]) <= 1e-8 * a2[sel] + 8.0 * noise * np.sqrt(d2[sel])))
    return on_thr, tie_any


def check_dyn(case):
    tf = case["tf"]
    kept = C.new_kept()
    T = len(case["pos"])
    N = len(case["types"])
    tags = C.config_tags(case) + ["mode-" + case["mode"], f"T{T}" if T <= 8 else C.size_tag(T, "T"), case["cal_type"],
                                  "cond" if case["cond"] is not None else "all", "cage" if case["nl"] is not None else "abs",
                                  "maxnb-" + case["maxnb_mode"], "diamrep-" + case["diam_rep"]] \
        + (["all-critical-steps"] if case["critical"] else []) + tf_tags(tf, "relaxation")
    new = apply_tf(case, tf)
    noise = C.coord_noise(case, new)
    on_thr, tie = dyn_boundaries(case, noise)
    if tie:
        return {"nontrivial": False, "tags": tags + ["skip-halfcell-tie"]}
    posx1 = apply_tf(dict(case, pos=case["posx"]), tf)["pos"] if case["posx"] is not None else None
    inv = inv_perm(tf["perm"])
    diam1 = np.empty_like(case["diam"])
    diam1[np.asarray(tf["sigma"], dtype=int) - 1] = case["diam"]
    cond1 = None if case["cond"] is None else case["cond"][:, inv]
    nl1 = None if case["nl"] is None else C.permute_lists(case["nl"], tf["perm"])
    lab = np.asarray(case["labels"], dtype=int)
    gapped = not np.array_equal(lab, np.arange(1, case["K"] + 1))
    if gapped:
        new = dict(new, types=lab[np.asarray(new["types"], dtype=int) - 1])
        tags.append("labels-not-1..K")
    o0, o1, ptags = C.two_runs(case, new, lambda c, sn, side: run_dyn(
        "relaxation(transformed)" if side else "relaxation(original)", c, posx1 if side else case["posx"],
        diam1 if side else case["diam"], cond1 if side else case["cond"], nl1 if side else case["nl"],
        case["rows1"] if side else case["rows0"], str(side), sn, side, case))
    Lm = float(np.abs(case["cell"]["H"]).max())
    L2 = Lm ** 2
    qmax = float(case["qconst"] / case["diam"].min())
    rms = np.sqrt(np.maximum(o0["msd"], 0.0))
    close_tol("relaxation: t", o1["t"], o0["t"], atol=0.0, rtol=1e-12)
    close_tol("relaxation: isf", o1["isf"], o0["isf"], atol=1e-9 + 4.0 * qmax * noise, rtol=1e-8)
    # msd = <R^2>: a coordinate noise dx on R changes it by <= 2 |R| dx (Cauchy-Schwarz: 2 rms dx), plus dx^2
    close_tol("relaxation: msd", o1["msd"], o0["msd"], atol=1e-13 * L2 + 8.0 * noise * (rms + noise), rtol=1e-8)
    # alpha2 = c <r^4>/<r^2>^2 - 1 is 0/0 for a trajectory without motion: asserted where the rms displacement exceeds
    # 1e-5 L (coordinates carry an absolute rounding error ~1e-15 L, i.e. <= 1e-10 relative on the dominant terms)
    moving = o0["msd"] >= 1e-10 * L2
    if moving.any():
        # relative noise of a displacement that matters for <r^4>/<r^2>^2: dx / rms, amplified by the kurtosis
        a2tol = 1e-7 + 40.0 * (1.0 + np.abs(o0["alpha2"][moving])) * noise / rms[moving] * np.sqrt(N)
        close_tol("relaxation: alpha2", o1["alpha2"][moving], o0["alpha2"][moving], atol=a2tol, rtol=1e-7)
    if not moving.all():
        tags.append("alpha2-no-motion-not-asserted")
    if not on_thr:
        close_tol("relaxation: Qt", o1["Qt"], o0["Qt"], atol=1e-12, rtol=0.0)
        close_tol("relaxation: X4_Qt", o1["X4_Qt"], o0["X4_Qt"], atol=1e-9, rtol=1e-9)
    else:
        tags.append("Qt-on-threshold-not-asserted")
    varied = bool(np.ptp(o0["Qt"]) > 0 or (0 < o0["Qt"][0] < 1)) or C.nondegenerate(o0["msd"])
    return {"nontrivial": bool(varied and np.all(np.isfinite(o0["msd"])) and o0["msd"].max() > 0), "tags": tags + ptags,
            "extra": {"Qt_mixed": int(np.any((o0["Qt"] > 0) & (o0["Qt"] < 1))), "kept_results_rechecked": kept.verify()}}


# ============================================================================= gyration descriptors


@st.composite
def cloud_case(draw, vector=False, size="mixed"):
    d = draw(C.pick([2, 3]))
    if size == "large" or isinstance(size, tuple) or (size == "mixed" and C.chance(draw, 6)):
        N = draw(C.pick([33, 51, 65, 101, 129, 201, 257, 513, 1001, 1025] + C.boundary_sizes(31, 1030) if size != "large"
                        else C.boundary_sizes(1500, 2100)))
        if isinstance(size, tuple):
            N = int(size[1])
        bulk = True
    else:
        N = draw(st.integers(1 if vector else 2, 30))
        bulk = False
    rng = np.random.default_rng(draw(st.integers(0, 2 ** 32 - 1)))
    spread = draw(st.sampled_from([0.5, 2.0, 10.0]))
    centre = np.zeros(d) if vector else draw(dense((d,), fl(-20.0, 20.0)))
    intrep = (not bulk) and C.chance(draw, 6)      # integer-valued field / coordinates, handed over as int64 on one side
    if intrep:
        x = draw(hnp.arrays(np.int64, (N, d), elements=st.integers(-9, 9), fill=st.nothing())).astype(float)
        centre = np.zeros(d)
    else:
        x = centre + spread * (rng.uniform(-1.0, 1.0, size=(N, d)) if bulk else draw(dense((N, d), fl(-1.0, 1.0))))
    if draw(st.integers(0, 3)) == 0 and not intrep:     # anisotropic cloud
        x = centre + (x - centre) * np.array([1.0, 0.3, 0.05][:d])
    allowed = ["perm", "axes", "rotate"] + ([] if vector else ["translate"])
    if intrep:
        allowed = ["perm", "axes"]
    if N < 2:
        allowed = [k for k in allowed if k != "perm"]
    tf = draw(tf_st(allowed, N=N, K=1, d=d, F=1, ortho=True, ppp=np.zeros(d, dtype=int), rng=rng if bulk else None))
    return {"d": d, "x": x, "tf": tf, "spread": spread, "tvec": 20.0 * tf["tfrac"][0], "intrep": intrep,
            "obs": "pr" if vector else "gyration"}


def cloud_tags(case):
    N = len(case["x"])
    return ([C.size_tag(N)] if N in C._BOUNDARY_SET and N > 30 else []) + (["rep-int64"] if case["intrep"] else [])


def transform_cloud(case):
    tf = case["tf"]
    x = case["x"]
    c = x.mean(axis=0)
    A = linear_part(tf, case["d"])
    y = (x - c) @ A.T + c + case["tvec"]
    if case.get("intrep"):
        y = x @ A.T                  # integer coordinates stay integers (axis permutation about the origin)
    out = np.empty_like(y)
    out[np.asarray(tf["perm"], dtype=int)] = y
    return out


def check_gyration(case):
    tf = case["tf"]
    d, x = case["d"], case["x"]
    y = transform_cloud(case)
    names = ["radius_of_gyration", "asphericity", "acylindricity", "shape_anisotropy", "fractal_dimension"] if d == 3 \
        else ["radius_of_gyration", "acylindricity", "fractal_dimension"]
    tags = [f"d{d}", "N<=3" if len(x) <= 3 else "N>3"] + tf_tags(tf, "gyration") + cloud_tags(case)
    with np.errstate(all="ignore"):
        g0 = gyration_tensor(x.copy())
        g1 = gyration_tensor(np.rint(y).astype(np.int64) if case["intrep"] else y.copy())
    for nm, g in (("original", g0), ("transformed", g1)):
        require(isinstance(g, (list, tuple)) and len(g) == len(names), f"gyration_tensor({nm}) returned {g!r}")
    g0 = dict(zip(names, [float(np.real(v)) for v in g0]))
    g1 = dict(zip(names, [float(np.real(v)) for v in g1]))
    Rg = g0["radius_of_gyration"]
    if not (np.isfinite(Rg) and Rg > 1e-6 * case["spread"]):
        return {"nontrivial": False, "tags": tags + ["skip-degenerate-cloud"]}
    cond = max(float(np.abs(x).max()), float(np.abs(y).max())) / Rg    # distance from the origin in units of R_g
    rel = 1e-9 + 1e-14 * cond
    close_tol("radius of gyration", g1["radius_of_gyration"], Rg, atol=0.0, rtol=rel)
    close_tol("acylindricity", g1["acylindricity"], g0["acylindricity"], atol=rel * Rg ** 2, rtol=1e-9)
    if d == 3:
        close_tol("asphericity", g1["asphericity"], g0["asphericity"], atol=rel * Rg ** 2, rtol=1e-9)
        close_tol("shape anisotropy", g1["shape_anisotropy"], g0["shape_anisotropy"], atol=10 * rel, rtol=1e-9)
    lg = abs(math.log10(Rg))
    if lg > 1e-3:
        close_tol("fractal dimension", g1["fractal_dimension"], g0["fractal_dimension"], atol=0.0, rtol=rel / min(1.0, lg))
    else:
        tags.append("fractal-not-asserted")
    return {"nontrivial": bool(len(x) >= 3), "tags": tags}


def check_pr(case):
    tf = case["tf"]
    x = case["x"]
    tags = [f"d{case['d']}", "N1" if len(x) == 1 else "N>1"] + tf_tags(tf, "pr") + cloud_tags(case)
    if float(np.abs(x).max()) < 1e-6:
        return {"nontrivial": False, "tags": tags + ["skip-zero-field"]}
    A = linear_part(tf, case["d"])
    y = np.empty_like(x)
    y[np.asarray(tf["perm"], dtype=int)] = x @ A.T
    p0 = float(participation_ratio(x.copy()))
    p1 = float(participation_ratio(np.rint(y).astype(np.int64) if case["intrep"] else y.copy()))
    close_tol("participation ratio", p1, p0, atol=1e-13, rtol=1e-9)
    return {"nontrivial": bool(len(x) >= 2 and 1.0 / len(x) + 1e-9 < p0 < 1 - 1e-9), "tags": tags}


def describe_cloud(case):
    return {"d": case["d"], "x": np.round(case["x"][:4], 4).tolist(), "N": len(case["x"]), "tf": C.describe_tf(case["tf"])}
