"""C07 helpers: configurations, symmetry transformations (drawn by Hypothesis, applied by numpy), neighbour-file
writer/parser and comparison utilities.  No reference implementation of any observable lives here: the only
geometry used by the oracle is pbt/ref/geom (minimum image of C02) to *locate decision boundaries* (bin edges,
cut-offs, k-th neighbour gaps, half-cell ties) so that discrete outputs are asserted only where they are decided."""
from __future__ import annotations

import itertools
import math

import numpy as np
from hypothesis import strategies as st
from hypothesis.extra import numpy as hnp

from .. import gen
from ..gen import cell_st, fl, nice_float, ppp_st, types_st
from ..harness import Violation
from ..ref import geom
from ..util import arr

EPS = 1e-9  # relative width of a decision boundary (DESIGN 1.4)

ALL_KINDS = ("translate", "lattice", "perm", "swap", "axes", "rotate", "dilate")

# ----------------------------------------------------------------------------- drawing helpers


def dense(shape, elements, dtype=np.float64):
    """hnp.arrays without the sparse 'fill' shortcut: every entry is drawn, so points rarely coincide."""
    return hnp.arrays(dtype, shape, elements=elements, fill=st.nothing())


def pick(options):
    """Choice among a few options through a large integer range: Hypothesis' sampled_from clumps on one option within
    a run of a few hundred cases, k mod n does not."""
    opts = list(options)
    return st.integers(0, 10 ** 6).map(lambda k: opts[k % len(opts)])


_IRR = np.array([math.sqrt(2.0), math.sqrt(3.0), math.sqrt(5.0)]) - 1.0


def separate(f, tol=1e-4):
    """By construction (no rejection): a particle closer than tol (fractional, periodic) to an earlier one is moved by
    an irrational step until it is clear of all earlier ones.  Hypothesis likes repeated simple values, so coincident
    particles would otherwise make up a fifth of the cases."""
    f = np.array(f, dtype=float)
    N, d = f.shape
    for i in range(1, N):
        for _ in range(200):
            df = f[:i] - f[i]
            df -= np.rint(df)
            if np.abs(df).max(axis=1).min() >= tol:
                break
            f[i] = (f[i] + 0.01 * (1 + i % 7) * _IRR[:d]) % 1.0
    return f


_LAT = {
    3: {"sc": [(0, 0, 0)], "bcc": [(0, 0, 0), (.5, .5, .5)],
        "fcc": [(0, 0, 0), (.5, .5, 0), (.5, 0, .5), (0, .5, .5)],
        "diamond": [(0, 0, 0), (.5, .5, 0), (.5, 0, .5), (0, .5, .5),
                    (.25, .25, .25), (.75, .75, .25), (.75, .25, .75), (.25, .75, .75)]},
    2: {"square": [(0, 0)], "centred": [(0, 0), (.5, .5)], "rect3": [(0, 0), (1 / 3., .5)]},
}


@st.composite
def fracs_st(draw, d, N, exact_ok=True, kinds=("gas", "gas", "cluster", "lattice-jit", "lattice-exact")):
    """Fractional coordinates in [0,1)^d, N rows."""
    kind = draw(pick(kinds))
    if kind == "lattice-exact" and not exact_ok:
        kind = "lattice-jit"
    if kind == "gas":
        el = st.one_of(st.integers(0, 4095).map(lambda k: k / 4096.0), fl(0.0, 1.0, exclude_max=True))
        return separate(draw(dense((N, d), el))), kind
    if kind == "cluster":
        nc = draw(st.integers(1, 3))
        centres = draw(dense((nc, d), fl(0.0, 1.0)))
        which = draw(st.lists(st.integers(0, nc - 1), min_size=N, max_size=N))
        width = draw(st.sampled_from([0.03, 0.08, 0.15]))
        return separate((centres[which] + width * draw(dense((N, d), fl(-1.0, 1.0)))) % 1.0), kind
    name = draw(st.sampled_from(sorted(_LAT[d])))
    basis = np.array(_LAT[d][name], dtype=float)
    reps = [draw(st.integers(1, 3)) for _ in range(d)]
    cells = np.array(list(itertools.product(*[range(r) for r in reps])), dtype=float)
    f = (cells[:, None, :] + basis[None, :, :]).reshape(-1, d) / np.array(reps, dtype=float)
    f = f[list(draw(st.permutations(range(len(f)))))][:N]
    if len(f) < N:
        f = np.vstack([f, draw(dense((N - len(f), d), fl(0.0, 1.0, exclude_max=True)))])
    if kind == "lattice-jit":
        f = (f + draw(st.sampled_from([1e-3, 1e-2, 5e-2])) * draw(dense((N, d), fl(-1.0, 1.0)))) % 1.0
    return separate(f, tol=1e-6), f"{kind}:{name}"


@st.composite
def config_st(draw, d, N, cell, K=1, frames=(1, 1), ppp=None, allow_open=True, same_kind=False, **kw):
    """A configuration case in the layout of gen.config_st (usable with gen.snapshots_from)."""
    F = draw(st.integers(*frames))
    fr, kinds = [], []
    for _ in range(F):
        f, kind = draw(fracs_st(d, N, exact_ok=cell["kind"] == "ortho", **kw))
        if cell["kind"] != "ortho":
            # tilted cell: the two images of an exact half-cell tie have different lengths; break exact ties
            f = (f + 1e-7 * np.arange(N)[:, None] * (1.0 + _IRR[:d])[None, :]) % 1.0
        fr.append(f)
        kinds.append(kind)
    if ppp is None:
        ppp = draw(ppp_st(d, allow_open))
    ppp = np.asarray(ppp, dtype=int)
    offs = np.zeros((N, d))
    if draw(st.booleans()):
        offs = draw(hnp.arrays(np.int64, (N, d), elements=st.integers(-1, 1))).astype(float) * ppp
    t0 = draw(st.integers(0, 10 ** 6))
    dt = draw(st.integers(1, 5000))
    return {"d": d, "cell": cell, "pos": [cell["lo"] + (f + offs) @ cell["H"] for f in fr],
            "types": draw(types_st(N, K)), "ppp": ppp, "K": K, "kind": "+".join(kinds),
            "timesteps": [t0 + k * dt for k in range(F)], "outside": bool(np.any(offs))}


def quat_to_matrix(q):
    """Unit quaternion (w, x, y, z) -> proper rotation matrix."""
    w, x, y, z = q
    return np.array([
        [1 - 2 * (y * y + z * z), 2 * (x * y - z * w), 2 * (x * z + y * w)],
        [2 * (x * y + z * w), 1 - 2 * (x * x + z * z), 2 * (y * z - x * w)],
        [2 * (x * z - y * w), 2 * (y * z + x * w), 1 - 2 * (x * x + y * y)]])


@st.composite
def rotation_st(draw, d):
    """(matrix, angle): SO(2) by an angle in [0.1, 2 pi - 0.1]; SO(3) from a drawn unit quaternion, angle > 0.1."""
    if d == 2:
        a = draw(st.one_of(st.sampled_from([math.pi / 2, math.pi, math.pi / 3, 1.0]), fl(0.1, 2 * math.pi - 0.1)))
        c, s = math.cos(a), math.sin(a)
        return np.array([[c, -s], [s, c]]), float(a)
    q = np.array(draw(st.lists(st.one_of(st.integers(-2, 2).map(float), fl(-1.0, 1.0)), min_size=4, max_size=4)))
    n = np.linalg.norm(q)
    if n < 1e-3:
        q, n = np.array([1.0, 1.0, 0.0, 0.0]), math.sqrt(2.0)
    q = q / n
    ang = 2 * math.acos(min(1.0, abs(q[0])))
    if ang < 0.1:   # too close to the identity: quarter turn about the drawn axis instead
        ax = q[1:]
        na = np.linalg.norm(ax)
        ax = ax / na if na > 1e-6 else np.array([0.0, 0.0, 1.0])
        q = np.concatenate([[math.cos(math.pi / 4)], math.sin(math.pi / 4) * ax])
        ang = math.pi / 2
    return quat_to_matrix(q), float(ang)


@st.composite
def ppp_for(draw, d, want, allow_open=True):
    """periodicity mask compatible with the primary transformation `want` (by construction)"""
    if want == "rotate":
        return np.zeros(d, dtype=int)
    p = np.asarray(draw(ppp_st(d, allow_open)), dtype=int)
    if want == "lattice" and not p.any():
        p = np.ones(d, dtype=int)
    return p


# Axis permutation of a tilted cell: coordinates, cell vectors (P H P^T, no longer lower triangular), origin and mask
# are permuted together.  Every routine that takes the cell from snapshot.hmatrix (g(r), neighbours, bond order,
# tetrahedral order, S2, dynamics) must be unaffected; S(q) and the Hessian are orthogonal-only and keep ortho=True.
AXES_TRICLINIC = True


def feasible_kinds(allowed, *, N, K, ortho, ppp, d):
    ppp = np.asarray(ppp)
    out = []
    for k in allowed:
        if k == "lattice" and not ppp.any():
            continue
        if k == "perm" and N < 2:
            continue
        if k == "swap" and K < 2:
            continue
        if k == "axes" and not ortho and not AXES_TRICLINIC:
            continue
        if k == "rotate" and ppp.any():
            continue
        out.append(k)
    return out


@st.composite
def tf_st(draw, allowed, *, N, K, d, F, ortho, ppp, per_frame=True, max_kinds=2, lattice_per_frame=True, first=None):
    """A symmetry transformation: 1..max_kinds components from `allowed`, each far from the identity by construction.

    Returned dict (plain, picklable):
      kinds   list of active component names
      R       d x d proper rotation (rotate)                                     x -> c + R (x - c)
      axes    tuple, new axis k = old axis axes[k] (axes), applied to coordinates, box and ppp
      s       common dilation factor of coordinates and box (dilate)
      tfrac   F x d translation of frame f in units of the (new) cell vectors (translate); rows equal unless per_frame
      n       F x N x d integer lattice shifts along the ORIGINAL cell vectors, zero on non-periodic axes (lattice)
      perm    perm[i] = new index of old particle i (perm)
      sigma   sigma[a-1] = new label of old label a (swap)
      movebox whether the box origin moves with the translation of frame 0
    """
    ppp = np.asarray(ppp, dtype=int)
    feas = feasible_kinds(allowed, N=N, K=K, ortho=ortho, ppp=ppp, d=d)
    assert feas, "no applicable transformation"
    if first is None or first not in feas:
        first = draw(pick(feas))
    kinds = [first]
    if max_kinds > 1 and len(feas) > 1 and draw(st.integers(0, 2)) == 0:
        second = draw(pick([k for k in feas if k != first]))
        kinds.append(second)
    tf = {"kinds": kinds, "R": None, "axes": None, "s": 1.0, "tfrac": np.zeros((F, d)), "n": np.zeros((F, N, d)),
          "perm": np.arange(N), "sigma": np.arange(1, K + 1), "movebox": False, "angle": 0.0}
    if "rotate" in kinds:
        tf["R"], tf["angle"] = draw(rotation_st(d))
    if "axes" in kinds:
        opts = [p for p in itertools.permutations(range(d)) if p != tuple(range(d))]
        tf["axes"] = tuple(draw(st.sampled_from(opts)))
    if "dilate" in kinds:
        s = draw(st.one_of(st.sampled_from([0.5, 2.0, 4.0, 0.1, 3.0, 10.0]), fl(0.2, 5.0)))
        if abs(s - 1.0) < 0.1:
            s = s + 0.25
        tf["s"] = float(s)
    if "translate" in kinds:
        el = st.one_of(st.integers(-48, 48).map(lambda k: k / 16.0), fl(-3.0, 3.0))
        rows = F if (per_frame and draw(st.booleans())) else 1
        t = draw(dense((rows, d), el))
        for r in range(rows):
            k = draw(st.integers(0, d - 1))
            if abs(t[r, k]) < 0.1:
                t[r, k] += 0.1 if t[r, k] >= 0 else -0.1
        tf["tfrac"] = np.repeat(t, F, axis=0) if rows == 1 else t
        tf["movebox"] = draw(st.booleans())
    if "lattice" in kinds:
        rows = F if lattice_per_frame else 1
        n = draw(hnp.arrays(np.int64, (rows, N, d), elements=st.integers(-2, 2))).astype(float) * ppp
        ax = int(np.argmax(ppp))
        for r in range(rows):
            if not n[r].any():
                n[r, draw(st.integers(0, N - 1)), ax] = draw(st.sampled_from([-1.0, 1.0, 2.0]))
        tf["n"] = np.repeat(n, F, axis=0) if rows == 1 else n
    if "perm" in kinds:
        p = np.array(draw(st.permutations(range(N))), dtype=int)
        if np.array_equal(p, np.arange(N)):
            p = np.roll(p, 1)
        tf["perm"] = p
    if "swap" in kinds:
        s_ = np.array(draw(st.permutations(range(1, K + 1))), dtype=int)
        if np.array_equal(s_, np.arange(1, K + 1)):
            s_[[0, 1]] = s_[[1, 0]]
        tf["sigma"] = s_
    return tf


# ----------------------------------------------------------------------------- applying a transformation


def linear_part(tf, d):
    """Orthogonal matrix A with x' - c' = A (x - c) (rotation followed by the axis permutation), without dilation."""
    A = np.eye(d) if tf["R"] is None else np.asarray(tf["R"], dtype=float)
    if tf["axes"] is not None:
        A = A[list(tf["axes"]), :]
    return A


def inv_perm(p):
    q = np.empty(len(p), dtype=int)
    q[np.asarray(p, dtype=int)] = np.arange(len(p))
    return q


def apply_tf(case, tf):
    """Transformed configuration case (same layout).  Order: rotate about the cell centre, permute axes (with box
    and ppp), dilate (with box), translate, lattice shifts, relabel ids, swap species labels."""
    d = case["d"]
    cell = case["cell"]
    H = np.array(cell["H"], dtype=float)
    lo = np.array(cell["lo"], dtype=float)
    ppp = np.asarray(case["ppp"], dtype=int)
    centre = lo + 0.5 * H.sum(axis=0)
    pos = [np.array(p, dtype=float) for p in case["pos"]]
    if tf["R"] is not None:
        R = np.asarray(tf["R"], dtype=float)
        pos = [(p - centre) @ R.T + centre for p in pos]
    nshift = np.asarray(tf["n"], dtype=float)      # given along the ORIGINAL cell vectors
    if tf["axes"] is not None:
        ax = list(tf["axes"])
        pos = [p[:, ax] for p in pos]
        H = H[ax][:, ax]
        lo = lo[ax]
        ppp = ppp[ax]
        nshift = nshift[:, :, ax]
    s = float(tf["s"])
    if s != 1.0:
        pos = [s * p for p in pos]
        H = s * H
        lo = s * lo
    pos = [p + tf["tfrac"][f] @ H + nshift[f] @ H for f, p in enumerate(pos)]
    if tf["movebox"]:
        lo = lo + tf["tfrac"][0] @ H
    perm = np.asarray(tf["perm"], dtype=int)
    new_pos = []
    for p in pos:
        q = np.empty_like(p)
        q[perm] = p
        new_pos.append(q)
    types = np.asarray(case["types"], dtype=int)
    nt = np.empty_like(types)
    nt[perm] = np.asarray(tf["sigma"], dtype=int)[types - 1]
    new = dict(case)
    kind = cell["kind"]
    if tf["axes"] is not None and kind != "ortho":
        kind = "general"
    new.update(cell={"d": d, "kind": kind, "H": H, "lo": lo, "origin": cell.get("origin", "any")},
               pos=new_pos, types=nt, ppp=ppp)
    return new


def tf_tags(tf):
    return ["tf-" + k for k in tf["kinds"]] + (["tf-pair"] if len(tf["kinds"]) > 1 else ["tf-single"])


def describe_tf(tf):
    out = {"kinds": tf["kinds"]}
    if "translate" in tf["kinds"]:
        out["tfrac"] = np.round(tf["tfrac"], 4).tolist()
    if "lattice" in tf["kinds"]:
        out["n_nonzero"] = int(np.count_nonzero(tf["n"]))
    if "perm" in tf["kinds"]:
        out["perm"] = np.asarray(tf["perm"]).tolist()[:12]
    if "swap" in tf["kinds"]:
        out["sigma"] = np.asarray(tf["sigma"]).tolist()
    if "axes" in tf["kinds"]:
        out["axes"] = list(tf["axes"])
    if "rotate" in tf["kinds"]:
        out["angle"] = round(tf["angle"], 4)
    if "dilate" in tf["kinds"]:
        out["s"] = tf["s"]
    return out


def describe(case):
    dsc = gen.describe_config(case)
    dsc["tf"] = describe_tf(case["tf"])
    for k in ("rdelta", "l", "mode", "k", "rcut", "model", "obs", "file"):
        if k in case:
            v = case[k]
            dsc[k] = v.tolist() if isinstance(v, np.ndarray) else v
    return dsc


# ----------------------------------------------------------------------------- geometry of decision boundaries


def pair_info(case, f=0):
    """ordered pair table of frame f of the ORIGINAL configuration"""
    return geom.pair_table(case["pos"][f], case["cell"]["H"], case["ppp"])


def has_coincident(case, rel=1e-7):
    Lmin = float(np.abs(np.diag(case["cell"]["H"])).min())
    for f in range(len(case["pos"])):
        _, _, _, dist, _ = pair_info(case, f)
        if len(dist) and dist.min() < rel * Lmin:
            return True
    return False


def tri_tie(case):
    """A half-cell minimum-image tie in a non-orthogonal cell: the two images have different lengths."""
    if case["cell"]["kind"] == "ortho":
        return False
    for f in range(len(case["pos"])):
        if pair_info(case, f)[4].any():
            return True
    return False


def any_tie(case):
    for f in range(len(case["pos"])):
        if pair_info(case, f)[4].any():
            return True
    return False


def mi_dist(pos, H, ppp, i, js):
    """minimum-image distances from particle i to particles js (reference geometry)"""
    v, tie = geom.min_image(pos[np.asarray(js, dtype=int)] - pos[i], H, ppp)
    return np.sqrt((v * v).sum(axis=1)), tie


# ----------------------------------------------------------------------------- neighbour files


def write_listfile(fn, frames, header="id cn neighborlist", rows=None, fmt=None):
    """frames: list (per frame) of lists (per particle, 0-based index order) of sequences.  Integer neighbour ids are
    written 1-based; with fmt (e.g. repr) the entries are written as floats (weights).  rows[f] = order of the rows."""
    with open(fn, "w") as fh:
        for f, lists in enumerate(frames):
            fh.write(header + "\n")
            order = range(len(lists)) if rows is None else rows[f]
            for i in order:
                if fmt is None:
                    items = [str(int(j) + 1) for j in lists[i]]
                else:
                    items = [fmt(float(x)) for x in lists[i]]
                fh.write(" ".join([str(int(i) + 1), str(len(lists[i]))] + items) + "\n")


def permute_lists(frames, perm, values=False):
    """Lists of the relabelled system: particle perm[i] gets the list of i, entries mapped through perm
    (values=True: the entries are per-bond numbers, kept as they are)."""
    perm = np.asarray(perm, dtype=int)
    inv = inv_perm(perm)
    out = []
    for lists in frames:
        new = []
        for a in range(len(lists)):
            src = lists[inv[a]]
            new.append([float(x) for x in src] if values else [int(perm[int(j)]) for j in src])
        out.append(new)
    return out


def parse_neighbor_file(name, fn, N, F):
    """Parse a neighbour file written by the library: F blocks of a header line and N rows `id cn n1 n2 ...`.
    Returns list (per frame) of dict id0 -> list of 0-based neighbour indices.  Malformed output is a Violation."""
    try:
        with open(fn) as fh:
            lines = [ln for ln in fh.read().splitlines() if ln.strip()]
    except OSError as e:
        raise Violation(f"{name}: neighbour file not written ({e})")
    if len(lines) != F * (N + 1):
        raise Violation(f"{name}: expected {F} blocks of 1+{N} lines, file has {len(lines)} non-empty lines")
    out = []
    for f in range(F):
        head = lines[f * (N + 1)].split()
        if head != ["id", "cn", "neighborlist"]:
            raise Violation(f"{name}: frame {f} header is {lines[f * (N + 1)]!r}")
        block = {}
        for ln in lines[f * (N + 1) + 1:(f + 1) * (N + 1)]:
            try:
                tok = [int(t) for t in ln.split()]
            except ValueError:
                raise Violation(f"{name}: non-integer token in row {ln!r}")
            if len(tok) < 2 or len(tok) != 2 + tok[1]:
                raise Violation(f"{name}: row {ln!r} does not list cn={tok[1] if len(tok) > 1 else '?'} neighbours")
            i = tok[0] - 1
            if not 0 <= i < N or i in block:
                raise Violation(f"{name}: bad or repeated particle id in row {ln!r}")
            nb = [t - 1 for t in tok[2:]]
            if any(not 0 <= j < N for j in nb):
                raise Violation(f"{name}: neighbour id out of range in row {ln!r}")
            block[i] = nb
        out.append(block)
    return out


# ----------------------------------------------------------------------------- comparisons


def close_tol(name, got, want, atol, rtol=1e-8, equal_nan=False):
    """|got - want| <= atol + rtol |want| with atol broadcast against want."""
    want = np.asarray(want)
    g = arr(name, got, shape=want.shape)
    if g.size == 0:
        return
    err = np.abs(g - want)
    tol = np.broadcast_to(np.asarray(atol, dtype=float), want.shape) + rtol * np.abs(want)
    ok = err <= tol
    if equal_nan:
        ok = ok | (np.isnan(g) & np.isnan(want))
    if not ok.all():
        bad = ~ok
        ti = tuple(int(i) for i in np.argwhere(bad)[0])
        with np.errstate(invalid="ignore"):
            mx = np.nanmax(np.where(bad, err, 0.0)) if np.isfinite(err[bad]).any() else float("nan")
        raise Violation(f"{name}: {int(bad.sum())}/{g.size} entries differ; first at {ti}: transformed input gives "
                        f"{g[ti]!r}, original (mapped) gives {want[ti]!r}, allowed {tol[ti]:.3e}; max |diff| = {mx:.3e}")


def nondegenerate(x):
    x = np.asarray(x, dtype=float)
    x = x[np.isfinite(x)]
    return bool(x.size and np.any(np.abs(x) > 1e-12) and (x.size == 1 or np.ptp(x) > 1e-9 * (1 + np.abs(x).max())))
