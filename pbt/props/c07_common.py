"""C07 helpers: configurations, symmetry transformations (drawn by Hypothesis, applied by numpy), neighbour-file
writer/parser and comparison utilities.  No reference implementation of any observable lives here: the only
geometry used by the oracle is pbt/ref/geom (minimum image of C02) to *locate decision boundaries* (bin edges,
cut-offs, k-th neighbour gaps, half-cell ties) so that discrete outputs are asserted only where they are decided."""
from __future__ import annotations

import itertools
import math

import numpy as np
import pandas as pd
from hypothesis import strategies as st
from hypothesis.extra import numpy as hnp

from .. import gen
from ..gen import cell_st, fl, nice_float, ppp_st, types_st
from ..harness import Violation
from ..ref import geom
from ..util import arr, require

EPS = 1e-9  # relative width of a decision boundary (DESIGN 1.4)

ALL_KINDS = ("translate", "lattice", "perm", "swap", "axes", "rotate", "dilate")

# ----------------------------------------------------------------------------- drawing helpers


def dense(shape, elements, dtype=np.float64):
    """hnp.arrays without the sparse 'fill' shortcut: every entry is drawn, so points rarely coincide."""
    return hnp.arrays(dtype, shape, elements=elements, fill=st.nothing())


def _scramble(k):
    """Hypothesis prefers small and 'round' integers; a multiplicative hash spreads them evenly (0 stays 0, so the
    shrunk example still takes the first / the cheap option)."""
    return ((int(k) * 2654435761) & 0xFFFFFFFF) >> 7


def chance(draw, n):
    """True in about one case of n"""
    return _scramble(draw(st.integers(0, 2 ** 32 - 1))) % n == n - 1


def pick(options):
    """Choice among a few options through a large integer range: Hypothesis' sampled_from clumps on one option within
    a run of a few hundred cases, a scrambled k mod n does not."""
    opts = list(options)
    return st.integers(0, 2 ** 32 - 1).map(lambda k: opts[_scramble(k) % len(opts)])


_IRR = np.array([math.sqrt(2.0), math.sqrt(3.0), math.sqrt(5.0)]) - 1.0


def separate(f, tol=1e-4):
    """By construction (no rejection): a particle closer than tol (fractional, periodic) to an earlier one is moved by
    an irrational step until it is clear of all earlier ones.  Hypothesis likes repeated simple values, so coincident
    particles would otherwise make up a fifth of the cases."""
    f = np.array(f, dtype=float)
    N, d = f.shape
    for i in range(1, N):
        for _ in range(200):
            df = f[:i] - f[i]
            df -= np.rint(df)
            if np.abs(df).max(axis=1).min() >= tol:
                break
            f[i] = (f[i] + 0.01 * (1 + i % 7) * _IRR[:d]) % 1.0
    return f


_LAT = {
    3: {"sc": [(0, 0, 0)], "bcc": [(0, 0, 0), (.5, .5, .5)],
        "fcc": [(0, 0, 0), (.5, .5, 0), (.5, 0, .5), (0, .5, .5)],
        "diamond": [(0, 0, 0), (.5, .5, 0), (.5, 0, .5), (0, .5, .5),
                    (.25, .25, .25), (.75, .75, .25), (.75, .25, .75), (.25, .75, .75)]},
    2: {"square": [(0, 0)], "centred": [(0, 0), (.5, .5)], "rect3": [(0, 0), (1 / 3., .5)]},
}


@st.composite
def fracs_st(draw, d, N, exact_ok=True, kinds=("gas", "gas", "cluster", "lattice-jit", "lattice-exact")):
    """Fractional coordinates in [0,1)^d, N rows."""
    kind = draw(pick(kinds))
    if kind == "lattice-exact" and not exact_ok:
        kind = "lattice-jit"
    if kind == "gas":
        el = st.one_of(st.integers(0, 4095).map(lambda k: k / 4096.0), fl(0.0, 1.0, exclude_max=True))
        return separate(draw(dense((N, d), el))), kind
    if kind == "cluster":
        nc = draw(st.integers(1, 3))
        centres = draw(dense((nc, d), fl(0.0, 1.0)))
        which = draw(st.lists(st.integers(0, nc - 1), min_size=N, max_size=N))
        width = draw(st.sampled_from([0.03, 0.08, 0.15]))
        return separate((centres[which] + width * draw(dense((N, d), fl(-1.0, 1.0)))) % 1.0), kind
    name = draw(st.sampled_from(sorted(_LAT[d])))
    basis = np.array(_LAT[d][name], dtype=float)
    reps = [draw(st.integers(1, 3)) for _ in range(d)]
    cells = np.array(list(itertools.product(*[range(r) for r in reps])), dtype=float)
    f = (cells[:, None, :] + basis[None, :, :]).reshape(-1, d) / np.array(reps, dtype=float)
    f = f[list(draw(st.permutations(range(len(f)))))][:N]
    if len(f) < N:
        f = np.vstack([f, draw(dense((N - len(f), d), fl(0.0, 1.0, exclude_max=True)))])
    if kind == "lattice-jit":
        f = (f + draw(st.sampled_from([1e-3, 1e-2, 5e-2])) * draw(dense((N, d), fl(-1.0, 1.0)))) % 1.0
    return separate(f, tol=1e-6), f"{kind}:{name}"


@st.composite
def unwrap_st(draw, N, d, ppp, rng=None):
    """Whole-cell offsets of the INPUT configuration (periodic axes only): the same periodic system given wrapped,
    with some particles in a neighbouring image, or unwrapped over several cells (xu-style coordinates).
    Returns (offsets N x d, class name)."""
    ppp = np.asarray(ppp, dtype=int)
    mode = draw(pick(["wrapped", "wrapped", "wrapped", "image1", "image1", "several", "several", "drift"]))
    if not ppp.any() or mode == "wrapped":
        return np.zeros((N, d)), "wrapped"
    amp = {"image1": 1, "several": 4, "drift": 1}[mode]
    if rng is None:
        offs = draw(hnp.arrays(np.int64, (N, d), elements=st.integers(-amp, amp))).astype(float)
    else:
        offs = rng.integers(-amp, amp + 1, size=(N, d)).astype(float)
    if mode == "drift":          # the whole configuration sits several cells away from the box
        offs = offs + np.array([draw(st.integers(-6, 6)) for _ in range(d)], dtype=float)
    offs = offs * ppp
    if mode == "several" and np.abs(offs).max() < 2:
        offs[draw(st.integers(0, N - 1)), int(np.argmax(ppp))] = draw(st.sampled_from([-4.0, -3.0, 2.0, 3.0]))
    return offs, (mode if offs.any() else "wrapped")


@st.composite
def config_st(draw, d, N, cell, K=1, frames=(1, 1), ppp=None, allow_open=True, same_kind=False, **kw):
    """A configuration case in the layout of gen.config_st (usable with gen.snapshots_from)."""
    F = draw(st.integers(*frames))
    fr, kinds = [], []
    pmask = np.ones(d, dtype=int) if ppp is None else np.asarray(ppp, dtype=int)
    critical = cell["kind"] == "tri" and bool(pmask[:2].all()) and chance(draw, 6)
    if critical:
        # EXTENSION_3 class 4: every pair vector of the frame is short in every Cartesian component, some lie beyond
        # the half cell along the first vector of a strongly tilted cell: particles on a line segment along the
        # fractional direction (0.62, -+0.4, 0), all inside the box, nothing unwrapped
        sgn = draw(st.sampled_from([-1.0, 1.0]))
        cell["H"][1, 0] = sgn * 0.45 * cell["H"][0, 0]
        step = np.zeros(d)
        step[0], step[1] = 0.62, -0.4 * sgn
        for _ in range(F):
            t = np.array([0.0, 1.0] + [draw(fl(0.0, 1.0)) for _ in range(N - 2)])[:N]
            f0 = np.array([draw(fl(0.05, 0.3)), draw(fl(0.5, 0.9)) if sgn > 0 else draw(fl(0.1, 0.5))]
                          + [draw(fl(0.1, 0.9))] * (d - 2))
            f = f0[None, :] + t[:, None] * step[None, :] + 2e-3 * draw(dense((N, d), fl(-1.0, 1.0)))
            fr.append(separate(f % 1.0, tol=1e-5))
            kinds.append("critical-line")
        ppp = pmask
        t0 = draw(st.integers(0, 10 ** 6))
        dt = draw(st.integers(1, 5000))
        return {"d": d, "cell": cell, "pos": [cell["lo"] + f @ cell["H"] for f in fr], "types": draw(types_st(N, K)),
                "ppp": ppp, "K": K, "kind": "+".join(kinds), "timesteps": [t0 + k * dt for k in range(F)],
                "outside": False, "unwrapped": "wrapped"}
    for _ in range(F):
        f, kind = draw(fracs_st(d, N, exact_ok=cell["kind"] == "ortho", **kw))
        if cell["kind"] != "ortho":
            # tilted cell: the two images of an exact half-cell tie have different lengths; break exact ties
            f = (f + 1e-7 * np.arange(N)[:, None] * (1.0 + _IRR[:d])[None, :]) % 1.0
        fr.append(f)
        kinds.append(kind)
    if ppp is None:
        ppp = draw(ppp_st(d, allow_open))
    ppp = np.asarray(ppp, dtype=int)
    offs, unwrapped = draw(unwrap_st(N, d, ppp))
    t0 = draw(st.integers(0, 10 ** 6))
    dt = draw(st.integers(1, 5000))
    return {"d": d, "cell": cell, "pos": [cell["lo"] + (f + offs) @ cell["H"] for f in fr],
            "types": draw(types_st(N, K)), "ppp": ppp, "K": K, "kind": "+".join(kinds),
            "timesteps": [t0 + k * dt for k in range(F)], "outside": bool(np.any(offs)), "unwrapped": unwrapped}


# ----------------------------------------------------------------------------- size-boundary classes (EXTENSION_3 class 1)

BLOCKS = (32, 50, 64, 100, 128, 200, 256, 500, 512, 1000, 1024)


def boundary_sizes(lo, hi):
    """Sizes around typical block / tile sizes B: B-1, B, B+1, 2B-1, 2B+1, B + B//3 within [lo, hi]."""
    out = set()
    for B in BLOCKS:
        out.update((B - 1, B, B + 1, 2 * B - 1, 2 * B + 1, B + B // 3))
    return sorted(n for n in out if lo <= n <= hi)


def size_tag(n, what="N"):
    return f"size-boundary-{what}{int(n)}"


def bulk_fracs(rng, N, d, kind):
    """N fractional coordinates in [0,1)^d from a numpy Generator (bulk numbers of large systems, DESIGN 1.3)."""
    if kind == "gas":
        return rng.random((N, d))
    if kind == "cluster":
        nc = int(rng.integers(1, 4))
        centres = rng.random((nc, d))
        return (centres[rng.integers(0, nc, size=N)] + 0.12 * (rng.random((N, d)) - 0.5)) % 1.0
    m = int(np.ceil(N ** (1.0 / d) - 1e-9))
    while m ** d < N:
        m += 1
    sites = np.array(list(itertools.product(range(m), repeat=d)), dtype=float)
    sites = sites[rng.permutation(len(sites))[:N]]
    return ((sites + 0.5 + 0.3 * (rng.random((N, d)) - 0.5)) / m) % 1.0


@st.composite
def bulk_config_st(draw, d, N, cell, K=1, frames=(1, 1), ppp=None, kinds=("gas", "lattice-jit", "cluster")):
    """Same layout as config_st for systems too large to draw entry by entry: Hypothesis draws N, the kind, the seed
    and every parameter; the coordinates come from numpy.random.default_rng(seed)."""
    seed = draw(st.integers(0, 2 ** 32 - 1))
    rng = np.random.default_rng(seed)
    F = draw(st.integers(*frames))
    kind = draw(pick(kinds))
    fr = []
    for _ in range(F):
        f = bulk_fracs(rng, N, d, kind)
        if cell["kind"] != "ortho":
            f = (f + 1e-9 * np.arange(N)[:, None] * (1.0 + _IRR[:d])[None, :]) % 1.0
        fr.append(f)
    ppp = np.asarray(ppp, dtype=int)
    offs, unwrapped = draw(unwrap_st(N, d, ppp, rng=rng))
    types = np.concatenate([np.arange(1, K + 1), rng.integers(1, K + 1, size=N - K)])[rng.permutation(N)].astype(int)
    t0 = draw(st.integers(0, 10 ** 6))
    dt = draw(st.integers(1, 5000))
    return {"d": d, "cell": cell, "pos": [cell["lo"] + (f + offs) @ cell["H"] for f in fr], "types": types, "ppp": ppp,
            "K": K, "kind": "bulk-" + kind, "timesteps": [t0 + k * dt for k in range(F)], "outside": bool(np.any(offs)),
            "unwrapped": unwrapped, "seed": seed}


def config_tags(case):
    """class tags shared by every configuration-based facet"""
    ppp = np.asarray(case["ppp"])
    L = np.diag(np.asarray(case["cell"]["H"], dtype=float))
    out = [f"d{case['d']}", case["cell"]["kind"], f"K{case['K']}", f"frames{len(case['pos'])}",
           "mask-full" if np.all(ppp) else ("mask-open" if not np.any(ppp) else "mask-partial"),
           "outside" if case.get("outside") else "inside", "input-" + case.get("unwrapped", "wrapped"),
           case["kind"].split("+")[0].split(":")[0],
           "edges-equal" if np.ptp(L) == 0 else "edges-unequal"]
    if case["cell"]["kind"] != "ortho":
        Hm = np.asarray(case["cell"]["H"], dtype=float)
        off = Hm - np.diag(np.diag(Hm))
        out.append("tilt-negative" if off.min() < 0 else "tilt-positive")
    N = len(case["types"])
    if N in _BOUNDARY_SET:
        out.append(size_tag(N))
    return out


_BOUNDARY_SET = set(boundary_sizes(20, 2100))

# ----------------------------------------------------------------------------- library objects, call protocols


def build_snaps(case, intcell=False):
    """(Snapshots of a case, applied).  intcell: an integer-valued orthogonal cell handed over as int64 arrays (what a
    hand-built `np.diag([10, 10, 10])` is) - only where every entry is an exact integer, otherwise float arrays."""
    Hm = np.asarray(case["cell"]["H"], dtype=float)
    if not (intcell and case["cell"]["kind"] == "ortho" and np.array_equal(Hm, np.rint(Hm))):
        return gen.snapshots_from(case), False
    from PyMatterSim.reader.reader_utils import SingleSnapshot, Snapshots
    snaps = []
    for s in gen.snapshots_from(case).snapshots:
        snaps.append(SingleSnapshot(timestep=s.timestep, nparticle=s.nparticle, particle_type=s.particle_type,
                                    positions=s.positions, boxlength=np.rint(s.boxlength).astype(np.int64),
                                    boxbounds=s.boxbounds, realbounds=s.realbounds,
                                    hmatrix=np.rint(s.hmatrix).astype(np.int64)))
    return Snapshots(nsnapshots=len(snaps), snapshots=snaps), True


def mutate_snaps(snaps, case):
    """Overwrite the arrays of existing snapshot objects IN PLACE with the contents of `case` (same N, d, frames, cell
    class): a memo keyed on object identity or shape would keep answering for the old contents."""
    fresh = gen.snapshots_from(case)
    for s, t in zip(snaps.snapshots, fresh.snapshots):
        assert s.timestep == t.timestep and (s.realbounds is None) == (t.realbounds is None)
        s.positions[...] = t.positions
        s.particle_type[...] = t.particle_type
        s.hmatrix[...] = t.hmatrix
        s.boxlength[...] = t.boxlength
        s.boxbounds[...] = t.boxbounds
        if s.realbounds is not None:
            s.realbounds[...] = t.realbounds
    return snaps


PROTOCOLS = ("fresh", "fresh", "fresh", "inplace", "twice", "outfile")


class Kept:
    """Results handed out earlier must stay what they were (EXTENSION_3 class 3): every array / DataFrame a routine
    returns is kept alive together with a copy taken at return; verify() re-compares all of them bit for bit after the
    later calls (same parameters, other data) have been made."""

    def __init__(self):
        self.items = []

    @staticmethod
    def _snap(raw):
        if isinstance(raw, pd.DataFrame):
            return raw.copy(deep=True)
        if isinstance(raw, (tuple, list)):
            return [Kept._snap(x) for x in raw]
        if isinstance(raw, np.ndarray):
            return raw.copy()
        return raw

    def add(self, name, raw):
        self.items.append((name, raw, self._snap(raw)))
        return raw

    @staticmethod
    def _same(a, b):
        if isinstance(b, pd.DataFrame):
            return isinstance(a, pd.DataFrame) and list(a.columns) == list(b.columns) and a.shape == b.shape and \
                bool(np.array_equal(a.to_numpy(), b.to_numpy(), equal_nan=True))
        if isinstance(b, list):
            return len(a) == len(b) and all(Kept._same(x, y) for x, y in zip(a, b))
        if isinstance(b, np.ndarray):
            return isinstance(a, np.ndarray) and a.shape == b.shape and bool(
                np.array_equal(a, b, equal_nan=np.issubdtype(b.dtype, np.inexact)))
        return True

    def verify(self):
        for name, raw, copy in self.items:
            if not self._same(raw, copy):
                raise Violation(f"{name}: the result object handed out earlier changed after later calls (it must stay "
                                f"what it was at return)")
        return len(self.items)


def quat_to_matrix(q):
    """Unit quaternion (w, x, y, z) -> proper rotation matrix."""
    w, x, y, z = q
    return np.array([
        [1 - 2 * (y * y + z * z), 2 * (x * y - z * w), 2 * (x * z + y * w)],
        [2 * (x * y + z * w), 1 - 2 * (x * x + z * z), 2 * (y * z - x * w)],
        [2 * (x * z - y * w), 2 * (y * z + x * w), 1 - 2 * (x * x + y * y)]])


@st.composite
def rotation_st(draw, d):
    """(matrix, angle): SO(2) by an angle in [0.1, 2 pi - 0.1]; SO(3) from a drawn unit quaternion, angle > 0.1."""
    if d == 2:
        a = draw(st.one_of(st.sampled_from([math.pi / 2, math.pi, math.pi / 3, 1.0]), fl(0.1, 2 * math.pi - 0.1)))
        c, s = math.cos(a), math.sin(a)
        return np.array([[c, -s], [s, c]]), float(a)
    q = np.array(draw(st.lists(st.one_of(st.integers(-2, 2).map(float), fl(-1.0, 1.0)), min_size=4, max_size=4)))
    n = np.linalg.norm(q)
    if n < 1e-3:
        q, n = np.array([1.0, 1.0, 0.0, 0.0]), math.sqrt(2.0)
    q = q / n
    ang = 2 * math.acos(min(1.0, abs(q[0])))
    if ang < 0.1:   # too close to the identity: quarter turn about the drawn axis instead
        ax = q[1:]
        na = np.linalg.norm(ax)
        ax = ax / na if na > 1e-6 else np.array([0.0, 0.0, 1.0])
        q = np.concatenate([[math.cos(math.pi / 4)], math.sin(math.pi / 4) * ax])
        ang = math.pi / 2
    return quat_to_matrix(q), float(ang)


@st.composite
def ppp_for(draw, d, want, allow_open=True):
    """periodicity mask compatible with the primary transformation `want` (by construction)"""
    if want == "rotate":
        return np.zeros(d, dtype=int)
    p = np.asarray(draw(ppp_st(d, allow_open)), dtype=int)
    if want == "lattice" and not p.any():
        p = np.ones(d, dtype=int)
    return p


# Axis permutation of a tilted cell: coordinates, cell vectors (P H P^T, no longer lower triangular), origin and mask
# are permuted together.  Every routine that takes the cell from snapshot.hmatrix (g(r), neighbours, bond order,
# tetrahedral order, S2, dynamics) must be unaffected; S(q) and the Hessian are orthogonal-only and keep ortho=True.
AXES_TRICLINIC = True


def feasible_kinds(allowed, *, N, K, ortho, ppp, d):
    ppp = np.asarray(ppp)
    out = []
    for k in allowed:
        if k == "lattice" and not ppp.any():
            continue
        if k == "perm" and N < 2:
            continue
        if k == "swap" and K < 2:
            continue
        if k == "axes" and not ortho and not AXES_TRICLINIC:
            continue
        if k == "rotate" and ppp.any():
            continue
        out.append(k)
    return out


@st.composite
def tf_st(draw, allowed, *, N, K, d, F, ortho, ppp, per_frame=True, max_kinds=4, lattice_per_frame=True, first=None,
          rng=None, force=None):
    """A symmetry transformation: 1..max_kinds components from `allowed` (max_kinds >= 4: occasionally EVERY applicable
    one, the full chain translation o image shift o relabelling o axis permutation o ...), each far from the identity
    by construction.  rng: numpy Generator for the bulk numbers (per-particle shifts, permutation) of large systems.

    Returned dict (plain, picklable):
      kinds   list of active component names
      R       d x d proper rotation (rotate)                                     x -> c + R (x - c)
      axes    tuple, new axis k = old axis axes[k] (axes), applied to coordinates, box and ppp
      s       common dilation factor of coordinates and box (dilate)
      tfrac   F x d translation of frame f in units of the (new) cell vectors (translate); rows equal unless per_frame
      n       F x N x d integer lattice shifts along the ORIGINAL cell vectors, zero on non-periodic axes (lattice)
      perm    perm[i] = new index of old particle i (perm)
      sigma   sigma[a-1] = new label of old label a (swap)
      movebox whether the box origin moves with the translation of frame 0
      lat     magnitude class of the lattice shifts: near (|n| <= 2) / several (some |n| in 3..8) / far (some |n| in 20..60)
      far     the translation is by many (5..40) cell vectors
    """
    ppp = np.asarray(ppp, dtype=int)
    feas = feasible_kinds(allowed, N=N, K=K, ortho=ortho, ppp=ppp, d=d)
    assert feas, "no applicable transformation"
    if first is None or first not in feas:
        first = draw(pick(feas))
    kinds = [first]
    others = [k for k in feas if k != first]
    r = _scramble(draw(st.integers(0, 2 ** 32 - 1))) % 10
    extra = 0 if r <= 3 else (1 if r <= 6 else (2 if r <= 8 else len(others)))
    extra = min(extra, max_kinds - 1, len(others))
    if extra == len(others):
        kinds += others
    elif extra:
        order = draw(st.permutations(range(len(others))))
        kinds += [others[i] for i in order[:extra]]
    # block-boundary sizes (rng given): a particle lost or misplaced at a block edge is an index-dependent slip, and
    # relabelling is the transformation that sees it whatever else is applied
    for k in (("perm",) if (force is None and rng is not None) else (force or ())):
        if k in feas and k not in kinds:
            kinds.append(k)
    tf = {"kinds": kinds, "R": None, "axes": None, "s": 1.0, "tfrac": np.zeros((F, d)), "n": np.zeros((F, N, d)),
          "perm": np.arange(N), "sigma": np.arange(1, K + 1), "movebox": False, "angle": 0.0, "lat": None, "far": False}
    if "rotate" in kinds:
        tf["R"], tf["angle"] = draw(rotation_st(d))
    if "axes" in kinds:
        opts = [p for p in itertools.permutations(range(d)) if p != tuple(range(d))]
        tf["axes"] = tuple(draw(st.sampled_from(opts)))
    if "dilate" in kinds:
        s = draw(st.one_of(st.sampled_from([0.5, 2.0, 4.0, 0.1, 3.0, 10.0]), fl(0.2, 5.0)))
        if abs(s - 1.0) < 0.1:
            s = s + 0.25
        tf["s"] = float(s)
    if "translate" in kinds:
        tf["far"] = chance(draw, 5)
        if tf["far"]:
            el = st.one_of(st.integers(-40, 40).map(float), fl(-40.0, 40.0))
        else:
            el = st.one_of(st.integers(-48, 48).map(lambda k: k / 16.0), fl(-3.0, 3.0))
        rows = F if (per_frame and draw(st.booleans())) else 1
        t = draw(dense((rows, d), el))
        for r_ in range(rows):
            k = draw(st.integers(0, d - 1))
            if tf["far"] and abs(t[r_, k]) < 5.0:
                t[r_, k] += 7.25 if t[r_, k] >= 0 else -7.25
            if abs(t[r_, k]) < 0.1:
                t[r_, k] += 0.1 if t[r_, k] >= 0 else -0.1
        tf["tfrac"] = np.repeat(t, F, axis=0) if rows == 1 else t
        tf["movebox"] = draw(st.booleans())
    if "lattice" in kinds:
        lat = draw(pick(["near", "near", "several", "several", "far"]))
        amp = 2 if lat != "several" else 8
        rows = F if lattice_per_frame else 1
        if rng is None:
            n = draw(hnp.arrays(np.int64, (rows, N, d), elements=st.integers(-amp, amp))).astype(float) * ppp
        else:
            n = rng.integers(-amp, amp + 1, size=(rows, N, d)).astype(float) * ppp
        ax = int(np.argmax(ppp))
        for r_ in range(rows):
            if not n[r_].any():
                n[r_, draw(st.integers(0, N - 1)), ax] = draw(st.sampled_from([-1.0, 1.0, 2.0]))
            if lat == "several" and np.abs(n[r_]).max() < 3:
                n[r_, draw(st.integers(0, N - 1)), ax] = draw(st.sampled_from([-8.0, -5.0, -3.0, 3.0, 4.0, 7.0]))
            if lat == "far":
                n[r_, draw(st.integers(0, N - 1)), ax] = draw(st.integers(20, 60)) * draw(st.sampled_from([-1.0, 1.0]))
        tf["n"] = np.repeat(n, F, axis=0) if rows == 1 else n
        tf["lat"] = lat
    if "perm" in kinds:
        if rng is None:
            p = np.array(draw(st.permutations(range(N))), dtype=int)
        else:
            p = rng.permutation(N)
        if np.array_equal(p, np.arange(N)):
            p = np.roll(p, 1)
        tf["perm"] = p
    if "swap" in kinds:
        s_ = np.array(draw(st.permutations(range(1, K + 1))), dtype=int)
        if np.array_equal(s_, np.arange(1, K + 1)):
            s_[[0, 1]] = s_[[1, 0]]
        tf["sigma"] = s_
    return tf


# ----------------------------------------------------------------------------- applying a transformation


def linear_part(tf, d):
    """Orthogonal matrix A with x' - c' = A (x - c) (rotation followed by the axis permutation), without dilation."""
    A = np.eye(d) if tf["R"] is None else np.asarray(tf["R"], dtype=float)
    if tf["axes"] is not None:
        A = A[list(tf["axes"]), :]
    return A


def inv_perm(p):
    q = np.empty(len(p), dtype=int)
    q[np.asarray(p, dtype=int)] = np.arange(len(p))
    return q


def apply_tf(case, tf):
    """Transformed configuration case (same layout).  Order: rotate about the cell centre, permute axes (with box
    and ppp), dilate (with box), translate, lattice shifts, relabel ids, swap species labels."""
    d = case["d"]
    cell = case["cell"]
    H = np.array(cell["H"], dtype=float)
    lo = np.array(cell["lo"], dtype=float)
    ppp = np.asarray(case["ppp"], dtype=int)
    centre = lo + 0.5 * H.sum(axis=0)
    pos = [np.array(p, dtype=float) for p in case["pos"]]
    if tf["R"] is not None:
        R = np.asarray(tf["R"], dtype=float)
        pos = [(p - centre) @ R.T + centre for p in pos]
    nshift = np.asarray(tf["n"], dtype=float)      # given along the ORIGINAL cell vectors
    if tf["axes"] is not None:
        ax = list(tf["axes"])
        pos = [p[:, ax] for p in pos]
        H = H[ax][:, ax]
        lo = lo[ax]
        ppp = ppp[ax]
        nshift = nshift[:, :, ax]
    s = float(tf["s"])
    if s != 1.0:
        pos = [s * p for p in pos]
        H = s * H
        lo = s * lo
    pos = [p + tf["tfrac"][f] @ H + nshift[f] @ H for f, p in enumerate(pos)]
    if tf["movebox"]:
        lo = lo + tf["tfrac"][0] @ H
    perm = np.asarray(tf["perm"], dtype=int)
    new_pos = []
    for p in pos:
        q = np.empty_like(p)
        q[perm] = p
        new_pos.append(q)
    types = np.asarray(case["types"], dtype=int)
    nt = np.empty_like(types)
    nt[perm] = np.asarray(tf["sigma"], dtype=int)[types - 1]
    new = dict(case)
    kind = cell["kind"]
    if tf["axes"] is not None and kind != "ortho":
        kind = "general"
    new.update(cell={"d": d, "kind": kind, "H": H, "lo": lo, "origin": cell.get("origin", "any")},
               pos=new_pos, types=nt, ppp=ppp)
    return new


def tf_tags(tf, obs=None):
    """tf-<kind> per active component, the size of the composition, the magnitude classes, and (obs given) the
    populated cells of the observable x transformation matrix as cell:<observable>:<kind>."""
    nk = len(tf["kinds"])
    out = ["tf-" + k for k in tf["kinds"]] + ["tf-single" if nk == 1 else "tf-pair" if nk == 2 else "tf-triple" if nk == 3
                                              else "tf-chain4+"]
    if tf.get("lat"):
        out.append("lat-" + tf["lat"])
    if tf.get("far"):
        out.append("translate-far")
    if {"translate", "lattice", "perm", "axes"} <= set(tf["kinds"]):
        out.append("tf-translate.lattice.perm.axes")
    for o in ([obs] if isinstance(obs, str) else (obs or [])):
        out += [f"cell:{o}:{k}" for k in tf["kinds"]]
    return out


def coord_noise(*cases):
    """Absolute rounding noise of a coordinate difference: 4 ulp of the largest coordinate / cell entry that occurs in
    any of the configurations (a pair vector is a difference of two coordinates that were each rounded once when the
    transformation was applied, and goes through one fractional-coordinate round trip)."""
    m = 0.0
    for c in cases:
        m = max(m, float(np.abs(np.asarray(c["cell"]["H"])).max()), float(np.abs(np.asarray(c["cell"]["lo"])).max(initial=0.0)))
        for p in c["pos"]:
            m = max(m, float(np.abs(p).max(initial=0.0)))
    return 4.0 * 2.220446049250313e-16 * m


def describe_tf(tf):
    out = {"kinds": tf["kinds"]}
    if "translate" in tf["kinds"]:
        out["tfrac"] = np.round(tf["tfrac"], 4).tolist()
    if "lattice" in tf["kinds"]:
        out["n_nonzero"] = int(np.count_nonzero(tf["n"]))
        out["n_max"] = float(np.abs(tf["n"]).max())
    if "perm" in tf["kinds"]:
        out["perm"] = np.asarray(tf["perm"]).tolist()[:12]
    if "swap" in tf["kinds"]:
        out["sigma"] = np.asarray(tf["sigma"]).tolist()
    if "axes" in tf["kinds"]:
        out["axes"] = list(tf["axes"])
    if "rotate" in tf["kinds"]:
        out["angle"] = round(tf["angle"], 4)
    if "dilate" in tf["kinds"]:
        out["s"] = tf["s"]
    return out


def describe(case):
    dsc = gen.describe_config(case)
    dsc["tf"] = describe_tf(case["tf"])
    for k in ("rdelta", "l", "mode", "k", "rcut", "model", "obs", "file", "proto", "qrep", "Nmax", "mass_rep", "diam_rep",
              "unwrapped", "nb", "seed"):
        if k in case:
            v = case[k]
            dsc[k] = v.tolist() if isinstance(v, np.ndarray) else v
    return dsc


# ----------------------------------------------------------------------------- geometry of decision boundaries


def pair_info(case, f=0):
    """ordered pair table of frame f of the ORIGINAL configuration"""
    return geom.pair_table(case["pos"][f], case["cell"]["H"], case["ppp"])


def has_coincident(case, rel=1e-7):
    Lmin = float(np.abs(np.diag(case["cell"]["H"])).min())
    for f in range(len(case["pos"])):
        _, _, _, dist, _ = pair_info(case, f)
        if len(dist) and dist.min() < rel * Lmin:
            return True
    return False


def tri_tie(case):
    """A half-cell minimum-image tie in a non-orthogonal cell: the two images have different lengths."""
    if case["cell"]["kind"] == "ortho":
        return False
    for f in range(len(case["pos"])):
        if pair_info(case, f)[4].any():
            return True
    return False


def any_tie(case):
    for f in range(len(case["pos"])):
        if pair_info(case, f)[4].any():
            return True
    return False


def mi_dist(pos, H, ppp, i, js):
    """minimum-image distances from particle i to particles js (reference geometry)"""
    v, tie = geom.min_image(pos[np.asarray(js, dtype=int)] - pos[i], H, ppp)
    return np.sqrt((v * v).sum(axis=1)), tie


# ----------------------------------------------------------------------------- neighbour files


def write_listfile(fn, frames, header="id cn neighborlist", rows=None, fmt=None):
    """frames: list (per frame) of lists (per particle, 0-based index order) of sequences.  Integer neighbour ids are
    written 1-based; with fmt (e.g. repr) the entries are written as floats (weights).  rows[f] = order of the rows."""
    with open(fn, "w") as fh:
        for f, lists in enumerate(frames):
            fh.write(header + "\n")
            order = range(len(lists)) if rows is None else rows[f]
            for i in order:
                if fmt is None:
                    items = [str(int(j) + 1) for j in lists[i]]
                else:
                    items = [fmt(float(x)) for x in lists[i]]
                fh.write(" ".join([str(int(i) + 1), str(len(lists[i]))] + items) + "\n")


def permute_lists(frames, perm, values=False):
    """Lists of the relabelled system: particle perm[i] gets the list of i, entries mapped through perm
    (values=True: the entries are per-bond numbers, kept as they are)."""
    perm = np.asarray(perm, dtype=int)
    inv = inv_perm(perm)
    out = []
    for lists in frames:
        new = []
        for a in range(len(lists)):
            src = lists[inv[a]]
            new.append([float(x) for x in src] if values else [int(perm[int(j)]) for j in src])
        out.append(new)
    return out


def parse_neighbor_file(name, fn, N, F):
    """Parse a neighbour file written by the library: F blocks of a header line and N rows `id cn n1 n2 ...`.
    Returns list (per frame) of dict id0 -> list of 0-based neighbour indices.  Malformed output is a Violation."""
    try:
        with open(fn) as fh:
            lines = [ln for ln in fh.read().splitlines() if ln.strip()]
    except OSError as e:
        raise Violation(f"{name}: neighbour file not written ({e})")
    if len(lines) != F * (N + 1):
        raise Violation(f"{name}: expected {F} blocks of 1+{N} lines, file has {len(lines)} non-empty lines")
    out = []
    for f in range(F):
        head = lines[f * (N + 1)].split()
        if head != ["id", "cn", "neighborlist"]:
            raise Violation(f"{name}: frame {f} header is {lines[f * (N + 1)]!r}")
        block = {}
        for ln in lines[f * (N + 1) + 1:(f + 1) * (N + 1)]:
            try:
                tok = [int(t) for t in ln.split()]
            except ValueError:
                raise Violation(f"{name}: non-integer token in row {ln!r}")
            if len(tok) < 2 or len(tok) != 2 + tok[1]:
                raise Violation(f"{name}: row {ln!r} does not list cn={tok[1] if len(tok) > 1 else '?'} neighbours")
            i = tok[0] - 1
            if not 0 <= i < N or i in block:
                raise Violation(f"{name}: bad or repeated particle id in row {ln!r}")
            nb = [t - 1 for t in tok[2:]]
            if any(not 0 <= j < N for j in nb):
                raise Violation(f"{name}: neighbour id out of range in row {ln!r}")
            block[i] = nb
        out.append(block)
    return out


# ----------------------------------------------------------------------------- comparisons


def close_tol(name, got, want, atol, rtol=1e-8, equal_nan=False):
    """|got - want| <= atol + rtol |want| with atol broadcast against want."""
    want = np.asarray(want)
    g = arr(name, got, shape=want.shape)
    if g.size == 0:
        return
    err = np.abs(g - want)
    tol = np.broadcast_to(np.asarray(atol, dtype=float), want.shape) + rtol * np.abs(want)
    ok = err <= tol
    if equal_nan:
        ok = ok | (np.isnan(g) & np.isnan(want))
    if not ok.all():
        bad = ~ok
        ti = tuple(int(i) for i in np.argwhere(bad)[0])
        with np.errstate(invalid="ignore"):
            mx = np.nanmax(np.where(bad, err, 0.0)) if np.isfinite(err[bad]).any() else float("nan")
        raise Violation(f"{name}: {int(bad.sum())}/{g.size} entries differ; first at {ti}: transformed input gives "
                        f"{g[ti]!r}, original (mapped) gives {want[ti]!r}, allowed {tol[ti]:.3e}; max |diff| = {mx:.3e}")


def nondegenerate(x):
    x = np.asarray(x, dtype=float)
    x = x[np.isfinite(x)]
    return bool(x.size and np.any(np.abs(x) > 1e-12) and (x.size == 1 or np.ptp(x) > 1e-9 * (1 + np.abs(x).max())))


# ----------------------------------------------------------------------------- shared case ingredients


def integerise(cell):
    """the same kind of cell with integer-valued edges and origin (so that it can be handed over as int64 arrays)"""
    H = np.asarray(cell["H"], dtype=float)
    L = np.maximum(2.0, np.rint(np.diag(H)))
    out = dict(cell)
    out["H"] = H - np.diag(np.diag(H)) + np.diag(L)
    out["lo"] = np.rint(np.asarray(cell["lo"], dtype=float))
    return out


PLUS_ONE = (33, 51, 65, 101, 129, 201, 257)      # B + 1 / 2B + 1: one particle beyond a full block


@st.composite
def size_st(draw, small, size, boundary_hi=260, large=(480, 1030), share=10):
    """(N, is_bulk): `small` = (lo, hi) drawn entry by entry; size 'mixed' = small with a boundary size in one case of
    `share`; 'boundary' / 'large' = always a block-boundary size (EXTENSION_3 class 1).  Half of the boundary sizes are
    of the most telling kind B + 1 / 2B + 1."""
    if isinstance(size, tuple):          # ("fixed", N): the finite size sweep
        return int(size[1]), True
    if size == "large":
        return draw(pick(boundary_sizes(*large))), True
    if size == "boundary" or (size == "mixed" and chance(draw, share)):
        plus = [n for n in PLUS_ONE if n <= boundary_hi]
        if draw(st.booleans()):
            return draw(pick(plus)), True
        return draw(pick(boundary_sizes(31, boundary_hi))), True
    return draw(st.integers(*small)), False


@st.composite
def any_config_st(draw, d, N, bulk, cell, K, frames, ppp, **kw):
    if bulk:
        return draw(bulk_config_st(d, N, cell, K=K, frames=frames, ppp=ppp))
    return draw(config_st(d, N, cell, K=K, frames=frames, ppp=ppp, **kw))


def new_kept():
    global KEPT
    KEPT = Kept()
    return KEPT


KEPT = Kept()


def two_runs(case, new, run):
    """Original and transformed evaluation under the case's call protocol.  run(c, snaps, side) -> parsed output.
      fresh    two independent Snapshots objects
      inplace  ONE Snapshots object whose arrays are overwritten in place with the transformed contents
      twice / outfile  handled by `run` (second evaluation on the same analysis object / results also written to a file)
    The transformed side optionally receives an integer-valued cell as int64 arrays (case['intcell'])."""
    proto = case.get("proto", "fresh")
    tags = ["proto-" + proto]
    s0 = gen.snapshots_from(case)
    o0 = run(case, s0, 0)
    if proto == "inplace":
        s1 = mutate_snaps(s0, new)
    else:
        s1, applied = build_snaps(new, case.get("intcell", False))
        if applied:
            tags.append("rep-intcell")
    o1 = run(new, s1, 1)
    return o0, o1, tags


def same_again(name, first, second, rtol=1e-12):
    """second evaluation on the same object: must reproduce the first (to rounding)"""
    a, b = np.asarray(first, dtype=float), np.asarray(second, dtype=float)
    require(a.shape == b.shape, lambda: f"{name}: second evaluation on the same object has shape {b.shape}, first {a.shape}")
    fin = np.isfinite(a)
    require(np.array_equal(fin, np.isfinite(b)), f"{name}: second evaluation on the same object differs in nan/inf pattern")
    if fin.any():
        scale = float(np.abs(a[fin]).max())
        require(bool(np.all(np.abs(a[fin] - b[fin]) <= rtol * max(scale, 1e-300) + 1e-300)),
                lambda: f"{name}: second evaluation on the same object differs from the first by "
                f"{float(np.abs(a[fin] - b[fin]).max()):.3e} (scale {scale:.3e})")


def draw_one(strategy, seed_, k=3):
    """k-th example of a strategy under a fixed Hypothesis seed (the first one is the all-minimal example): how the
    finite size sweep builds its cases - every number still comes from a Hypothesis strategy."""
    import hypothesis
    out = []

    @hypothesis.seed(int(seed_))
    @hypothesis.settings(max_examples=k, database=None, deadline=None, phases=[hypothesis.Phase.generate],
                         suppress_health_check=list(hypothesis.HealthCheck))
    @hypothesis.given(strategy)
    def collect(c):
        out.append(c)
    collect()
    return out[-1]
