"""C13 — conditional g(r) and conditional S(q) equal the weighted definitions and reduce to the partial functions.

conditional_gr:  gA(r_k) = V / N_A^2 * sum_{i != j, |r_ij| in bin k} w_ij / shell_k ,
    w_ij = [A_i and A_j] (bool) | Re(A_i conj A_j) (scalar) | Re sum_c A_ic conj A_jc (vector) | tr(A_i A_j) (tensor),
    N_A = number of selected particles for a boolean A, N otherwise;  column gr = total g(r);
    gA_norm = (gA - <A>^2) / (<A^2> - <A>^2) for real scalars.
conditional_sq:  FFT(q) = sum_i A_i exp(-i q.r_i) / sqrt(N_A),  Sq = |FFT|^2 (summed over vector components),
    q_c = 2 pi n_c / L_c, all columns rounded to 8 decimals, second frame = mean of Sq over rows with the same |q|.

Oracles: independent brute force (`ref.paircorr` interval oracle for the histogram, `ref.fourier13` for the Fourier
sums) plus the reductions named in the property, checked against the library itself: species selection -> gr{aa} of
`gr` / Sq{aa} of `sq`; all selected or A = 1 -> totals; vector = sum over components analysed as scalars; symmetric
tensor = its flattened components analysed as a vector.

Preconditions imposed by the code under test (only such inputs are generated):
  * a boolean condition selects at least one particle                      (division by Natom, gr.py L154 / sq.py L70)
  * complex scalars are complex128 arrays                                  (dtype dispatch `== "complex128"`, gr.py L70)
  * vector / tensor conditions are passed with conditiontype 'vector' / 'tensor'; tensors are real and square
  * conditional_sq: orthogonal cell (q = 2 pi n / boxlength), integer wave vectors of shape (nq, ndim); a vector
    condition has ndim components (output columns FFT0..FFT{ndim-1}, sq.py L84-86; docs: 'such as velocity field')
  * N >= 2, at least one histogram bin, ppp has one entry per dimension, type ids 1..K all present
"""
from __future__ import annotations

import numpy as np
import pandas as pd
from hypothesis import strategies as st
from hypothesis.extra import numpy as hnp

from ..gen import config_st, describe_config, fl, frac_st, nice_float, snapshot_from
from ..harness import Facet, Violation
from ..ref import fourier13 as f13
from ..ref import geom
from ..ref import paircorr as pc
from ..util import arr, close, col, columns, require
from .c03 import dyadic_case_st

from PyMatterSim.reader.reader_utils import Snapshots
from PyMatterSim.static.gr import conditional_gr
from PyMatterSim.static.gr import gr as GR
from PyMatterSim.static.sq import conditional_sq
from PyMatterSim.static.sq import sq as SQ

RULE = ("single generated configurations (d {2,3}, N 6..25 for g(r) / 2..25 for S(q), gas / lattice / cluster, any origin, particles outside the "
        "box; ortho or triclinic cell and every periodicity mask for g(r), orthogonal incl. cubic cell for S(q)) x "
        "condition kinds {bool selection incl. one species / all, float, int, complex128, real and complex vectors of "
        "1..5 components, symmetric and general real tensors} x bin widths giving 3..30 bins x integer wave-vector "
        "lists (1..14 vectors, components in [-6,6], with sign-flipped and permuted partners); classes of their own: the "
        "everyday input (cubic box, 16..25 particles inside, fully periodic, widths 0.02..0.2), minimal sizes (N = 2..3, "
        "one or two bins), dyadic grids (pairs on bin edges), and a second call on the SAME snapshot / condition arrays "
        "after writing new positions, tilt factors and field values into them.  non-trivial: g(r): the "
        "weighted column has non-zero entries in at least two bins and the weights are not all equal; S(q): at least "
        "two wave vectors with non-zero S and at least one |q| class with two or more members")
ASSUMPTIONS = [
    "minimum image = fractional rounding (contract of C02); half-cell ties may take either image",
    "pairs within 1e-9 x coordinate scale of a bin edge may be counted on either side: the weighted column must lie "
    "between the sums with every ambiguous pair assigned the least / most favourable admissible bin",
    "float tolerance of a weighted bin: 1e-9 x (normalisation x sum |w| of the pairs that may fall in the bin)",
    "conditional_sq rounds every column to 8 decimals: |got - exact| <= 5e-9 + float error (1e-14 x sum_i (|q.r_i| + N) |A_i|)",
    "the |q| classes of the averaged frame are those of the library's own rounded q column; the independent check "
    "of the class means is skipped when a reference |q| lies within 1e-13 (relative) of a rounding boundary",
    "reductions against gr / sq are compared only in bins (|q| classes) the reference marks unambiguous; sq rounds to 6 "
    "decimals, hence 5e-7 + 5e-9 there",
    "gA_norm is compared only when the variance of A exceeds 1e-6 <A^2>",
]
MANIFEST = {
    "text": ("Differential test of static.gr.conditional_gr and static.sq.conditional_sq against independent brute-force "
             "definitions for every condition kind (bool, float, int, complex, real/complex vector, symmetric/general "
             "tensor): exact column sets, bin count and centres, total and weighted columns inside the reference "
             "interval, gA_norm, per-vector q / Sq / FFT and per-|q| means; plus the reductions species selection -> "
             "gr{aa}, Sq{aa}; all / A = 1 -> totals; vector = sum of components; symmetric tensor = flattened vector; a "
             "second call with the same array objects mutated in place must describe the contents at call time."),
    "note": ("Trusted base: pbt/ref/geom.py, pbt/ref/paircorr.py, pbt/ref/fourier13.py (numpy only).  Histogram edges "
             "and half-cell ties are handled by an interval oracle.  Inputs are small (N <= 25, <= 31 bins, <= 28 wave "
             "vectors).  complex64 scalars, complex tensors and vectors whose length differs from ndim in "
             "conditional_sq are outside the generated domain."),
    "technique": ("property-based testing (Hypothesis): reference-model differential with interval oracle + metamorphic "
                  "reductions against the library's own partial functions"),
}

EPS = 2.3e-16


# ----------------------------------------------------------------------------- generators

_val = st.one_of(st.integers(-40, 40).map(lambda k: k / 4.0), fl(-10.0, 10.0))


def _real(shape):
    return hnp.arrays(np.float64, shape, elements=_val)


@st.composite
def _complex(draw, shape):
    re = draw(_real(shape))
    im = draw(_real(shape))
    return (re + 1j * im).astype(np.complex128)


@st.composite
def plan_st(draw, kinds, sq=False):
    """Discrete choices of a condition, drawn *before* the configuration (late draws are biased to the simplest value)."""
    kind = draw(st.sampled_from(list(kinds)))
    plan = {"kind": kind}
    if kind == "bool":
        plan["sub"] = draw(st.sampled_from(["species", "species", "random", "all"]))
    elif kind == "float":
        plan["sub"] = draw(st.sampled_from(["generic", "generic", "generic", "one", "int", "positive", "offset"]))
    elif kind == "complex":
        plan["sub"] = draw(st.sampled_from(["generic", "generic", "phase"]))
    elif kind == "vector":
        plan["m"] = None if sq else draw(st.sampled_from([1, 2, 3, 3, 4, 5]))
        plan["cplx"] = draw(st.sampled_from([False, True]))
    elif kind == "tensor":
        plan["m"] = draw(st.sampled_from([None, None, 2, 3, 1]))
        plan["sym"] = draw(st.sampled_from([False, True]))
    return plan


@st.composite
def condition_st(draw, plan, N, types, K, d):
    """Returns dict(kind, sub, A, ctype)."""
    kind = plan["kind"]
    if kind == "bool":
        sub = plan["sub"]
        if sub == "species":
            a = draw(st.integers(1, K))
            A = np.asarray(types) == a
            return {"kind": "bool", "sub": "species", "A": A, "ctype": None, "species": a}
        if sub == "all":
            return {"kind": "bool", "sub": "all", "A": np.ones(N, dtype=bool), "ctype": None}
        A = np.array(draw(st.lists(st.booleans(), min_size=N, max_size=N)), dtype=bool)
        if not A.any():
            A[draw(st.integers(0, N - 1))] = True
        return {"kind": "bool", "sub": "random", "A": A, "ctype": None}
    if kind == "float":
        sub = plan["sub"]
        if sub == "one":
            A = np.ones(N, dtype=np.float64)
        elif sub == "int":
            A = draw(hnp.arrays(np.int64, (N,), elements=st.integers(-5, 5)))
        elif sub == "positive":
            A = np.abs(draw(_real((N,)))) + 0.25
        elif sub == "offset":
            # a density- or size-like quantity: small fluctuations about a large mean, relative variance of a few 1e-6
            # (the normalised column is still defined; a "looks constant" shortcut with a relative tolerance is not)
            m = draw(st.sampled_from([1.2, 5.0, -3.0, 100.0]))
            amp = draw(st.sampled_from([2e-3, 3e-3, 5e-3, 2e-2]))
            A = m * (1.0 + amp * draw(hnp.arrays(np.float64, (N,), elements=st.integers(-64, 64).map(lambda k: k / 64.0),
                                                 fill=st.nothing())))
            if np.ptp(A) == 0:
                A[0] = m * (1.0 + amp)
        else:
            A = draw(_real((N,)))
        return {"kind": "float", "sub": sub, "A": A, "ctype": None}
    if kind == "complex":
        sub = plan["sub"]
        if sub == "phase":  # unit phasors, like bond-orientational order parameters
            th = draw(hnp.arrays(np.float64, (N,), elements=fl(-3.2, 3.2)))
            A = np.exp(1j * th).astype(np.complex128)
        else:
            A = draw(_complex((N,)))
        return {"kind": "complex", "sub": sub, "A": A, "ctype": None}
    if kind == "vector":
        m = plan["m"] or d
        cplx = plan["cplx"]
        A = draw(_complex((N, m))) if cplx else draw(_real((N, m)))
        return {"kind": "vector", "sub": ("complex" if cplx else "real") + f"-m{m}", "A": A, "ctype": "vector"}
    if kind == "tensor":
        m = plan["m"] or d
        A = draw(_real((N, m, m)))
        if plan["sym"]:
            A = 0.5 * (A + np.transpose(A, (0, 2, 1)))
        return {"kind": "tensor", "sub": ("sym" if plan["sym"] else "general") + f"-m{m}", "A": A, "ctype": "tensor"}
    raise AssertionError(kind)


def _second_cell(draw, cell):
    """Same edge lengths, different tilt factors (triclinic); unchanged for orthogonal cells."""
    if cell["kind"] != "tri":
        return cell
    H = np.diag(np.diag(cell["H"]).copy())
    L = np.diag(H).copy()
    d = len(L)
    def tilt(edge):
        return draw(st.one_of(st.just(0.0), nice_float(-0.5, 0.5))) * edge
    H[1, 0] = tilt(L[0])
    if d == 3:
        H[2, 0] = tilt(L[0])
        H[2, 1] = tilt(L[1])
    if np.array_equal(H, cell["H"]):
        H[1, 0] = -cell["H"][1, 0] if cell["H"][1, 0] else 0.3 * L[0]
    return dict(cell, H=H)


@st.composite
def gr_case_st(draw, kinds):
    plan = draw(plan_st(kinds))
    klass = draw(st.sampled_from(["generic"] * 5 + ["dyadic", "dyadic", "ordinary", "ordinary", "minimal"]))
    mode = draw(st.sampled_from(["frac", "frac", "nice", "exact"]))
    twice = draw(st.sampled_from([False, False, True]))
    if klass == "dyadic":
        case = draw(dyadic_case_st())          # exact grid: pairs on bin edges and at the half cell
        case["pos"] = case["pos"][:1]
        case["timesteps"] = case["timesteps"][:1]
    elif klass == "ordinary":
        # the everyday input: cubic box at the origin, particles inside, fully periodic, typical bin widths
        d = draw(st.sampled_from([2, 3]))
        L0 = draw(st.one_of(st.integers(4, 12).map(float), nice_float(4.0, 12.0)))
        case = draw(config_st(d=d, cell_kind="ortho", nmin=16, nmax=25, kmax=3, frames=(1, 1), allow_open=False,
                              outside=False, origin="zero"))
        f = geom.frac_coords(case["pos"][0], case["cell"]["H"])
        H = np.diag([L0] * d)
        case["cell"] = dict(case["cell"], H=H)
        case["pos"] = [f @ H]
        case["rdelta"] = float(draw(st.sampled_from([0.02, 0.05, 0.1, 0.2])))
        case["wmode"] = "typical"
        case["kind"] = "ordinary-" + case["kind"]
    elif klass == "minimal":
        # N = 2 or 3, one or two bins
        N = draw(st.sampled_from([2, 2, 3]))
        case = draw(config_st(nmin=N, nmax=N, kmax=2, frames=(1, 1), kinds=("gas",), lmin=2.0, lmax=12.0))
        lmin = float(np.diag(case["cell"]["H"]).min())
        nb = draw(st.sampled_from([1, 1, 2]))
        case["rdelta"] = float(lmin / (2.0 * (nb + draw(fl(0.02, 0.98)))))
        case["wmode"] = f"{nb}-bin"
        if draw(st.booleans()):
            e = np.zeros(case["d"])
            e[draw(st.integers(0, case["d"] - 1))] = 1.0
            case["pos"][0][1] = case["pos"][0][0] + draw(fl(0.05, 0.9)) * case["rdelta"] * nb * e
        case["kind"] = "minimal-" + case["kind"]
    else:
        case = draw(config_st(nmin=6, nmax=25, kmax=4, frames=(1, 1), lmin=2.0, lmax=12.0))
        lmin = float(np.diag(case["cell"]["H"]).min())
        if mode == "frac":
            rdelta = lmin / (2.0 * (draw(st.integers(3, 30)) + draw(fl(0.02, 0.98))))
        elif mode == "nice":
            rdelta = draw(nice_float(lmin / 60.0, lmin / 6.5))
        else:
            rdelta = lmin / (2.0 * draw(st.integers(3, 30)))
        case["rdelta"] = float(rdelta)
        case["wmode"] = mode
    N = len(case["types"])
    case["klass"] = klass
    case["cond"] = draw(condition_st(plan, N, case["types"], case["K"], case["d"]))
    if twice:
        # second contents for the SAME array objects (mutated in place between two calls): new positions, new tilt
        # factors with the same edge lengths, new field values
        cell2 = _second_cell(draw, case["cell"])
        f2 = draw(frac_st(N, case["d"]))
        A2 = draw(condition_st(plan, N, case["types"], case["K"], case["d"]))["A"]
        case["second"] = {"H": cell2["H"], "pos": cell2["lo"] + f2 @ cell2["H"], "A": A2}
    return case


@st.composite
def sq_case_st(draw, kinds):
    plan = draw(plan_st(kinds, sq=True))
    case = draw(config_st(cell_kind="ortho", nmin=2, nmax=25, kmax=4, frames=(1, 1), allow_open=False))
    d = case["d"]
    cell = case["cell"]
    shape = draw(st.sampled_from(["unequal", "cubic", "two-equal"] if d == 3 else ["unequal", "cubic"]))
    if shape != "unequal":
        H = cell["H"]
        L = np.diag(H).copy()
        f = geom.frac_coords(case["pos"][0] - cell["lo"], H)
        L[1] = L[0]
        if shape == "cubic" and d == 3:
            L[2] = L[0]
        newH = np.diag(L)
        cell = dict(cell, H=newH)
        case["cell"] = cell
        case["pos"] = [cell["lo"] + f @ newH]
    case["shape"] = shape
    nq = draw(st.integers(1, 7))
    base = draw(hnp.arrays(np.int64, (nq, d), elements=st.integers(-6, 6)))
    rows = [base]
    if draw(st.booleans()):
        rows.append(-base)
    if draw(st.booleans()):
        rows.append(base[:, ::-1])
    if draw(st.integers(0, 3)) == 0:
        rows.append(np.zeros((1, d), dtype=np.int64))
    nvec = np.vstack(rows)
    perm = draw(st.permutations(range(len(nvec))))
    case["nvec"] = nvec[list(perm)]
    N = len(case["types"])
    case["cond"] = draw(condition_st(plan, N, case["types"], case["K"], d))
    if draw(st.sampled_from([False, False, True])):
        f2 = draw(frac_st(N, d))
        A2 = draw(condition_st(plan, N, case["types"], case["K"], d))["A"]
        case["second"] = {"pos": case["cell"]["lo"] + f2 @ case["cell"]["H"], "A": A2}
    return case


# ----------------------------------------------------------------------------- helpers


def _band(case):
    scale = max(1.0, float(np.abs(case["cell"]["H"]).max()), max(float(np.abs(p).max()) for p in case["pos"]))
    if case.get("second"):
        scale = max(scale, float(np.abs(case["second"]["pos"]).max()))
    return pc.BAND_REL * scale


def within(name, got, lo, hi, atol):
    lo, hi, atol = np.asarray(lo, float), np.asarray(hi, float), np.asarray(atol, float)
    g = arr(name, got, shape=lo.shape).astype(float)
    bad = (g < lo - atol) | (g > hi + atol) | ~np.isfinite(g)
    if bad.any():
        k = int(np.argwhere(bad)[0][0])
        raise Violation(f"{name}: {int(bad.sum())}/{g.size} entries outside the reference interval; first at bin {k}: "
                        f"got {g[k]!r}, allowed [{lo[k]!r}, {hi[k]!r}] (+- {atol[k]:.3e})")


def _weight_kind(cond):
    return {"bool": "bool", "float": "scalar", "complex": "scalar", "vector": "vector", "tensor": "tensor"}[cond["kind"]]


def call_cgr(case, A, ctype):
    snap = snapshot_from(case["cell"], case["pos"][0], case["types"], case["timesteps"][0])
    return conditional_gr(snap, condition=np.array(A, copy=True), conditiontype=ctype,
                          ppp=np.array(case["ppp"], dtype=int), rdelta=case["rdelta"])


def frame_values(tag, df, names, nrow=None):
    require(isinstance(df, pd.DataFrame), f"{tag}: returned {type(df).__name__}, not a DataFrame")
    columns(tag, df, names)
    n = len(df) if nrow is None else nrow
    require(len(df) == n, f"{tag}: {len(df)} rows, expected {n}")
    return {c: arr(f"{tag}[{c}]", col(tag, df, c), shape=(n,)) for c in names}


# ----------------------------------------------------------------------------- conditional g(r)


def verify_cgr(case, pos, H, A, df, tag):
    """Reference comparison of one conditional_gr result for the contents (pos, H, A).  Returns the pieces the
    reductions need."""
    d = case["d"]
    cond = case["cond"]
    N = len(pos)
    width = case["rdelta"]
    lmin = float(np.diag(H).min())
    real_scalar = cond["kind"] == "float"
    names = ["r", "gr", "gA"] + (["gA_norm"] if real_scalar else [])
    require(isinstance(df, pd.DataFrame), f"{tag}: returned {type(df).__name__}")
    allowed = pc.nbins_allowed(lmin, width)
    nbin = len(df)
    require(nbin in allowed, f"{tag}: {nbin} bins, int(L_min/(2 width)) = int({lmin!r}/(2*{width!r})) allows {sorted(allowed)}")
    v = frame_values(tag, df, names, nbin)
    for c in ("r", "gr", "gA"):
        require(np.isrealobj(v[c]) or np.all(np.imag(v[c]) == 0), f"{tag}[{c}] is complex-valued")
    close(f"{tag}[r]", np.real(v["r"]).astype(float), pc.bin_centres(nbin, width), rtol=1e-9, atol=1e-12 * lmin)

    band = _band(case)
    ii, jj, C, definite, nties = pc.pair_outcomes(pos, H, case["ppp"], width, nbin, band)
    shell = pc.shell_volumes(nbin, width, d)
    V = geom.volume(H)
    ones = np.ones(len(ii))
    lo1, hi1 = pc.weighted_bounds(C, definite, ones)
    fac_tot = 2.0 * V / (N * N) / shell
    within(f"{tag}[gr] (total g(r))", np.real(v["gr"]), fac_tot * lo1, fac_tot * hi1, 1e-9 * fac_tot * (hi1 + 1.0))

    w = f13.pair_weights(A, _weight_kind(cond), ii, jj)
    NA = int(A.sum()) if cond["kind"] == "bool" else N
    facA = 2.0 * V / (float(NA) ** 2) / shell
    loA, hiA = pc.weighted_bounds(C, definite, w)
    absw = (C[:, :nbin] * np.abs(w)[:, None]).sum(axis=0)
    atolA = 1e-9 * facA * (absw + 1e-300) + 1e-300
    gA = np.real(v["gA"]).astype(float)
    within(f"{tag}[gA]", gA, facA * loA, facA * hiA, atolA)

    # normalised variant
    if real_scalar:
        Af = A.astype(float)
        m2 = float(np.mean(Af)) ** 2
        s2 = float(np.mean(Af * Af))
        var = s2 - m2
        if var > 1e-6 * max(s2, 1e-300):
            lo_n = (facA * loA - m2) / var
            hi_n = (facA * hiA - m2) / var
            atol_n = (atolA + 1e-12 * (np.abs(facA * hiA) + m2 + s2)) / var + 1e-9 * (np.abs(lo_n) + np.abs(hi_n))
            within(f"{tag}[gA_norm] = (gA - <A>^2)/(<A^2> - <A>^2)", np.real(v["gA_norm"]), lo_n, hi_n, atol_n)
            # and as a pure function of the returned gA column
            close(f"{tag}[gA_norm] vs returned gA", np.real(v["gA_norm"]).astype(float), (gA - m2) / var,
                  rtol=1e-9, atol=float(np.max(atol_n)))
    return {"v": v, "nbin": nbin, "allowed": allowed, "gA": gA, "clean": lo1 == hi1, "atolA": atolA, "w": w,
            "definite": definite, "nties": nties, "in_range": bool(np.any(hi1 > 0))}


def check_gr(case):
    d, K = case["d"], case["K"]
    cond = case["cond"]
    A = cond["A"]
    H = case["cell"]["H"]
    pos = case["pos"][0]
    N = len(pos)
    width = case["rdelta"]
    tag = f"conditional_gr[{cond['kind']}/{cond['sub']}]"

    snap = snapshot_from(case["cell"], pos, case["types"], case["timesteps"][0])
    Aobj = np.array(A, copy=True)
    pppobj = np.array(case["ppp"], dtype=int)
    df = conditional_gr(snap, condition=Aobj, conditiontype=cond["ctype"], ppp=pppobj, rdelta=width)
    R = verify_cgr(case, pos, H, A, df, tag)
    v, nbin, allowed, gA, clean, atolA, w, definite, nties = (R[k] for k in
                                                              ("v", "nbin", "allowed", "gA", "clean", "atolA", "w", "definite", "nties"))

    if case.get("second"):
        # same objects, new contents (positions, tilt factors, field values written in place): the second result
        # must describe the contents at call time
        sec = case["second"]
        snap.positions[...] = sec["pos"]
        snap.hmatrix[...] = sec["H"]
        Aobj[...] = sec["A"]
        df2 = conditional_gr(snap, condition=Aobj, conditiontype=cond["ctype"], ppp=pppobj, rdelta=width)
        verify_cgr(case, sec["pos"], sec["H"], sec["A"], df2, tag + " (second call, same arrays mutated in place)")

    # ---- reductions against the library itself
    red = []
    gtot = np.real(v["gr"]).astype(float)
    if (cond["kind"] == "bool" and cond["sub"] == "all") or (cond["kind"] == "float" and cond["sub"] == "one") \
            or (cond["kind"] == "bool" and bool(np.all(A))):
        # every particle selected / A = 1: the weighted histogram is the plain histogram of the same call
        close(f"{tag}: all selected / A = 1 must reproduce the total g(r)", gA, gtot, rtol=1e-9,
              atol=1e-12 * max(1.0, float(np.abs(gtot).max())))
        red.append("total")
    if cond["kind"] == "bool":
        snaps = Snapshots(nsnapshots=1, snapshots=[snapshot_from(case["cell"], pos, case["types"], 0)])
        full = GR(snaps, ppp=np.array(case["ppp"], dtype=int), rdelta=width).getresults()
        require(isinstance(full, pd.DataFrame) and len(full) == nbin, f"{tag}: gr.getresults() has a different number of bins")
        gfull = col("gr", full, "gr").astype(float)
        close(f"{tag}: total column vs gr.getresults()['gr']", gtot[clean], gfull[clean], rtol=1e-9,
              atol=1e-12 * max(1.0, float(np.abs(gfull).max())))
        red.append("gr-class-total")
        if cond["sub"] == "species" and 2 <= K <= 5:
            a = cond["species"]
            part = col("gr", full, f"gr{a}{a}").astype(float)
            close(f"{tag}: selection type == {a} must reproduce gr{a}{a} of gr.getresults()", gA[clean], part[clean],
                  rtol=1e-9, atol=1e-12 * max(1.0, float(np.abs(part).max())))
            red.append("partial-aa")
        elif cond["sub"] == "species" and K == 1:
            close(f"{tag}: selection of the only species must reproduce the total", gA[clean], gfull[clean], rtol=1e-9,
                  atol=1e-12 * max(1.0, float(np.abs(gfull).max())))
            red.append("total")
    if cond["kind"] == "vector":
        acc = np.zeros(nbin)
        for c in range(A.shape[1]):
            comp = np.ascontiguousarray(A[:, c])
            dfc = call_cgr(case, comp, None)
            require(isinstance(dfc, pd.DataFrame) and len(dfc) == nbin and "gA" in dfc.columns,
                    f"{tag}: component {c} analysed as a scalar returned a different layout")
            acc = acc + np.real(col(tag, dfc, "gA")).astype(float)
        close(f"{tag}: vector field vs sum over its components analysed as scalars", gA[clean], acc[clean], rtol=1e-9,
              atol=float(np.max(atolA)) * (A.shape[1] + 1))
        red.append("vector=sum-components")
    if cond["kind"] == "tensor" and cond["sub"].startswith("sym"):
        flat = A.reshape(N, -1)
        dfv = call_cgr(case, flat, "vector")
        require(isinstance(dfv, pd.DataFrame) and len(dfv) == nbin and "gA" in dfv.columns,
                f"{tag}: flattened tensor analysed as a vector returned a different layout")
        close(f"{tag}: symmetric tensor vs sum of component products (flattened vector)", gA[clean],
              np.real(col(tag, dfv, "gA")).astype(float)[clean], rtol=1e-9, atol=2 * float(np.max(atolA)))
        red.append("tensor=flattened-vector")

    populated = int(np.count_nonzero(gA))
    uniform = bool(np.all(w == w[0])) if len(w) else True
    nontrivial = populated >= 2 and (not uniform or cond["kind"] == "bool" and cond["sub"] != "all")
    tags = [f"d{d}", case["cell"]["kind"], "kind-" + cond["kind"], f"{cond['kind']}-{cond['sub']}",
            "mask-partial" if not np.all(case["ppp"]) else "mask-full", "width-" + case["wmode"],
            "config-" + case["kind"].split("-")[0]]
    tags += ["reduction-" + r for r in red]
    if (~definite).any():
        tags.append("ambiguous-pairs")
    if nties:
        tags.append("half-cell-ties")
    if case["outside"]:
        tags.append("outside-box")
    if np.any(w < 0):
        tags.append("negative-weights")
    if len(allowed) > 1:
        tags.append("nbin-ambiguous")
    tags.append("class-" + case.get("klass", "generic"))
    tags.append("bins-1" if nbin == 1 else ("bins-2" if nbin == 2 else ("bins-3..40" if nbin <= 41 else "bins-41+")))
    tags.append("N2-3" if N <= 3 else "N4+")
    tags.append("in-range-pairs" if R["in_range"] else "no-pair-in-range")
    if case.get("second"):
        tags.append("second-call-mutated-in-place")
        if not np.array_equal(case["second"]["H"], H):
            tags.append("second-call-new-tilt")
    return {"nontrivial": bool(nontrivial), "tags": tags,
            "extra": {"ambiguous_pairs": int((~definite).sum()), "tied_pairs": int(nties), "reductions": len(red)}}


# ----------------------------------------------------------------------------- conditional S(q)


def call_csq(case, A, snap=None):
    if snap is None:
        snap = snapshot_from(case["cell"], case["pos"][0], case["types"], case["timesteps"][0])
    out = conditional_sq(snap, qvector=np.array(case["nvec"], copy=True), condition=A)
    require(isinstance(out, tuple) and len(out) == 2, f"conditional_sq returned {type(out).__name__}, expected a pair of frames")
    return out


def _sq_reference(case, pos, A):
    L = np.diag(case["cell"]["H"])
    q, qabs = f13.wavevectors(case["nvec"], L)
    rho, S, NA = f13.fourier(pos, q, A)
    err_rho = 1e-14 * f13.fourier_error_scale(pos, q, A) / np.sqrt(NA)
    rnorm = np.abs(rho) if rho.ndim == 1 else np.sqrt((np.abs(rho) ** 2).sum(axis=1))
    err_S = 2.0 * rnorm * err_rho * (1 if rho.ndim == 1 else np.sqrt(rho.shape[1])) + err_rho ** 2 * (1 if rho.ndim == 1 else rho.shape[1])
    return q, qabs, rho, S, NA, err_rho, err_S


R8 = 5e-9   # half a unit of the 8th decimal


def verify_sq_rows(case, pos, A, per, tag):
    """Per-wave-vector frame against the reference Fourier sums for the contents (pos, A)."""
    d = case["d"]
    cond = case["cond"]
    nvec = case["nvec"]
    nq = len(nvec)
    vec = cond["kind"] == "vector"
    qcols = [f"q{i}" for i in range(d)]
    names = qcols + ["q", "Sq"] + ([f"FFT{i}" for i in range(d)] if vec else ["FFT"])
    v = frame_values(tag, per, names, nq)
    q, qabs, rho, S, NA, err_rho, err_S = _sq_reference(case, pos, A)
    R = R8
    qscale = 1e-12 * (1.0 + np.abs(q).max())
    for i, c in enumerate(qcols):
        close(f"{tag}[{c}] = 2 pi n/L (8 decimals)", np.real(v[c]).astype(float), q[:, i], rtol=0.0, atol=R + qscale)
    close(f"{tag}[q] = |q| (8 decimals)", np.real(v["q"]).astype(float), qabs, rtol=0.0, atol=R + qscale)
    Sgot = np.real(v["Sq"]).astype(float)
    bad = np.abs(Sgot - S) > R + err_S + 1e-12 * S
    require(not bad.any(), lambda: f"{tag}[Sq]: {int(bad.sum())}/{nq} wave vectors differ from |sum_i A_i exp(-i q.r_i)|^2 / N_A; "
                                   f"first n={nvec[np.argmax(bad)].tolist()}: got {Sgot[np.argmax(bad)]!r}, want {S[np.argmax(bad)]!r}")
    if vec:
        for i in range(d):
            g = np.asarray(v[f"FFT{i}"]).astype(complex)
            bad = np.abs(g - rho[:, i]) > 1.5 * R + err_rho
            require(not bad.any(), lambda: f"{tag}[FFT{i}]: first differing n={nvec[np.argmax(bad)].tolist()}: "
                                           f"got {g[np.argmax(bad)]!r}, want {rho[np.argmax(bad), i]!r}")
    else:
        g = np.asarray(v["FFT"]).astype(complex)
        bad = np.abs(g - rho) > 1.5 * R + err_rho
        require(not bad.any(), lambda: f"{tag}[FFT]: first differing n={nvec[np.argmax(bad)].tolist()}: "
                                       f"got {g[np.argmax(bad)]!r}, want {rho[np.argmax(bad)]!r}")
    return v, q, qabs, rho, S, NA, err_rho, err_S, Sgot


def check_sq(case):
    d, K = case["d"], case["K"]
    cond = case["cond"]
    A = cond["A"]
    nvec = case["nvec"]
    nq = len(nvec)
    pos = case["pos"][0]
    tag = f"conditional_sq[{cond['kind']}/{cond['sub']}]"
    vec = cond["kind"] == "vector"
    R = R8

    snap = snapshot_from(case["cell"], pos, case["types"], case["timesteps"][0])
    Aobj = np.array(A, copy=True)
    per, ave = call_csq(case, Aobj, snap)
    v, q, qabs, rho, S, NA, err_rho, err_S, Sgot = verify_sq_rows(case, pos, A, per, tag)

    if case.get("second"):
        # same snapshot and condition objects with new contents written in place
        sec = case["second"]
        snap.positions[...] = sec["pos"]
        Aobj[...] = sec["A"]
        per2, _ = call_csq(case, Aobj, snap)
        verify_sq_rows(case, sec["pos"], sec["A"], per2, tag + " (second call, same arrays mutated in place)")

    # averaged frame: consistent with the per-vector frame ...
    qgot = np.real(v["q"]).astype(float)
    uq, means = f13.group_mean(qgot, Sgot)
    va = frame_values(tag + " averaged", ave, ["q", "Sq"], len(uq))
    close(f"{tag} averaged[q] = sorted distinct |q|", va["q"].astype(float), uq, rtol=0.0, atol=1e-12 * (1 + uq.max()))
    close(f"{tag} averaged[Sq] = mean over rows with the same |q|", va["Sq"].astype(float), means, rtol=1e-9,
          atol=1e-12 * (1.0 + np.abs(means).max()))
    # ... and with the independent reference, when the rounding of |q| is unambiguous
    amb8 = bool(f13.rounding_ambiguous(qabs, 8, 1e-13).any())
    key8 = np.round(qabs, 8)
    if not amb8:
        uq_r = np.unique(key8)
        require(len(uq_r) == len(uq), f"{tag} averaged: {len(uq)} |q| classes, reference has {len(uq_r)}")
        for k, u in enumerate(uq_r):
            sel = key8 == u
            want = S[sel].mean()
            tol = R + err_S[sel].max() + 1e-12 * abs(want)
            require(abs(float(va["Sq"][k]) - want) <= tol,
                    f"{tag} averaged[Sq] at |q|={u!r}: got {float(va['Sq'][k])!r}, want {want!r} (tol {tol:.2e})")

    # ---- reductions
    red = []
    snap_args = (case["cell"], pos, case["types"], 0)
    all_sel = (cond["kind"] == "bool" and bool(np.all(A)))
    one = cond["kind"] == "float" and cond["sub"] == "one"
    key6 = np.round(qabs, 6)
    part_ok = (not amb8) and (not f13.rounding_ambiguous(qabs, 6, 1e-13).any()) and \
        all(len(np.unique(key8[key6 == u])) == 1 for u in np.unique(key6))
    if cond["kind"] == "bool" or one:
        if part_ok:
            snaps = Snapshots(nsnapshots=1, snapshots=[snapshot_from(*snap_args)])
            full = SQ(snaps, qvector=np.array(nvec, copy=True)).getresults()
            require(isinstance(full, pd.DataFrame) and len(full) == len(uq),
                    f"{tag}: sq.getresults() has {len(full) if hasattr(full, '__len__') else '?'} |q| classes, conditional_sq {len(uq)}")
            tol6 = 5e-7 + R
            errk = np.array([err_S[key8 == u].max() for u in np.unique(key8)])
            target = None
            if all_sel or one or (cond["sub"] == "species" and K == 1):
                target = "Sq"
            elif cond["sub"] == "species" and 2 <= K <= 5:
                target = f"Sq{cond['species']}{cond['species']}"
            if target is not None:
                ref = col("sq", full, target).astype(float)
                dev = np.abs(va["Sq"].astype(float) - ref)
                bad = dev > tol6 + errk + 1e-9 * np.abs(ref)
                require(not bad.any(), lambda: f"{tag}: must reproduce column {target} of sq.getresults(); at |q|="
                                               f"{uq[np.argmax(bad)]!r}: conditional {float(va['Sq'][np.argmax(bad)])!r}, sq {ref[np.argmax(bad)]!r}")
                red.append("sq-class-" + ("total" if target == "Sq" else "partial-aa"))
    if one:
        per_b, _ = call_csq(case, np.ones(len(pos), dtype=bool))
        close(f"{tag}: A = 1.0 vs all selected", np.real(col(tag, per, "Sq")).astype(float),
              np.real(col(tag, per_b, "Sq")).astype(float), rtol=1e-9, atol=2 * R)
        red.append("one=all")
    if vec:
        acc = np.zeros(nq)
        for c in range(A.shape[1]):
            pc_, _ = call_csq(case, np.ascontiguousarray(A[:, c]))
            require(isinstance(pc_, pd.DataFrame) and len(pc_) == nq and "Sq" in pc_.columns,
                    f"{tag}: component {c} analysed as a scalar returned a different layout")
            acc = acc + np.real(col(tag, pc_, "Sq")).astype(float)
        bad = np.abs(Sgot - acc) > (A.shape[1] + 1) * R + 2 * err_S + 1e-12 * S
        require(not bad.any(), lambda: f"{tag}: vector field vs sum over components analysed as scalars; first n="
                                       f"{nvec[np.argmax(bad)].tolist()}: {Sgot[np.argmax(bad)]!r} vs {acc[np.argmax(bad)]!r}")
        red.append("vector=sum-components")

    sizes = [int((qgot == u).sum()) for u in uq]
    nontrivial = int(np.count_nonzero(Sgot > 1e-7)) >= 2 and max(sizes) >= 2
    tags = [f"d{d}", "box-" + case["shape"], "kind-" + cond["kind"], f"{cond['kind']}-{cond['sub']}",
            "config-" + case["kind"].split("-")[0], f"classes-max{min(max(sizes), 4)}"]
    tags += ["reduction-" + r for r in red]
    if amb8:
        tags.append("q-rounding-ambiguous")
    if (cond["kind"] == "bool" or one) and not part_ok:
        tags.append("sq-class-grouping-ambiguous")
    if np.any(np.all(nvec == 0, axis=1)):
        tags.append("q-zero")
    if case["outside"]:
        tags.append("outside-box")
    if case.get("second"):
        tags.append("second-call-mutated-in-place")
    tags.append("N2-3" if len(pos) <= 3 else "N4+")
    return {"nontrivial": bool(nontrivial), "tags": tags, "extra": {"reductions": len(red), "wavevectors": nq}}


# ----------------------------------------------------------------------------- facets


def describe(case):
    out = describe_config(case)
    c = case["cond"]
    out["condition"] = {"kind": c["kind"], "sub": c["sub"], "ctype": c["ctype"], "shape": list(np.shape(c["A"])),
                        "head": np.asarray(c["A"]).reshape(len(c["A"]), -1)[:3].tolist().__repr__()[:200]}
    if "rdelta" in case:
        out["rdelta"] = case["rdelta"]
    if "nvec" in case:
        out["nvec"] = np.asarray(case["nvec"]).tolist()[:8]
    return out


NT_GR = "non-trivial: gA non-zero in >= 2 bins and weights not all equal (bool: not 'all')"
NT_SQ = "non-trivial: >= 2 wave vectors with S > 1e-7 and some |q| class with >= 2 members"

FACETS = [
    Facet("gr_bool", gr_case_st(("bool",)), check_gr, quick=300, thorough=8000, describe=describe, shards_quick=3,
          rule="conditional_gr, boolean selections (one species / random / all); reductions to gr{aa} and the total. " + NT_GR),
    Facet("gr_scalar", gr_case_st(("float", "float", "complex")), check_gr, quick=400, thorough=10000, describe=describe,
          shards_quick=3, rule="conditional_gr, float / int / complex128 scalars incl. A = 1 and gA_norm. " + NT_GR),
    Facet("gr_vector", gr_case_st(("vector",)), check_gr, quick=240, thorough=6000, describe=describe, shards_quick=3,
          rule="conditional_gr, real and complex vectors of 1..5 components; equals the sum over components. " + NT_GR),
    Facet("gr_tensor", gr_case_st(("tensor",)), check_gr, quick=240, thorough=6000, describe=describe, shards_quick=3,
          rule="conditional_gr, symmetric and general real square tensors; symmetric = flattened vector. " + NT_GR),
    Facet("sq_bool", sq_case_st(("bool",)), check_sq, quick=400, thorough=10000, describe=describe, shards_quick=3,
          rule="conditional_sq, boolean selections; reductions to Sq{aa} / Sq of the sq class. " + NT_SQ),
    Facet("sq_field", sq_case_st(("float", "complex", "vector", "vector")), check_sq, quick=600, thorough=16000,
          describe=describe, shards_quick=3,
          rule="conditional_sq, float / int / complex scalars and real / complex ndim-vectors; A = 1 -> total, vector = "
               "sum over components. " + NT_SQ),
]
