"""C13 — conditional g(r) and conditional S(q) equal the weighted definitions and reduce to the partial functions.

conditional_gr:  gA(r_k) = V / N_A^2 * sum_{i != j, |r_ij| in bin k} w_ij / shell_k ,
    w_ij = [A_i and A_j] (bool) | Re(A_i conj A_j) (scalar) | Re sum_c A_ic conj A_jc (vector) | tr(A_i A_j) (tensor),
    N_A = number of selected particles for a boolean A, N otherwise;  column gr = total g(r);
    gA_norm = (gA - <A>^2) / (<A^2> - <A>^2) for real scalars.
conditional_sq:  FFT(q) = sum_i A_i exp(-i q.r_i) / sqrt(N_A),  Sq = |FFT|^2 (summed over vector components),
    q_c = 2 pi n_c / L_c, all columns rounded to 8 decimals, second frame = mean of Sq over rows with the same |q|.

Oracles: independent brute force (`ref.paircorr` interval oracle for the histogram, `ref.fourier13` for the Fourier
sums) plus the reductions named in the property, checked against the library itself: species selection -> gr{aa} of
`gr` / Sq{aa} of `sq`; all selected or A = 1 -> totals; vector = sum over components analysed as scalars; symmetric
tensor = its flattened components analysed as a vector.

Preconditions imposed by the code under test (only such inputs are generated):
  * a boolean condition selects at least one particle                      (division by Natom, gr.py L154 / sq.py L70)
  * complex scalars are complex128 arrays                                  (dtype dispatch `== "complex128"`, gr.py L70)
  * vector / tensor conditions are passed with conditiontype 'vector' / 'tensor'; tensors are real and square
  * conditional_sq: orthogonal cell (q = 2 pi n / boxlength), integer wave vectors of shape (nq, ndim) as an ndarray
    of any integer or floating dtype (qvector.astype(float64)); a vector condition has ndim components (output columns
    FFT0..FFT{ndim-1}, sq.py L84-86; docs: 'such as velocity field')
  * N >= 2 for g(r) (N >= 1 for S(q)), at least one histogram bin, ppp has one entry per dimension (list / tuple /
    array), type ids 1..K all present; condition and qvector are ndarrays (lists raise AttributeError: out of domain)

CLAUSES (statement + quantifier, clause -> deciding assertion [facets] -> populated class tags of evidence/C13.json)
  1  any single configuration          -> one snapshot per call; gas / lattice / cluster / grids / outside   config-* outside-box N1 N2-3 N4-40 N41+
                                          the box; N 1 (S(q)) .. 260 quick, .. 1030 thorough                size-boundary-<N> size-generic-*
  2  A boolean selection               -> w = [A_i and A_j], N_A = #True, both bounds [gr_bool, sq_bool,     bool-species bool-random bool-all bool-single
                                          sized, retained]                                                  one-particle-selected
  3  A real scalar                     -> w = A_i A_j, N_A = N [gr_scalar, sq_field]                        float-generic float-one float-int float-int32
                                                                                                            float-f32int float-positive float-offset
  4  A complex scalar                  -> w = Re(A_i conj A_j); FFT, Sq with the sign exp(-i q.r)           complex-generic complex-phase
  5  A vector (dot product)            -> w = Re sum_c A_ic conj A_jc, 1..5 components, real and complex    vector-real-m1..m5 vector-complex-m1..m5
  6  A tensor (trace of the product)   -> w = tr(A_i A_j), symmetric and general, 1x1 .. 3x3                tensor-sym-m* tensor-general-m*
  7  documented normalisation of gA    -> V / N_A^2 / shell_k, both bounds of the interval; total column   in-range-pairs ambiguous-pairs half-cell-ties
                                          gr with V / N^2 [every gr facet]                                  negative-weights
  8  S = |sum A exp(-iq.r)|^2 / N      -> Sq, FFT (FFT0..), q0.., q per wave vector to 5e-9 + float error;  kind-* nq-1 nq-2..30 nq-boundary-<n> qlist-*
                                          per-|q| means against the library rows AND the reference         classes-max* all-vectors-in-one-q-class q-zero
  9  one species -> g_aa and S_aa      -> gA == gr{aa} of gr.getresults(), averaged Sq == Sq{aa} of sq      reduction-partial-aa reduction-sq-class-partial-aa
 10  A = 1 -> the totals               -> gA == gr column, == gr of the gr class; Sq == Sq of the sq class  reduction-total reduction-gr-class-total
                                          and == all selected                                               reduction-sq-class-total reduction-one=all
 11  vector = sum over components      -> gA / Sq == sum of the components analysed as scalars              reduction-vector=sum-components
 12  gA_norm = (gA - <A>^2)/(<A^2> -   -> interval oracle and as a function of the returned gA; small       float-offset (relative variance ~1e-6),
     <A>^2)                               relative variance included                                        float-int float-int32 float-f32int
 13  2D, 3D                            -> shell area / volume, ndim wave-vector columns                     d2 d3
 14  orthogonal, triclinic for g(r)    -> the snapshot's own cell; axis-permuted cells; whole batches       ortho tri general second-call-new-tilt
                                          inside the Cartesian half box                                     class-halfbox class-permuted
 15  bin widths                        -> int(L_min / (2 w)) bins crisp, centres, 1 .. ~600 bins            width-* bins-1 bins-2 bins-3..40 bins-41+
 16  wave-vector lists                 -> random with mirrored / permuted partners, one axis, one shell,    qlist-random qlist-single qlist-axis qlist-shell
                                          the documented default set; 1 .. 260 vectors (1030 thorough);    qlist-default qrep-int64 qrep-int32 qrep-int8
                                          int64 / int32 / int8 / float64 / float32 arrays                   qrep-float64 qrep-float32
 17  (implementation axis) integer     -> gr_dense: >= 130 / >= 260 SELECTED partners of one centre in     per-centre-weighted-bin-count-130+ / -260+
     weights accumulated per bin          one bin for bool all / species / random, A = 1, int64 / int32 /
                                          integer-valued float32 scalars (np.histogram accumulates in the
                                          dtype of the weights)
Weak before this round, class added now: sizes (N <= 25, <= 28 wave vectors: gr_sized / sq_sized / the two sweeps / the
large thorough facets), S(q) of one particle, one selected particle, wave-vector representation (only int64 before;
utils.wavevector returns int32) and list shapes, documented defaults of ppp / rdelta (the call of the documentation),
value-equal representations of mask / width / cell / coordinates, float32- and int32-valued scalars, axis-permuted cells,
whole batches inside the Cartesian half box, frames kept alive and post-processed in place by the caller (retained).
"""
from __future__ import annotations

import numpy as np
import pandas as pd
from hypothesis import strategies as st
from hypothesis.extra import numpy as hnp

from ..gen import config_st, describe_config, fl, frac_st, nice_float, snapshot_from
from ..harness import Facet, Violation, guarded_check
from ..ref import fourier13 as f13
from ..ref import geom
from ..ref import paircorr as pc
from ..ref import sqref
from ..util import arr, close, col, columns, require
from .c03 import (SIZES_QUICK, SIZES_THOROUGH, boundary_sizes, dense_geometry, dyadic_case_st, halfbox_case_st,
                  per_centre_counts, permute_axes, random_frames, random_labels, rep_case_st, represent, size_tag)

from PyMatterSim.reader.reader_utils import Snapshots
from PyMatterSim.static.gr import conditional_gr
from PyMatterSim.static.gr import gr as GR
from PyMatterSim.static.sq import conditional_sq
from PyMatterSim.static.sq import sq as SQ

RULE = ("single generated configurations (d {2,3}, N 6..25 for g(r) / 1..25 for S(q), gas / lattice / cluster / integer and "
        "dyadic grids, any origin, particles outside the box; ortho, triclinic or axis-permuted triclinic cell and every "
        "periodicity mask for g(r), orthogonal incl. cubic cell for S(q)) x condition kinds {bool selection incl. one "
        "species / all / one particle, float, int64, int32, integer-valued float32, complex128, real and complex vectors "
        "of 1..5 components, symmetric and general real tensors} x bin widths giving 1..~600 bins x integer wave-vector "
        "lists (1..28 vectors, components in [-6,6], with sign-flipped and permuted partners; one vector, one axis, one "
        "shell, the documented default set) as int64 / int32 / int8 / float64 / float32 arrays; classes of their own: the "
        "everyday input (cubic box, 16..25 particles inside, fully periodic, widths 0.01..0.2, documented defaults of ppp "
        "and rdelta), minimal sizes (N = 2..3, one or two bins), dyadic grids (pairs on bin edges), whole batches inside "
        "the Cartesian half box of a strongly tilted cell, integer geometry as int64 arrays, mask as list / tuple / bool "
        "/ float / int32, N and number of wave vectors at block boundaries 31..257 (thorough ..1025), dense-wide systems with integer "
        "weights (>= 130 / 260 selected partners of one centre in one bin), a second call on "
        "the SAME snapshot / condition arrays after writing new positions, tilt factors and field values into them, and "
        "frames kept alive over interleaved evaluations.  non-trivial: g(r): the weighted column has non-zero entries in "
        "at least two bins and the weights are not all equal; S(q): at least two wave vectors with non-zero S and at "
        "least one |q| class with two or more members")
ASSUMPTIONS = [
    "minimum image = fractional rounding (contract of C02); half-cell ties may take either image",
    "pairs within 1e-9 x coordinate scale of a bin edge may be counted on either side: the weighted column must lie "
    "between the sums with every ambiguous pair assigned the least / most favourable admissible bin",
    "float tolerance of a weighted bin: 1e-9 x (normalisation x sum |w| of the pairs that may fall in the bin)",
    "conditional_sq rounds every column to 8 decimals: |got - exact| <= 5e-9 + float error (1e-14 x sum_i (|q.r_i| + N) |A_i|)",
    "the |q| classes of the averaged frame are those of the library's own rounded q column; the independent check "
    "of the class means is skipped when a reference |q| lies within 1e-13 (relative) of a rounding boundary",
    "reductions against gr / sq are compared only in bins (|q| classes) the reference marks unambiguous; sq rounds to 6 "
    "decimals, hence 5e-7 + 5e-9 there",
    "gA_norm is compared only when the variance of A exceeds 1e-6 <A^2> (1e-2 <A^2> for float32 input, whose <A>^2 and "
    "<A^2> are accumulated in float32: tolerance 2e-6 relative there)",
    "integer scalar fields of a NARROW dtype (int8 / uint8 / int16) are not generated: np.histogram accumulates in the dtype "
    "of the weights, so the unchanged routine wraps for them in dense systems (reported, not asserted)",
    "integer-valued float32 and int32 scalars give exactly the float64 result for gA and Sq (every product and partial "
    "sum is exact); general float32 fields are not generated (products round at 6e-8)",
    "a frame handed out stays what it was when later calls run; a caller modifying a frame it received in place (the "
    "documentation does `gA /= gr`) does not change what later calls return",
]
MANIFEST = {
    "text": ("Differential test of static.gr.conditional_gr and static.sq.conditional_sq against independent brute-force "
             "definitions for every condition kind (bool, float, int, complex, real/complex vector, symmetric/general "
             "tensor): exact column sets, bin count and centres, total and weighted columns inside the reference "
             "interval, gA_norm, per-vector q / Sq / FFT and per-|q| means; plus the reductions species selection -> "
             "gr{aa}, Sq{aa}; all / A = 1 -> totals; vector = sum of components; symmetric tensor = flattened vector; a "
             "second call with the same array objects mutated in place must describe the contents at call time; particle "
             "numbers and wave-vector counts at block boundaries (random facets + exhaustive sweeps); dense-wide systems "
             "with integer weights (per-centre per-bin counts beyond 127 / 255); value-equal "
             "argument representations and documented defaults; frames kept alive over interleaved calls."),
    "note": ("Trusted base: pbt/ref/geom.py, pbt/ref/paircorr.py, pbt/ref/fourier13.py, pbt/ref/sqref.py (default wave-"
             "vector set only; numpy only).  Histogram edges and half-cell ties are handled by an interval oracle.  Quick "
             "tier: N <= 260, <= 260 wave vectors; thorough: <= 1030 each.  complex64 scalars, complex tensors, general "
             "float32 fields, list-typed conditions / wave vectors and vectors whose length differs from ndim in "
             "conditional_sq are outside the generated domain."),
    "technique": ("property-based testing (Hypothesis): reference-model differential with interval oracle + metamorphic "
                  "reductions against the library's own partial functions, call histories with retained results, two "
                  "exhaustive size sweeps"),
}

EPS = 2.3e-16


# ----------------------------------------------------------------------------- generators

_val = st.one_of(st.integers(-40, 40).map(lambda k: k / 4.0), fl(-10.0, 10.0))


def _real(shape):
    return hnp.arrays(np.float64, shape, elements=_val)


@st.composite
def _complex(draw, shape):
    re = draw(_real(shape))
    im = draw(_real(shape))
    return (re + 1j * im).astype(np.complex128)


@st.composite
def plan_st(draw, kinds, sq=False):
    """Discrete choices of a condition, drawn *before* the configuration (late draws are biased to the simplest value)."""
    kind = draw(st.sampled_from(list(kinds)))
    plan = {"kind": kind}
    if kind == "bool":
        plan["sub"] = draw(st.sampled_from(["species", "species", "species", "random", "random", "all", "single"]))
    elif kind == "float":
        plan["sub"] = draw(st.sampled_from(["generic", "generic", "generic", "one", "int", "int32", "f32int", "positive",
                                            "offset"]))
    elif kind == "complex":
        plan["sub"] = draw(st.sampled_from(["generic", "generic", "phase"]))
    elif kind == "vector":
        plan["m"] = None if sq else draw(st.sampled_from([1, 2, 3, 3, 4, 5]))
        plan["cplx"] = draw(st.sampled_from([False, True]))
    elif kind == "tensor":
        plan["m"] = draw(st.sampled_from([None, None, 2, 3, 1]))
        plan["sym"] = draw(st.sampled_from([False, True]))
    return plan


@st.composite
def condition_st(draw, plan, N, types, K, d):
    """Returns dict(kind, sub, A, ctype)."""
    kind = plan["kind"]
    if kind == "bool":
        sub = plan["sub"]
        if sub == "species":
            a = draw(st.integers(1, K))
            A = np.asarray(types) == a
            return {"kind": "bool", "sub": "species", "A": A, "ctype": None, "species": a}
        if sub == "all":
            return {"kind": "bool", "sub": "all", "A": np.ones(N, dtype=bool), "ctype": None}
        if sub == "single":     # exactly one particle selected: N_A = 1, no pair, S = 1 for every wave vector
            A = np.zeros(N, dtype=bool)
            A[draw(st.sampled_from([0, N - 1, draw(st.integers(0, N - 1))]))] = True
            return {"kind": "bool", "sub": "single", "A": A, "ctype": None}
        A = np.array(draw(st.lists(st.booleans(), min_size=N, max_size=N)), dtype=bool)
        if not A.any():
            A[draw(st.integers(0, N - 1))] = True
        return {"kind": "bool", "sub": "random", "A": A, "ctype": None}
    if kind == "float":
        sub = plan["sub"]
        if sub == "one":
            A = np.ones(N, dtype=np.float64)
        elif sub == "int":
            A = draw(hnp.arrays(np.int64, (N,), elements=st.integers(-5, 5)))
        elif sub == "int32":    # the same small integers as int32 (a label- or count-like quantity)
            A = draw(hnp.arrays(np.int32, (N,), elements=st.integers(-5, 5)))
        elif sub == "f32int":   # small integers stored as float32: every product and partial sum is exact in float32
            A = draw(hnp.arrays(np.int64, (N,), elements=st.integers(-5, 5))).astype(np.float32)
        elif sub == "positive":
            A = np.abs(draw(_real((N,)))) + 0.25
        elif sub == "offset":
            # a density- or size-like quantity: small fluctuations about a large mean, relative variance of a few 1e-6
            # (the normalised column is still defined; a "looks constant" shortcut with a relative tolerance is not)
            m = draw(st.sampled_from([1.2, 5.0, -3.0, 100.0]))
            amp = draw(st.sampled_from([2e-3, 3e-3, 5e-3, 2e-2]))
            A = m * (1.0 + amp * draw(hnp.arrays(np.float64, (N,), elements=st.integers(-64, 64).map(lambda k: k / 64.0),
                                                 fill=st.nothing())))
            if np.ptp(A) == 0:
                A[0] = m * (1.0 + amp)
        else:
            A = draw(_real((N,)))
        return {"kind": "float", "sub": sub, "A": A, "ctype": None}
    if kind == "complex":
        sub = plan["sub"]
        if sub == "phase":  # unit phasors, like bond-orientational order parameters
            th = draw(hnp.arrays(np.float64, (N,), elements=fl(-3.2, 3.2)))
            A = np.exp(1j * th).astype(np.complex128)
        else:
            A = draw(_complex((N,)))
        return {"kind": "complex", "sub": sub, "A": A, "ctype": None}
    if kind == "vector":
        m = plan["m"] or d
        cplx = plan["cplx"]
        A = draw(_complex((N, m))) if cplx else draw(_real((N, m)))
        return {"kind": "vector", "sub": ("complex" if cplx else "real") + f"-m{m}", "A": A, "ctype": "vector"}
    if kind == "tensor":
        m = plan["m"] or d
        A = draw(_real((N, m, m)))
        if plan["sym"]:
            A = 0.5 * (A + np.transpose(A, (0, 2, 1)))
        return {"kind": "tensor", "sub": ("sym" if plan["sym"] else "general") + f"-m{m}", "A": A, "ctype": "tensor"}
    raise AssertionError(kind)


def condition_from_rng(rng, plan, N, types, K, d):
    """The same condition kinds for the large configurations (values from a numpy generator seeded by Hypothesis)."""
    def real(shape):
        return np.where(rng.random(shape) < 0.5, rng.integers(-40, 41, shape) / 4.0, rng.uniform(-10.0, 10.0, shape))
    kind = plan["kind"]
    if kind == "bool":
        sub = plan["sub"]
        if sub == "species":
            a = int(rng.integers(1, K + 1))
            return {"kind": "bool", "sub": "species", "A": np.asarray(types) == a, "ctype": None, "species": a}
        if sub == "all":
            return {"kind": "bool", "sub": "all", "A": np.ones(N, dtype=bool), "ctype": None}
        if sub == "single":
            A = np.zeros(N, dtype=bool)
            A[[0, N - 1, int(rng.integers(0, N))][int(rng.integers(0, 3))]] = True
            return {"kind": "bool", "sub": "single", "A": A, "ctype": None}
        A = rng.random(N) < rng.choice([0.2, 0.5, 0.9])
        A[N - 1] = True if rng.integers(0, 2) else A[N - 1]
        if not A.any():
            A[int(rng.integers(0, N))] = True
        return {"kind": "bool", "sub": "random", "A": A, "ctype": None}
    if kind == "float":
        sub = plan["sub"]
        if sub == "one":
            A = np.ones(N, dtype=np.float64)
        elif sub == "int":
            A = rng.integers(-5, 6, N).astype(np.int64)
        elif sub == "int32":
            A = rng.integers(-5, 6, N).astype(np.int32)
        elif sub == "f32int":
            A = rng.integers(-5, 6, N).astype(np.float32)
        elif sub == "positive":
            A = np.abs(real(N)) + 0.25
        elif sub == "offset":
            m = float(rng.choice([1.2, 5.0, -3.0, 100.0]))
            amp = float(rng.choice([2e-3, 3e-3, 5e-3, 2e-2]))
            A = m * (1.0 + amp * rng.integers(-64, 65, N) / 64.0)
            if np.ptp(A) == 0:
                A[0] = m * (1.0 + amp)
        else:
            A = real(N)
        return {"kind": "float", "sub": sub, "A": A, "ctype": None}
    if kind == "complex":
        if plan["sub"] == "phase":
            A = np.exp(1j * rng.uniform(-3.2, 3.2, N)).astype(np.complex128)
        else:
            A = (real(N) + 1j * real(N)).astype(np.complex128)
        return {"kind": "complex", "sub": plan["sub"], "A": A, "ctype": None}
    if kind == "vector":
        m = min(plan["m"] or d, 3)
        A = (real((N, m)) + 1j * real((N, m))).astype(np.complex128) if plan["cplx"] else real((N, m))
        return {"kind": "vector", "sub": ("complex" if plan["cplx"] else "real") + f"-m{m}", "A": A, "ctype": "vector"}
    m = plan["m"] or d
    A = real((N, m, m))
    if plan["sym"]:
        A = 0.5 * (A + np.transpose(A, (0, 2, 1)))
    return {"kind": "tensor", "sub": ("sym" if plan["sym"] else "general") + f"-m{m}", "A": A, "ctype": "tensor"}


def _second_cell(draw, cell):
    """Same edge lengths, different tilt factors (triclinic); unchanged for orthogonal cells."""
    if cell["kind"] != "tri":
        return cell
    H = np.diag(np.diag(cell["H"]).copy())
    L = np.diag(H).copy()
    d = len(L)
    def tilt(edge):
        return draw(st.one_of(st.just(0.0), nice_float(-0.5, 0.5))) * edge
    H[1, 0] = tilt(L[0])
    if d == 3:
        H[2, 0] = tilt(L[0])
        H[2, 1] = tilt(L[1])
    if np.array_equal(H, cell["H"]):
        H[1, 0] = -cell["H"][1, 0] if cell["H"][1, 0] else 0.3 * L[0]
    return dict(cell, H=H)


@st.composite
def gr_case_st(draw, kinds, klasses=None, force_second=False):
    plan = draw(plan_st(kinds))
    klass = draw(st.sampled_from(list(klasses) if klasses else
                                 ["generic"] * 5 + ["dyadic", "dyadic", "ordinary", "ordinary", "minimal", "halfbox",
                                                    "permuted", "intgrid"]))
    mode = draw(st.sampled_from(["frac", "frac", "nice", "exact"]))
    twice = True if force_second else draw(st.sampled_from([False, False, True]))
    if klass == "dyadic":
        case = draw(dyadic_case_st())          # exact grid: pairs on bin edges and at the half cell
        case["pos"] = case["pos"][:1]
        case["timesteps"] = case["timesteps"][:1]
    elif klass == "halfbox":
        # strongly tilted cell, every particle inside a Cartesian region below half the edge lengths: all batches of
        # displacements are short in every Cartesian component, many still need another image (see c03.halfbox_case_st)
        case = draw(halfbox_case_st())
        case["pos"] = case["pos"][:1]
        case["timesteps"] = case["timesteps"][:1]
    elif klass == "intgrid":
        # integer-valued geometry handed over as int64 cell / bounds / coordinates (see c03.rep_case_st)
        case = draw(rep_case_st())
        case["pos"] = case["pos"][:1]
        case["timesteps"] = case["timesteps"][:1]
        case["rep"] = {k: v for k, v in case["rep"].items() if k in ("cell", "pos", "ppp", "rdelta")}
    elif klass == "ordinary":
        # the everyday input: cubic box at the origin, particles inside, fully periodic, typical bin widths
        d = draw(st.sampled_from([2, 3]))
        L0 = draw(st.one_of(st.integers(4, 12).map(float), nice_float(4.0, 12.0)))
        case = draw(config_st(d=d, cell_kind="ortho", nmin=16, nmax=25, kmax=3, frames=(1, 1), allow_open=False,
                              outside=False, origin="zero"))
        f = geom.frac_coords(case["pos"][0], case["cell"]["H"])
        H = np.diag([L0] * d)
        case["cell"] = dict(case["cell"], H=H)
        case["pos"] = [f @ H]
        case["rdelta"] = float(draw(st.sampled_from([0.01, 0.02, 0.05, 0.1, 0.2])))
        case["wmode"] = "typical"
        case["kind"] = "ordinary-" + case["kind"]
        # the call of the documentation: conditional_gr(snapshot, condition=...) with the documented defaults
        rep = {}
        if d == 3 and draw(st.booleans()):
            rep["ppp"] = "default"
        if case["rdelta"] == 0.01 and draw(st.sampled_from([True, True, False])):
            rep["rdelta"] = "default"
        case["rep"] = rep
    elif klass == "minimal":
        # N = 2 or 3, one or two bins
        N = draw(st.sampled_from([2, 2, 3]))
        case = draw(config_st(nmin=N, nmax=N, kmax=2, frames=(1, 1), kinds=("gas",), lmin=2.0, lmax=12.0))
        lmin = float(np.diag(case["cell"]["H"]).min())
        nb = draw(st.sampled_from([1, 1, 2]))
        case["rdelta"] = float(lmin / (2.0 * (nb + draw(fl(0.02, 0.98)))))
        case["wmode"] = f"{nb}-bin"
        if draw(st.booleans()):
            e = np.zeros(case["d"])
            e[draw(st.integers(0, case["d"] - 1))] = 1.0
            case["pos"][0][1] = case["pos"][0][0] + draw(fl(0.05, 0.9)) * case["rdelta"] * nb * e
        case["kind"] = "minimal-" + case["kind"]
    else:
        case = draw(config_st(nmin=6, nmax=25, kmax=4, frames=(1, 1), lmin=2.0, lmax=12.0,
                              cell_kind="tri" if klass == "permuted" else "any"))
        if klass == "permuted":
            # the same triclinic system with relabelled axes: the cell matrix is no longer lower triangular
            dd = case["d"]
            perm = draw(st.sampled_from([p_ for p_ in __import__("itertools").permutations(range(dd))
                                         if list(p_) != list(range(dd))]))
            permute_axes(case, perm)
        lmin = float(np.diag(case["cell"]["H"]).min())
        if mode == "frac":
            rdelta = lmin / (2.0 * (draw(st.integers(3, 30)) + draw(fl(0.02, 0.98))))
        elif mode == "nice":
            rdelta = draw(nice_float(lmin / 60.0, lmin / 6.5))
        else:
            rdelta = lmin / (2.0 * draw(st.integers(3, 30)))
        case["rdelta"] = float(rdelta)
        case["wmode"] = mode
    N = len(case["types"])
    case["klass"] = klass
    case["cond"] = draw(condition_st(plan, N, case["types"], case["K"], case["d"]))
    if klass in ("generic", "dyadic", "minimal", "halfbox", "permuted"):
        # value-equal representations of the mask / width, labels of the comparison partner as the GSD reader gives them
        case["rep"] = {"ppp": draw(st.sampled_from(["int64", "int64", "int32", "float64", "bool", "list", "tuple"])),
                       "rdelta": draw(st.sampled_from(["float", "float", "np.float64"])),
                       "types": draw(st.sampled_from(["int64", "int64", "int32", "uint32", "uint8"]))}
    if twice and klass != "intgrid":
        # second contents for the SAME array objects (mutated in place between two calls): new positions, new tilt
        # factors with the same edge lengths, new field values
        cell2 = _second_cell(draw, case["cell"])
        f2 = draw(frac_st(N, case["d"]))
        A2 = draw(condition_st(plan, N, case["types"], case["K"], case["d"]))["A"]
        case["second"] = {"H": cell2["H"], "pos": cell2["lo"] + f2 @ cell2["H"], "A": A2}
    return case


ALLKINDS = ("bool", "float", "complex", "vector", "tensor")


def gr_sized_case(plan, N, d, K, cell, ppp, kind, how, seed, rdelta):
    rng = np.random.default_rng(seed)
    pos, outside = random_frames(rng, N, cell, 1, kind, ppp)
    types = random_labels(rng, N, K, how)
    return {"d": d, "cell": cell, "pos": pos, "types": types, "ppp": np.asarray(ppp, dtype=int), "K": K, "kind": kind,
            "timesteps": [0], "outside": outside, "rdelta": float(rdelta), "wmode": "frac", "klass": "sized",
            "labels": how, "seed": int(seed), "cond": condition_from_rng(rng, plan, N, types, K, d)}


@st.composite
def gr_sized_case_st(draw, sizes, generic, kinds=ALLKINDS):
    """conditional_gr on larger configurations whose particle number sits at a block boundary (4 of 5 cases) or anywhere
    in `generic`; positions / labels / field values from a numpy generator seeded by Hypothesis; 2..8 bins."""
    plan = draw(plan_st(kinds))
    N = draw(st.sampled_from(list(sizes))) if draw(st.integers(0, 4)) else draw(st.integers(*generic))
    d = draw(st.sampled_from([2, 3]))
    K = draw(st.integers(1, 3))
    from ..gen import cell_st, ppp_st
    cell = draw(cell_st(d, "any", lmin=2.0, lmax=12.0))
    ppp = draw(ppp_st(d))
    kind = draw(st.sampled_from(["gas", "gas", "cluster"]))
    how = draw(st.sampled_from(["random", "sorted", "last-single"]))
    seed = draw(st.integers(0, 2 ** 32 - 1))
    lmin = float(np.diag(cell["H"]).min())
    rdelta = lmin / (2.0 * (draw(st.integers(2, 8)) + draw(fl(0.02, 0.98))))
    return gr_sized_case(plan, N, d, K, cell, ppp, kind, how, seed, rdelta)


@st.composite
def gr_dense_case_st(draw):
    """Dense-wide configurations (see c03.dense_geometry): one bin of one centre particle holds >= 130 / >= 260 SELECTED
    partners.  Conditions whose weights are integers: boolean selections (all, one large species, ~95 % random), A = 1,
    small integers as int64 / int32 / integer-valued float32 — np.histogram accumulates in the dtype of the weights."""
    d = draw(st.sampled_from([2, 3]))
    K = draw(st.sampled_from([1, 2, 2, 3]))
    cell, pos, rdelta, kind, N, rng = dense_geometry(draw, d)
    types = np.where(rng.random(N) < 0.9, 1, rng.integers(1, K + 1, N))
    types[:K] = np.arange(1, K + 1)
    if draw(st.booleans()):
        types = np.sort(types)
    sub = draw(st.sampled_from(["bool-all", "bool-species", "bool-species", "bool-random", "float-one", "float-int",
                                "float-int32", "float-f32int"]))
    if sub == "bool-all":
        cond = {"kind": "bool", "sub": "all", "A": np.ones(N, dtype=bool), "ctype": None}
    elif sub == "bool-species":
        cond = {"kind": "bool", "sub": "species", "A": types == 1, "ctype": None, "species": 1}
    elif sub == "bool-random":
        A = rng.random(N) < 0.95
        A[0] = True
        cond = {"kind": "bool", "sub": "random", "A": A, "ctype": None}
    elif sub == "float-one":
        cond = {"kind": "float", "sub": "one", "A": np.ones(N, dtype=np.float64), "ctype": None}
    else:
        A = rng.integers(1, 4, N)              # positive: the weighted count of a bin is >= the number of partners
        A = A.astype({"float-int": np.int64, "float-int32": np.int32, "float-f32int": np.float32}[sub])
        cond = {"kind": "float", "sub": sub.split("-")[1], "A": A, "ctype": None}
    return {"d": d, "cell": cell, "pos": [pos], "types": types.astype(int), "ppp": np.ones(d, dtype=int), "K": K, "kind": kind,
            "timesteps": [0], "outside": False, "rdelta": rdelta, "wmode": "wide", "klass": "dense", "cond": cond,
            "dense": True}


_SWEEP_PLANS = [{"kind": "bool", "sub": "species"}, {"kind": "float", "sub": "generic"}, {"kind": "complex", "sub": "generic"},
                {"kind": "vector", "m": None, "cplx": False}, {"kind": "tensor", "m": None, "sym": False},
                {"kind": "bool", "sub": "random"}, {"kind": "vector", "m": 2, "cplx": True}]


def gr_size_sweep(tier):
    """Finite enumeration: conditional_gr at EVERY boundary particle number of the tier once; condition kind, dimension,
    cell kind and mask cycle with the index."""
    sizes = SIZES_QUICK if tier == "quick" else SIZES_QUICK + SIZES_THOROUGH
    for idx, N in enumerate(sizes):
        plan = _SWEEP_PLANS[idx % len(_SWEEP_PLANS)]
        d = 2 + (idx // 2) % 2
        tri = (idx // 3) % 2 == 1
        L = np.array([6.0, 8.5, 7.25][:d]) + 0.5 * (idx % 5)
        H = np.diag(L)
        if tri:
            H[1, 0] = (0.3 if idx % 2 else -0.4) * L[0]
            if d == 3:
                H[2, 1] = 0.2 * L[1]
        cell = {"d": d, "kind": "tri" if tri else "ortho", "H": H, "lo": np.zeros(d), "origin": "zero"}
        ppp = np.ones(d, dtype=int)
        if idx % 4 == 3:
            ppp[idx % d] = 0
        case = gr_sized_case(plan, N, d, 1 + idx % 3, cell, ppp, "gas", ["random", "sorted", "last-single"][idx % 3],
                             2000 + N, float(L.min()) / (2.0 * (3 + idx % 4) + 0.6))
        try:
            info = guarded_check(check_gr, case)
        except Violation as v:
            v.case = case
            raise
        yield case, info


NQ_COUNTS = boundary_sizes(31, 260)
NQ_ALL = set(boundary_sizes(31, 1030))


def wavevector_list(rng, d, nq, style):
    """nq integer wave vectors.  style: 'random' (components in [-8, 8]) | 'axis' (all along one axis) | 'shell' (sign
    flips and permutations of one vector: a single |n| class) | 'default' (the head of the complete set of vectors with
    integer norm that utils.wavevector documents)."""
    if style == "axis":
        v = np.zeros((nq, d), dtype=np.int64)
        v[:, int(rng.integers(0, d))] = rng.permutation(np.arange(-(nq // 2), nq - nq // 2))
        return v
    if style == "shell":
        base = rng.integers(1, 7, d)
        rows = np.array([rng.permutation(base) * rng.choice([-1, 1], d) for _ in range(nq)], dtype=np.int64)
        return rows
    if style == "default":
        numofq = 6
        while True:
            allv = np.array(sqref.default_vectors_large(d, numofq), dtype=np.int64).reshape(-1, d)
            if len(allv) >= nq:
                break
            numofq = 2 * (int(numofq * 0.75) + 1)
        return allv[np.sort(rng.choice(len(allv), nq, replace=False))]
    return rng.integers(-8, 9, (nq, d)).astype(np.int64)


def sq_sized_case(plan, axis, N, nq, d, K, L, lo, how, style, qrep, seed):
    rng = np.random.default_rng(seed)
    cell = {"d": d, "kind": "ortho", "H": np.diag(L), "lo": lo, "origin": "zero" if not lo.any() else "arbitrary"}
    ppp = np.ones(d, dtype=int)
    pos, outside = random_frames(rng, N, cell, 1, "gas", ppp)
    types = random_labels(rng, N, K, how)
    shape = "cubic" if len(set(L.tolist())) == 1 else "unequal"
    return {"d": d, "cell": cell, "pos": pos, "types": types, "ppp": ppp, "K": K, "kind": "gas", "timesteps": [0],
            "outside": outside, "shape": shape, "nvec": wavevector_list(rng, d, nq, style), "qstyle": style, "qrep": qrep,
            "axis": axis, "seed": int(seed), "cond": condition_from_rng(rng, plan, N, types, K, d)}


QREPS = ["int64", "int64", "int32", "int32", "int8", "float64", "float32"]


@st.composite
def sq_sized_case_st(draw, nsizes, ngeneric, qsizes, qgeneric, kinds=("bool", "float", "complex", "vector")):
    """conditional_sq with the number of wave vectors and / or the number of particles at a block boundary."""
    plan = draw(plan_st(kinds, sq=True))
    axis = draw(st.sampled_from(["nq", "N", "both"]))
    if axis in ("N", "both"):
        N = draw(st.sampled_from(list(nsizes))) if draw(st.integers(0, 4)) else draw(st.integers(*ngeneric))
    else:
        N = draw(st.integers(2, 25))
    if axis in ("nq", "both"):
        nq = draw(st.sampled_from(list(qsizes))) if draw(st.integers(0, 4)) else draw(st.integers(*qgeneric))
    else:
        nq = draw(st.integers(1, 14))
    d = draw(st.sampled_from([2, 3]))
    K = draw(st.integers(1, min(3, N)))
    cubic = draw(st.booleans())
    L0 = draw(nice_float(2.0, 20.0))
    L = np.array([L0] * d) if cubic else np.array([draw(nice_float(2.0, 20.0)) for _ in range(d)])
    lo = np.zeros(d) if draw(st.booleans()) else np.array([draw(nice_float(-20.0, 20.0)) for _ in range(d)])
    how = draw(st.sampled_from(["random", "sorted", "last-single"]))
    style = draw(st.sampled_from(["random", "random", "axis", "shell", "default"]))
    return sq_sized_case(plan, axis, N, nq, d, K, L, lo, how, style, draw(st.sampled_from(QREPS)),
                         draw(st.integers(0, 2 ** 32 - 1)))


def sq_size_sweep(tier):
    """Finite enumeration: conditional_sq at EVERY boundary number of wave vectors (N = 20) and EVERY boundary number of
    particles (12 wave vectors) of the tier once; condition kind, dimension, box shape cycle with the index."""
    sizes = SIZES_QUICK if tier == "quick" else SIZES_QUICK + SIZES_THOROUGH
    plans = [{"kind": "bool", "sub": "species"}, {"kind": "float", "sub": "generic"}, {"kind": "complex", "sub": "generic"},
             {"kind": "vector", "m": None, "cplx": False}, {"kind": "bool", "sub": "random"},
             {"kind": "vector", "m": None, "cplx": True}]
    idx = 0
    for axis in ("nq", "N"):
        for n in sizes:
            plan = plans[idx % len(plans)]
            d = 2 + idx % 2
            L = np.array([6.0, 8.5, 7.25][:d]) if idx % 3 else np.array([7.5] * d)
            N, nq = (20, n) if axis == "nq" else (n, 12)
            case = sq_sized_case(plan, axis, N, nq, d, 1 + idx % 3, L, np.zeros(d), ["random", "sorted", "last-single"][idx % 3],
                                 ["random", "default", "shell", "axis"][idx % 4], QREPS[idx % len(QREPS)], 3000 + idx)
            idx += 1
            try:
                info = guarded_check(check_sq, case)
            except Violation as v:
                v.case = case
                raise
            yield case, info


@st.composite
def sq_case_st(draw, kinds, force_second=False):
    plan = draw(plan_st(kinds, sq=True))
    case = draw(config_st(cell_kind="ortho", nmin=draw(st.sampled_from([1, 2, 2, 2])), nmax=25, kmax=4, frames=(1, 1),
                          allow_open=False))
    d = case["d"]
    cell = case["cell"]
    shape = draw(st.sampled_from(["unequal", "cubic", "two-equal"] if d == 3 else ["unequal", "cubic"]))
    if shape != "unequal":
        H = cell["H"]
        L = np.diag(H).copy()
        f = geom.frac_coords(case["pos"][0] - cell["lo"], H)
        L[1] = L[0]
        if shape == "cubic" and d == 3:
            L[2] = L[0]
        newH = np.diag(L)
        cell = dict(cell, H=newH)
        case["cell"] = cell
        case["pos"] = [cell["lo"] + f @ newH]
    case["shape"] = shape
    nq = draw(st.integers(1, 7))
    base = draw(hnp.arrays(np.int64, (nq, d), elements=st.integers(-6, 6)))
    rows = [base]
    if draw(st.booleans()):
        rows.append(-base)
    if draw(st.booleans()):
        rows.append(base[:, ::-1])
    if draw(st.integers(0, 3)) == 0:
        rows.append(np.zeros((1, d), dtype=np.int64))
    nvec = np.vstack(rows)
    perm = draw(st.permutations(range(len(nvec))))
    case["nvec"] = nvec[list(perm)]
    style = draw(st.sampled_from(["random"] * 5 + ["single", "axis", "shell", "default"]))
    if style != "random":
        # whole lists in one region: a single vector, all along one axis, one |n| shell, the documented default set
        rs = np.random.default_rng(draw(st.integers(0, 2 ** 32 - 1)))
        case["nvec"] = wavevector_list(rs, d, 1 if style == "single" else draw(st.integers(2, 24)),
                                       "random" if style == "single" else style)
    case["qstyle"] = style
    case["qrep"] = draw(st.sampled_from(QREPS))
    case["rep"] = {"types": draw(st.sampled_from(["int64", "int64", "int32", "uint32", "uint8"]))}
    N = len(case["types"])
    case["cond"] = draw(condition_st(plan, N, case["types"], case["K"], d))
    if force_second or draw(st.sampled_from([False, False, True])):
        f2 = draw(frac_st(N, d))
        A2 = draw(condition_st(plan, N, case["types"], case["K"], d))["A"]
        case["second"] = {"pos": case["cell"]["lo"] + f2 @ case["cell"]["H"], "A": A2}
    return case


# ----------------------------------------------------------------------------- helpers


def _band(case):
    scale = max(1.0, float(np.abs(case["cell"]["H"]).max()), max(float(np.abs(p).max()) for p in case["pos"]))
    if case.get("second"):
        scale = max(scale, float(np.abs(case["second"]["pos"]).max()))
    return pc.BAND_REL * scale


def within(name, got, lo, hi, atol):
    lo, hi, atol = np.asarray(lo, float), np.asarray(hi, float), np.asarray(atol, float)
    g = arr(name, got, shape=lo.shape).astype(float)
    bad = (g < lo - atol) | (g > hi + atol) | ~np.isfinite(g)
    if bad.any():
        k = int(np.argwhere(bad)[0][0])
        raise Violation(f"{name}: {int(bad.sum())}/{g.size} entries outside the reference interval; first at bin {k}: "
                        f"got {g[k]!r}, allowed [{lo[k]!r}, {hi[k]!r}] (+- {atol[k]:.3e})")


def _weight_kind(cond):
    return {"bool": "bool", "float": "scalar", "complex": "scalar", "vector": "vector", "tensor": "tensor"}[cond["kind"]]


def make_snap(case, pos=None, timestep=None):
    """The library snapshot of the case, with the value-equal representations the case asks for."""
    snap = snapshot_from(case["cell"], case["pos"][0] if pos is None else pos, case["types"],
                         case["timesteps"][0] if timestep is None else timestep)
    rep = case.get("rep")
    return represent(snap, rep) if rep else snap


def cgr_kwargs(case):
    """ppp / rdelta as the case passes them (another representation, or omitted: documented defaults)."""
    from .c03 import mask_arg, width_arg
    rep = case.get("rep") or {}
    kw = {}
    if rep.get("ppp") == "default":
        if case["d"] != 3 or not np.all(case["ppp"]):
            raise ValueError("default mask only for fully periodic 3D cases")
    else:
        kw["ppp"] = mask_arg(case)
    if rep.get("rdelta") == "default":
        if case["rdelta"] != 0.01:
            raise ValueError("default width is 0.01")
    else:
        kw["rdelta"] = width_arg(case)
    return kw


def call_cgr(case, A, ctype):
    return conditional_gr(make_snap(case), condition=np.array(A, copy=True), conditiontype=ctype, **cgr_kwargs(case))


def frame_values(tag, df, names, nrow=None):
    require(isinstance(df, pd.DataFrame), f"{tag}: returned {type(df).__name__}, not a DataFrame")
    columns(tag, df, names)
    n = len(df) if nrow is None else nrow
    require(len(df) == n, f"{tag}: {len(df)} rows, expected {n}")
    return {c: arr(f"{tag}[{c}]", col(tag, df, c), shape=(n,)) for c in names}


# ----------------------------------------------------------------------------- conditional g(r)


def verify_cgr(case, pos, H, A, df, tag):
    """Reference comparison of one conditional_gr result for the contents (pos, H, A).  Returns the pieces the
    reductions need."""
    d = case["d"]
    cond = case["cond"]
    N = len(pos)
    width = case["rdelta"]
    lmin = float(np.diag(H).min())
    real_scalar = cond["kind"] == "float"
    single = A.dtype == np.float32          # small integers stored as float32: gA exact, <A>, <A^2> rounded at 2^-24
    if A.dtype.kind in "iuf" and A.dtype != np.float64:
        A = A.astype(np.float64)            # the oracle works with the same VALUES in double precision
    names = ["r", "gr", "gA"] + (["gA_norm"] if real_scalar else [])
    require(isinstance(df, pd.DataFrame), f"{tag}: returned {type(df).__name__}")
    allowed = pc.nbins_allowed(lmin, width)
    nbin = len(df)
    require(nbin in allowed, f"{tag}: {nbin} bins, int(L_min/(2 width)) = int({lmin!r}/(2*{width!r})) allows {sorted(allowed)}")
    v = frame_values(tag, df, names, nbin)
    for c in ("r", "gr", "gA"):
        require(np.isrealobj(v[c]) or np.all(np.imag(v[c]) == 0), f"{tag}[{c}] is complex-valued")
    close(f"{tag}[r]", np.real(v["r"]).astype(float), pc.bin_centres(nbin, width), rtol=1e-9, atol=1e-12 * lmin)

    band = _band(case)
    ii, jj, C, definite, nties = pc.pair_outcomes(pos, H, case["ppp"], width, nbin, band)
    shell = pc.shell_volumes(nbin, width, d)
    V = geom.volume(H)
    ones = np.ones(len(ii))
    lo1, hi1 = pc.weighted_bounds(C, definite, ones)
    fac_tot = 2.0 * V / (N * N) / shell
    within(f"{tag}[gr] (total g(r))", np.real(v["gr"]), fac_tot * lo1, fac_tot * hi1, 1e-9 * fac_tot * (hi1 + 1.0))

    w = f13.pair_weights(A, _weight_kind(cond), ii, jj)
    NA = int(A.sum()) if cond["kind"] == "bool" else N
    facA = 2.0 * V / (float(NA) ** 2) / shell
    loA, hiA = pc.weighted_bounds(C, definite, w)
    absw = (C[:, :nbin] * np.abs(w)[:, None]).sum(axis=0)
    atolA = 1e-9 * facA * (absw + 1e-300) + 1e-300
    gA = np.real(v["gA"]).astype(float)
    within(f"{tag}[gA]", gA, facA * loA, facA * hiA, atolA)

    # normalised variant
    if real_scalar:
        Af = A.astype(float)
        m2 = float(np.mean(Af)) ** 2
        s2 = float(np.mean(Af * Af))
        var = s2 - m2
        # float32 input: the library's <A>^2 and <A^2> carry relative errors of a few 2^-24 (float32 accumulation)
        epsm = 2e-6 if single else 1e-12
        if var > (1e-2 if single else 1e-6) * max(s2, 1e-300):
            lo_n = (facA * loA - m2) / var
            hi_n = (facA * hiA - m2) / var
            atol_n = (atolA + epsm * (np.abs(facA * hiA) + m2 + s2)) / var \
                + (1e-9 + epsm * (m2 + s2) / var) * (np.abs(lo_n) + np.abs(hi_n))
            within(f"{tag}[gA_norm] = (gA - <A>^2)/(<A^2> - <A>^2)", np.real(v["gA_norm"]), lo_n, hi_n, atol_n)
            # and as a pure function of the returned gA column
            close(f"{tag}[gA_norm] vs returned gA", np.real(v["gA_norm"]).astype(float), (gA - m2) / var,
                  rtol=1e-9, atol=float(np.max(atol_n)))
    return {"v": v, "nbin": nbin, "allowed": allowed, "gA": gA, "clean": lo1 == hi1, "atolA": atolA, "w": w,
            "definite": definite, "nties": nties, "in_range": bool(np.any(hi1 > 0))}


def check_gr(case):
    d, K = case["d"], case["K"]
    cond = case["cond"]
    A = cond["A"]
    H = case["cell"]["H"]
    pos = case["pos"][0]
    N = len(pos)
    width = case["rdelta"]
    tag = f"conditional_gr[{cond['kind']}/{cond['sub']}]"

    snap = make_snap(case)
    Aobj = np.array(A, copy=True)
    kwobj = cgr_kwargs(case)
    df = conditional_gr(snap, condition=Aobj, conditiontype=cond["ctype"], **kwobj)
    R = verify_cgr(case, pos, H, A, df, tag)
    v, nbin, allowed, gA, clean, atolA, w, definite, nties = (R[k] for k in
                                                              ("v", "nbin", "allowed", "gA", "clean", "atolA", "w", "definite", "nties"))

    if case.get("second"):
        # same objects, new contents (positions, tilt factors, field values written in place): the second result
        # must describe the contents at call time
        sec = case["second"]
        snap.positions[...] = sec["pos"]
        snap.hmatrix[...] = sec["H"]
        Aobj[...] = sec["A"]
        df2 = conditional_gr(snap, condition=Aobj, conditiontype=cond["ctype"], **kwobj)
        verify_cgr(case, sec["pos"], sec["H"], sec["A"], df2, tag + " (second call, same arrays mutated in place)")

    # ---- reductions against the library itself
    red = []
    gtot = np.real(v["gr"]).astype(float)
    if (cond["kind"] == "bool" and cond["sub"] == "all") or (cond["kind"] == "float" and cond["sub"] == "one") \
            or (cond["kind"] == "bool" and bool(np.all(A))):
        # every particle selected / A = 1: the weighted histogram is the plain histogram of the same call
        close(f"{tag}: all selected / A = 1 must reproduce the total g(r)", gA, gtot, rtol=1e-9,
              atol=1e-12 * max(1.0, float(np.abs(gtot).max())))
        red.append("total")
    if cond["kind"] == "bool":
        snaps = Snapshots(nsnapshots=1, snapshots=[make_snap(case, timestep=0)])
        full = GR(snaps, ppp=np.array(case["ppp"], dtype=int), rdelta=width).getresults()
        require(isinstance(full, pd.DataFrame) and len(full) == nbin, f"{tag}: gr.getresults() has a different number of bins")
        gfull = col("gr", full, "gr").astype(float)
        close(f"{tag}: total column vs gr.getresults()['gr']", gtot[clean], gfull[clean], rtol=1e-9,
              atol=1e-12 * max(1.0, float(np.abs(gfull).max())))
        red.append("gr-class-total")
        if cond["sub"] == "species" and 2 <= K <= 5:
            a = cond["species"]
            part = col("gr", full, f"gr{a}{a}").astype(float)
            close(f"{tag}: selection type == {a} must reproduce gr{a}{a} of gr.getresults()", gA[clean], part[clean],
                  rtol=1e-9, atol=1e-12 * max(1.0, float(np.abs(part).max())))
            red.append("partial-aa")
        elif cond["sub"] == "species" and K == 1:
            close(f"{tag}: selection of the only species must reproduce the total", gA[clean], gfull[clean], rtol=1e-9,
                  atol=1e-12 * max(1.0, float(np.abs(gfull).max())))
            red.append("total")
    if cond["kind"] == "vector":
        acc = np.zeros(nbin)
        for c in range(A.shape[1]):
            comp = np.ascontiguousarray(A[:, c])
            dfc = call_cgr(case, comp, None)
            require(isinstance(dfc, pd.DataFrame) and len(dfc) == nbin and "gA" in dfc.columns,
                    f"{tag}: component {c} analysed as a scalar returned a different layout")
            acc = acc + np.real(col(tag, dfc, "gA")).astype(float)
        close(f"{tag}: vector field vs sum over its components analysed as scalars", gA[clean], acc[clean], rtol=1e-9,
              atol=float(np.max(atolA)) * (A.shape[1] + 1))
        red.append("vector=sum-components")
    if cond["kind"] == "tensor" and cond["sub"].startswith("sym"):
        flat = A.reshape(N, -1)
        dfv = call_cgr(case, flat, "vector")
        require(isinstance(dfv, pd.DataFrame) and len(dfv) == nbin and "gA" in dfv.columns,
                f"{tag}: flattened tensor analysed as a vector returned a different layout")
        close(f"{tag}: symmetric tensor vs sum of component products (flattened vector)", gA[clean],
              np.real(col(tag, dfv, "gA")).astype(float)[clean], rtol=1e-9, atol=2 * float(np.max(atolA)))
        red.append("tensor=flattened-vector")

    populated = int(np.count_nonzero(gA))
    uniform = bool(np.all(w == w[0])) if len(w) else True
    nontrivial = populated >= 2 and (not uniform or cond["kind"] == "bool" and cond["sub"] != "all")
    tags = [f"d{d}", case["cell"]["kind"], "kind-" + cond["kind"], f"{cond['kind']}-{cond['sub']}",
            "mask-partial" if not np.all(case["ppp"]) else "mask-full", "width-" + case["wmode"],
            "config-" + case["kind"].split("-")[0]]
    tags += ["reduction-" + r for r in red]
    if (~definite).any():
        tags.append("ambiguous-pairs")
    if nties:
        tags.append("half-cell-ties")
    if case["outside"]:
        tags.append("outside-box")
    if np.any(w < 0):
        tags.append("negative-weights")
    if len(allowed) > 1:
        tags.append("nbin-ambiguous")
    tags.append("class-" + case.get("klass", "generic"))
    tags.append("bins-1" if nbin == 1 else ("bins-2" if nbin == 2 else ("bins-3..40" if nbin <= 41 else "bins-41+")))
    tags.append("N2-3" if N <= 3 else ("N4-40" if N <= 40 else "N41+"))
    if N > 40:
        tags.append(size_tag(N))
    for k_, v_ in (case.get("rep") or {}).items():
        tags.append(f"rep-{k_}-{v_}")
    if case.get("perm"):
        tags.append("axes-permuted-cell-not-lower-triangular")
    if case.get("labels"):
        tags.append("labels-" + case["labels"])
    if cond["kind"] == "bool" and int(np.sum(A)) == 1:
        tags.append("one-particle-selected")
    if case.get("dense"):
        c_sel = per_centre_counts(case, weights=np.abs(w))[0]
        tags.append("per-centre-weighted-bin-count-" + ("260+" if c_sel >= 260 else "130+" if c_sel >= 130 else "below-130"))
        nontrivial = c_sel >= 130
    tags.append("in-range-pairs" if R["in_range"] else "no-pair-in-range")
    if case.get("second"):
        tags.append("second-call-mutated-in-place")
        if not np.array_equal(case["second"]["H"], H):
            tags.append("second-call-new-tilt")
    return {"nontrivial": bool(nontrivial), "tags": tags,
            "extra": {"ambiguous_pairs": int((~definite).sum()), "tied_pairs": int(nties), "reductions": len(red)}}


# ----------------------------------------------------------------------------- conditional S(q)


def qvector_arg(case):
    """The integer wave vectors in the representation the case asks for (int64 | int32: what utils.wavevector returns |
    int8 | float64: what np.loadtxt returns | float32), int64 when the values do not fit."""
    nvec = np.asarray(case["nvec"], dtype=np.int64)
    out = nvec.astype(case.get("qrep", "int64"))
    return out if np.array_equal(out.astype(np.int64), nvec) else nvec.copy()


def call_csq(case, A, snap=None):
    if snap is None:
        snap = make_snap(case)
    out = conditional_sq(snap, qvector=qvector_arg(case), condition=A)
    require(isinstance(out, tuple) and len(out) == 2, f"conditional_sq returned {type(out).__name__}, expected a pair of frames")
    return out


def _sq_reference(case, pos, A):
    L = np.diag(case["cell"]["H"])
    q, qabs = f13.wavevectors(case["nvec"], L)
    rho, S, NA = f13.fourier(pos, q, A)
    err_rho = 1e-14 * f13.fourier_error_scale(pos, q, A) / np.sqrt(NA)
    rnorm = np.abs(rho) if rho.ndim == 1 else np.sqrt((np.abs(rho) ** 2).sum(axis=1))
    err_S = 2.0 * rnorm * err_rho * (1 if rho.ndim == 1 else np.sqrt(rho.shape[1])) + err_rho ** 2 * (1 if rho.ndim == 1 else rho.shape[1])
    return q, qabs, rho, S, NA, err_rho, err_S


R8 = 5e-9   # half a unit of the 8th decimal


def verify_sq_rows(case, pos, A, per, tag):
    """Per-wave-vector frame against the reference Fourier sums for the contents (pos, A)."""
    d = case["d"]
    cond = case["cond"]
    nvec = case["nvec"]
    nq = len(nvec)
    vec = cond["kind"] == "vector"
    qcols = [f"q{i}" for i in range(d)]
    names = qcols + ["q", "Sq"] + ([f"FFT{i}" for i in range(d)] if vec else ["FFT"])
    v = frame_values(tag, per, names, nq)
    q, qabs, rho, S, NA, err_rho, err_S = _sq_reference(case, pos, A)
    R = R8
    qscale = 1e-12 * (1.0 + np.abs(q).max())
    for i, c in enumerate(qcols):
        close(f"{tag}[{c}] = 2 pi n/L (8 decimals)", np.real(v[c]).astype(float), q[:, i], rtol=0.0, atol=R + qscale)
    close(f"{tag}[q] = |q| (8 decimals)", np.real(v["q"]).astype(float), qabs, rtol=0.0, atol=R + qscale)
    Sgot = np.real(v["Sq"]).astype(float)
    bad = np.abs(Sgot - S) > R + err_S + 1e-12 * S
    require(not bad.any(), lambda: f"{tag}[Sq]: {int(bad.sum())}/{nq} wave vectors differ from |sum_i A_i exp(-i q.r_i)|^2 / N_A; "
                                   f"first n={nvec[np.argmax(bad)].tolist()}: got {Sgot[np.argmax(bad)]!r}, want {S[np.argmax(bad)]!r}")
    if vec:
        for i in range(d):
            g = np.asarray(v[f"FFT{i}"]).astype(complex)
            bad = np.abs(g - rho[:, i]) > 1.5 * R + err_rho
            require(not bad.any(), lambda: f"{tag}[FFT{i}]: first differing n={nvec[np.argmax(bad)].tolist()}: "
                                           f"got {g[np.argmax(bad)]!r}, want {rho[np.argmax(bad), i]!r}")
    else:
        g = np.asarray(v["FFT"]).astype(complex)
        bad = np.abs(g - rho) > 1.5 * R + err_rho
        require(not bad.any(), lambda: f"{tag}[FFT]: first differing n={nvec[np.argmax(bad)].tolist()}: "
                                       f"got {g[np.argmax(bad)]!r}, want {rho[np.argmax(bad)]!r}")
    return v, q, qabs, rho, S, NA, err_rho, err_S, Sgot


def check_sq(case):
    d, K = case["d"], case["K"]
    cond = case["cond"]
    A = cond["A"]
    nvec = case["nvec"]
    nq = len(nvec)
    pos = case["pos"][0]
    tag = f"conditional_sq[{cond['kind']}/{cond['sub']}]"
    vec = cond["kind"] == "vector"
    R = R8

    snap = make_snap(case)
    Aobj = np.array(A, copy=True)
    per, ave = call_csq(case, Aobj, snap)
    v, q, qabs, rho, S, NA, err_rho, err_S, Sgot = verify_sq_rows(case, pos, A, per, tag)

    if case.get("second"):
        # same snapshot and condition objects with new contents written in place
        sec = case["second"]
        snap.positions[...] = sec["pos"]
        Aobj[...] = sec["A"]
        per2, _ = call_csq(case, Aobj, snap)
        verify_sq_rows(case, sec["pos"], sec["A"], per2, tag + " (second call, same arrays mutated in place)")

    # averaged frame: consistent with the per-vector frame ...
    qgot = np.real(v["q"]).astype(float)
    uq, means = f13.group_mean(qgot, Sgot)
    va = frame_values(tag + " averaged", ave, ["q", "Sq"], len(uq))
    close(f"{tag} averaged[q] = sorted distinct |q|", va["q"].astype(float), uq, rtol=0.0, atol=1e-12 * (1 + uq.max()))
    close(f"{tag} averaged[Sq] = mean over rows with the same |q|", va["Sq"].astype(float), means, rtol=1e-9,
          atol=1e-12 * (1.0 + np.abs(means).max()))
    # ... and with the independent reference, when the rounding of |q| is unambiguous
    amb8 = bool(f13.rounding_ambiguous(qabs, 8, 1e-13).any())
    key8 = np.round(qabs, 8)
    if not amb8:
        uq_r = np.unique(key8)
        require(len(uq_r) == len(uq), f"{tag} averaged: {len(uq)} |q| classes, reference has {len(uq_r)}")
        for k, u in enumerate(uq_r):
            sel = key8 == u
            want = S[sel].mean()
            tol = R + err_S[sel].max() + 1e-12 * abs(want)
            require(abs(float(va["Sq"][k]) - want) <= tol,
                    f"{tag} averaged[Sq] at |q|={u!r}: got {float(va['Sq'][k])!r}, want {want!r} (tol {tol:.2e})")

    # ---- reductions
    red = []
    snap_args = (case["cell"], pos, case["types"], 0)
    all_sel = (cond["kind"] == "bool" and bool(np.all(A)))
    one = cond["kind"] == "float" and cond["sub"] == "one"
    key6 = np.round(qabs, 6)
    part_ok = (not amb8) and (not f13.rounding_ambiguous(qabs, 6, 1e-13).any()) and \
        all(len(np.unique(key8[key6 == u])) == 1 for u in np.unique(key6))
    if cond["kind"] == "bool" or one:
        if part_ok:
            snaps = Snapshots(nsnapshots=1, snapshots=[make_snap(case, timestep=0)])
            full = SQ(snaps, qvector=np.array(nvec, copy=True)).getresults()
            require(isinstance(full, pd.DataFrame) and len(full) == len(uq),
                    f"{tag}: sq.getresults() has {len(full) if hasattr(full, '__len__') else '?'} |q| classes, conditional_sq {len(uq)}")
            tol6 = 5e-7 + R
            errk = np.array([err_S[key8 == u].max() for u in np.unique(key8)])
            target = None
            if all_sel or one or (cond["sub"] == "species" and K == 1):
                target = "Sq"
            elif cond["sub"] == "species" and 2 <= K <= 5:
                target = f"Sq{cond['species']}{cond['species']}"
            if target is not None:
                ref = col("sq", full, target).astype(float)
                dev = np.abs(va["Sq"].astype(float) - ref)
                bad = dev > tol6 + errk + 1e-9 * np.abs(ref)
                require(not bad.any(), lambda: f"{tag}: must reproduce column {target} of sq.getresults(); at |q|="
                                               f"{uq[np.argmax(bad)]!r}: conditional {float(va['Sq'][np.argmax(bad)])!r}, sq {ref[np.argmax(bad)]!r}")
                red.append("sq-class-" + ("total" if target == "Sq" else "partial-aa"))
    if one:
        per_b, _ = call_csq(case, np.ones(len(pos), dtype=bool))
        close(f"{tag}: A = 1.0 vs all selected", np.real(col(tag, per, "Sq")).astype(float),
              np.real(col(tag, per_b, "Sq")).astype(float), rtol=1e-9, atol=2 * R)
        red.append("one=all")
    if vec:
        acc = np.zeros(nq)
        for c in range(A.shape[1]):
            pc_, _ = call_csq(case, np.ascontiguousarray(A[:, c]))
            require(isinstance(pc_, pd.DataFrame) and len(pc_) == nq and "Sq" in pc_.columns,
                    f"{tag}: component {c} analysed as a scalar returned a different layout")
            acc = acc + np.real(col(tag, pc_, "Sq")).astype(float)
        bad = np.abs(Sgot - acc) > (A.shape[1] + 1) * R + 2 * err_S + 1e-12 * S
        require(not bad.any(), lambda: f"{tag}: vector field vs sum over components analysed as scalars; first n="
                                       f"{nvec[np.argmax(bad)].tolist()}: {Sgot[np.argmax(bad)]!r} vs {acc[np.argmax(bad)]!r}")
        red.append("vector=sum-components")

    sizes = [int((qgot == u).sum()) for u in uq]
    nontrivial = int(np.count_nonzero(Sgot > 1e-7)) >= 2 and max(sizes) >= 2
    tags = [f"d{d}", "box-" + case["shape"], "kind-" + cond["kind"], f"{cond['kind']}-{cond['sub']}",
            "config-" + case["kind"].split("-")[0], f"classes-max{min(max(sizes), 4)}"]
    tags += ["reduction-" + r for r in red]
    if amb8:
        tags.append("q-rounding-ambiguous")
    if (cond["kind"] == "bool" or one) and not part_ok:
        tags.append("sq-class-grouping-ambiguous")
    if np.any(np.all(nvec == 0, axis=1)):
        tags.append("q-zero")
    if case["outside"]:
        tags.append("outside-box")
    if case.get("second"):
        tags.append("second-call-mutated-in-place")
    Np = len(pos)
    tags.append("N1" if Np == 1 else ("N2-3" if Np <= 3 else ("N4-40" if Np <= 40 else "N41+")))
    if Np > 40:
        tags.append(size_tag(Np))
    tags.append("nq-1" if nq == 1 else ("nq-2..30" if nq <= 30 else ("nq-boundary-%d" % nq if nq in NQ_ALL else "nq-31+")))
    tags.append("qlist-" + case.get("qstyle", "random"))
    tags.append("qrep-" + str(qvector_arg(case).dtype))
    for k_, v_ in (case.get("rep") or {}).items():
        tags.append(f"rep-{k_}-{v_}")
    if len(uq) == 1 and nq > 1:
        tags.append("all-vectors-in-one-q-class")
    if cond["kind"] == "bool" and int(np.sum(A)) == 1:
        tags.append("one-particle-selected")
    return {"nontrivial": bool(nontrivial), "tags": tags, "extra": {"reductions": len(red), "wavevectors": nq}}


# ----------------------------------------------------------------------------- results kept alive


@st.composite
def retained_case_st(draw):
    """One conditional_gr problem and one conditional_sq problem, each with two different contents under the SAME key
    parameters (N, number of bins / wave-vector list, condition kind), evaluated in an interleaved order; every frame
    handed out stays alive until the end."""
    g = draw(gr_case_st(ALLKINDS, klasses=("generic", "generic", "dyadic", "halfbox"), force_second=True))
    q = draw(sq_case_st(("bool", "float", "complex", "vector"), force_second=True))
    order = draw(st.lists(st.sampled_from(["g1", "g2", "s1", "s2"]), min_size=4, max_size=7))
    for k in ("g1", "g2", "s1", "s2"):
        if k not in order:
            order.append(k)
    out = dict(g)
    out.update({"g": g, "q": q, "order": order, "scribble": draw(st.booleans()), "kind": "retained"})
    return out


def _same(a, b):
    a, b = np.asarray(a), np.asarray(b)
    return a.shape == b.shape and bool(np.array_equal(a, b, equal_nan=True))


def check_retained(case):
    """Each frame is compared with the oracle when it is handed out and copied; at the end EVERY frame must still be
    bit-for-bit what it was.  Then the caller post-processes the frames it owns in place (the documentation does
    `grresults["gA"] /= grresults["gr"]`) and every problem is evaluated once more."""
    g, q = case["g"], case["q"]

    def evaluate(which, tag):
        if which[0] == "g":
            pos, H, A = (g["pos"][0], g["cell"]["H"], g["cond"]["A"]) if which == "g1" else \
                (g["second"]["pos"], g["second"]["H"], g["second"]["A"])
            snap = make_snap(dict(g, cell=dict(g["cell"], H=H)), pos=pos)
            df = conditional_gr(snap, condition=np.array(A, copy=True), conditiontype=g["cond"]["ctype"], **cgr_kwargs(g))
            verify_cgr(g, pos, H, A, df, tag)
            return [df]
        pos, A = (q["pos"][0], q["cond"]["A"]) if which == "s1" else (q["second"]["pos"], q["second"]["A"])
        per, ave = call_csq(q, np.array(A, copy=True), make_snap(q, pos=pos))
        verify_sq_rows(q, pos, A, per, tag)
        require(isinstance(ave, pd.DataFrame), f"{tag}: averaged result is {type(ave).__name__}")
        return [per, ave]

    kept = []
    for n, which in enumerate(case["order"]):
        frames = evaluate(which, f"evaluation {n + 1} ({which})")
        kept.append((n, which, frames, [f.copy(deep=True) for f in frames]))
    for n, which, frames, copies in kept:
        for f, c in zip(frames, copies):
            require(list(f.columns) == list(c.columns) and len(f) == len(c),
                    f"frame handed out by evaluation {n + 1} ({which}) changed its layout after later evaluations")
            for name in c.columns:
                require(_same(f[name].values, c[name].values),
                        f"frame handed out by evaluation {n + 1} ({which}): column {name} changed after later evaluations")
    tags = ["kind-" + g["cond"]["kind"], "sq-kind-" + q["cond"]["kind"], f"evaluations-{len(case['order'])}",
            "same-key-contents-interleaved"]
    if case["scribble"]:
        for _, _, frames, _ in kept:
            for f in frames:
                for name in f.columns[1:]:
                    f[name] /= 3.0
        for which in ("g1", "g2", "s1", "s2"):
            evaluate(which, f"{which} evaluated after the caller post-processed the earlier frames in place")
        tags.append("caller-modifies-returned-frames")
    return {"nontrivial": True, "tags": tags, "extra": {"frames_kept": sum(len(k[2]) for k in kept)}}


# ----------------------------------------------------------------------------- facets


def describe(case):
    out = describe_config(case)
    c = case["cond"]
    out["condition"] = {"kind": c["kind"], "sub": c["sub"], "ctype": c["ctype"], "shape": list(np.shape(c["A"])),
                        "head": np.asarray(c["A"]).reshape(len(c["A"]), -1)[:3].tolist().__repr__()[:200]}
    if "rdelta" in case:
        out["rdelta"] = case["rdelta"]
    if "nvec" in case:
        out["nvec"] = np.asarray(case["nvec"]).tolist()[:8]
    return out


NT_GR = "non-trivial: gA non-zero in >= 2 bins and weights not all equal (bool: not 'all')"
NT_SQ = "non-trivial: >= 2 wave vectors with S > 1e-7 and some |q| class with >= 2 members"

_gsweep = Facet("gr_size_sweep", check=gr_size_sweep, exhaustive=True, describe=lambda case: describe(case),
                 rule="finite: conditional_gr at every boundary particle number of the tier once (quick 26 values 31..257, "
                      "thorough + 19 values 266..1025), condition kind / dimension / cell / mask cycling")
_gsweep.replay = lambda case: guarded_check(check_gr, case)  # noqa: E731
_ssweep = Facet("sq_size_sweep", check=sq_size_sweep, exhaustive=True, describe=lambda case: describe(case),
                 rule="finite: conditional_sq at every boundary number of wave vectors (N = 20) and every boundary number "
                      "of particles (12 wave vectors) of the tier once, kind / dimension / box / list style / wave-vector "
                      "dtype cycling")
_ssweep.replay = lambda case: guarded_check(check_sq, case)  # noqa: E731

FACETS = [
    Facet("gr_bool", gr_case_st(("bool",)), check_gr, quick=300, thorough=8000, describe=describe, shards_quick=3,
          rule="conditional_gr, boolean selections (one species / random / all); reductions to gr{aa} and the total. " + NT_GR),
    Facet("gr_scalar", gr_case_st(("float", "float", "complex")), check_gr, quick=400, thorough=10000, describe=describe,
          shards_quick=3, rule="conditional_gr, float / int / complex128 scalars incl. A = 1 and gA_norm. " + NT_GR),
    Facet("gr_vector", gr_case_st(("vector",)), check_gr, quick=240, thorough=6000, describe=describe, shards_quick=3,
          rule="conditional_gr, real and complex vectors of 1..5 components; equals the sum over components. " + NT_GR),
    Facet("gr_tensor", gr_case_st(("tensor",)), check_gr, quick=240, thorough=6000, describe=describe, shards_quick=3,
          rule="conditional_gr, symmetric and general real square tensors; symmetric = flattened vector. " + NT_GR),
    Facet("sq_bool", sq_case_st(("bool",)), check_sq, quick=400, thorough=10000, describe=describe, shards_quick=3,
          rule="conditional_sq, boolean selections; reductions to Sq{aa} / Sq of the sq class. " + NT_SQ),
    Facet("sq_field", sq_case_st(("float", "complex", "vector", "vector")), check_sq, quick=600, thorough=16000,
          describe=describe, shards_quick=3,
          rule="conditional_sq, float / int / complex scalars and real / complex ndim-vectors; A = 1 -> total, vector = "
               "sum over components. " + NT_SQ),
    _gsweep,
    _ssweep,
    Facet("gr_sized", gr_sized_case_st(SIZES_QUICK, (41, 260)), check_gr, quick=60, thorough=1200, describe=describe,
          shards_quick=4,
          rule="conditional_gr, all condition kinds, N at block boundaries (31..257, 4 of 5 cases) or anywhere in 41..260, "
               "K 1..3, labels random / sorted / single last, ortho / tri, all masks, 2..8 bins. " + NT_GR),
    Facet("sq_sized", sq_sized_case_st(SIZES_QUICK, (41, 260), NQ_COUNTS, (31, 260)), check_sq, quick=100, thorough=3000,
          describe=describe, shards_quick=2,
          rule="conditional_sq, number of wave vectors and / or number of particles at block boundaries (31..257) or "
               "anywhere in 31..260; lists random / one axis / one shell / documented default set; wave vectors as int64 "
               "/ int32 / int8 / float64 / float32 arrays. " + NT_SQ),
    Facet("gr_dense", gr_dense_case_st(), check_gr, quick=30, thorough=800, describe=describe, shards_quick=2,
          rule="conditional_gr, dense-wide: 140..330 particles inside a ball below half a bin width or an ideal gas of "
               "230..600 particles with two bins, conditions with integer weights (bool all / one large species / 95 % "
               "random, A = 1, small integers as int64 / int32 / float32): >= 130 / >= 260 selected partners of one "
               "centre in one bin.  non-trivial: weighted per-centre per-bin count >= 130"),
    Facet("gr_sized_large", gr_sized_case_st(SIZES_THOROUGH, (261, 1030)), check_gr, quick=0, thorough=160,
          describe=describe, rule="thorough tier only: conditional_gr with N around 500, 512, 1000, 1024 (266..1030). " + NT_GR),
    Facet("sq_sized_large", sq_sized_case_st(SIZES_THOROUGH, (261, 1030), SIZES_THOROUGH, (261, 1030)), check_sq, quick=0,
          thorough=600, describe=describe,
          rule="thorough tier only: conditional_sq with N and / or the number of wave vectors in 266..1030. " + NT_SQ),
    Facet("retained", retained_case_st(), check_retained, quick=80, thorough=2500, describe=describe, shards_quick=2,
          rule="one conditional_gr and one conditional_sq problem with two contents each under the same key parameters, "
               "4..8 interleaved evaluations, every frame kept and re-compared bit-for-bit at the end; then the caller "
               "post-processes the frames in place and every problem is evaluated again.  non-trivial: always"),
]
