"""C07 — observables respect translation, periodic-image, relabelling, species-swap, axis-permutation, rotation and
dilation symmetry.  Purely metamorphic: no reference implementation of any observable; the oracle is
O(T x) = T' O(x) with T drawn from the symmetry group and T' the induced action on the output.

Facets (one per observable; each case draws a configuration AND 1..all transformations applicable to that observable):
  gr          gr.getresults (unary..quinary, K = 6: total only): translate / lattice / perm / swap / axes / dilate / rotate(open)
  sq          sq.getresults (explicit integer q-vectors or qrange): translate / lattice / perm / swap / axes
  neighbours  Nnearests, cutoffneighbors, cutoffneighbors_particletype (written file): translate / lattice / perm / axes / swap / rotate(open)
  boo3d       boo_3d q_l, Q_l, w_l, W_l, w-hat_l, W-hat_l, s_ij, G_l(r) from a synthetic neighbour (+weight) file: + rotate (open)
  boo2d       boo_2d psi_l (modulus; complex value up to exp(i l alpha)), G_l(r): + rotate (open)
  tetrahedral q8_tetrahedral: translate / lattice / perm / axes / swap / rotate (open)
  s2          S2.particle_s2 (+ particle_gr with savegr): translate / lattice / perm / swap / axes / rotate(open)
  hessian     HessianMatrix.diagonalize_hessian (saved matrix, omega, PR, saved eigenvectors): translate / lattice / perm / swap / axes / rotate
  dynamics    Dynamics.relaxation (xu / x / both; selection; cage-relative): translate / lattice / perm / swap / axes
  gyration    gyration_tensor descriptors: translate / perm / axes / rotate
  pr          participation_ratio: perm / axes / rotate
  size_sweep  finite: every observable once at every particle number 32, 33, 51, 64, 65, 100, 101, 128, 129, 201, 257
              (thorough: + 499..1025), relaxation also at 31..65 frames; a relabelling always among the transformations
  sizes_large thorough tier only: every observable at N = 499..1025 (S2, bond order, Hessian 190..513; clouds 1999..2049)
  samples     first frame(s) of the repository's sample dumps: gr, sq, Nnearests, cutoffneighbors, S2, tetrahedral,
              boo_3d / boo_2d, relaxation under translate / lattice / perm / swap / axes (/ dilate for gr) and compositions
  samples_large  g(r) of the 6400..10000-particle sample dumps (thorough tier; one case in quick)

OBSERVABLE x TRANSFORMATION MATRIX (evidence tags `cell:<observable>:<kind>`, every `x` cell is populated in every
quick run; `-` = the statement / the routine does not define the relation, reason below)
                     translate lattice perm swap axes rotate(open) dilate
  gr  (all columns)      x        x      x    x    x       x(1)       x
  sq  (all columns)      x        x      x    x    x       -(2)       -(6)
  nn / cutoff            x        x      x    x(3) x       x(1)       -(6)
  cutoff_type            x        x      x    x    x       x(1)       -(6)
  q_l Q_l w_l w-hat sij  x        x      x    x(3) x       x          -(6)
  psi_l, G_l(r)          x        x      x    x(3) x       x          -(6)
  tetrahedral            x        x      x    x(3) x       x          -(6)
  s2 (+ particle_gr)     x        x      x    x    x       x(1)       -(6)
  hessian matrix/omega/PR x       x      x    x    x       x          -(6)
  relaxation             x        x      x    x    x       -(4)       -(6)
  gyration               x        -(5)   x    -(5) x       x          -(6)
  pr                     -(5)     -(5)   x    -(5) x       x          -(6)
  sample files           x        x      x    x    x       -(2)       x (gr)
 (1) not listed by the statement, implied: the observable depends on pair distances only and the routine ignores the
     box on open axes (it only sets the bin range / normalisation, which is kept)
 (2) S(q) needs a periodic box (box-commensurate wave vectors); the sample files are periodic
 (3) the routine ignores the labels: the output must not change at all (K >= 2 configurations, labels swapped)
 (4) F_s(q, t) is averaged over the Cartesian axes only: direction dependent by definition
 (5) no box / no origin / no species in the signature
 (6) the statement restricts dilation to g(r)

CLAUSES (statement + quantifier, split; facet . assertion; class tags that show the axis is spanned)
  c1  rigid translation leaves every observable unchanged            all config facets . close_tol / compare_lists;
      tf-translate, translate-far (5..40 cell vectors), per-frame translations for static observables, movebox on/off
  c2  shifting any particle by whole cell vectors                     same; tf-lattice with lat-near (|n| <= 2), lat-several
      (some |n| in 3..8), lat-far (one particle 20..60 cells away); inputs themselves input-image1 / input-several (+-4)
      / input-drift (whole frame several cells off) = unwrapped coordinates; per-frame shifts for relaxation(x)
  c3  consistent relabelling, per-particle outputs permute            tf-perm: per-particle arrays mapped through the
      permutation, neighbour / weight files and selections mapped, file rows in shuffled order
  c4  axis permutation with the box                                   tf-axes for ortho AND tilted cells (P H P^T is a
      general matrix; tri / tilt-negative / tilt-positive); S(q): orthogonal only, q-vectors permuted, edges-unequal
  c5  swapping species labels swaps the partial columns only          tf-swap: gr / sq columns renamed (K2..K5; K6: total
      only), parameter tables of cutoff_type / S2 / Hessian (eps, sigma, r_c, masses) / relaxation (diameters) permuted;
      label-blind routines (nn, cutoff, boo, tetrahedral) must not change
  c6  rotation of open clusters leaves rotational invariants unchanged  tf-rotate (SO(2) angle, SO(3) quaternion, angle
      > 0.1): q_l Q_l, w_l (pseudo-scalar for odd l: l-odd / l-even), w-hat_l, s_ij, G_l(r), |psi_l| and psi_l e^{il alpha},
      tetrahedral, gyration descriptors, PR, Hessian (P H P^T with the rotation blocks)
  c7  common dilation leaves g(r) unchanged (r scales)                gr . compare_gr with s; tf-dilate, s in 0.1..10
  c8  'the symmetry group generated by'                               compositions: tf-single / tf-pair / tf-triple /
      tf-chain4+ (every applicable component), tf-translate.lattice.perm.axes = the full chain
  c9  'all configurations'                                            d2 / d3, ortho / tri, edges-unequal, K1..K6,
      mask-full / partial / open, gas / cluster / lattice-exact / lattice-jit / critical-line (all pair vectors short in
      every Cartesian component but beyond the half cell of a tilted cell), frames1 / frames2, size-boundary-N<n>
      (31..257 quick, 499..1025 thorough; sweep:<observable>:N<n> = every cell of the finite size sweep),
      size-boundary-bins / -nq / -k / -T, cn>32 / cn>64 cut-off lists, unequal masses (mass-unequal), maxcn = Nmax
  c10 'incl. the repository's own sample trajectories'                samples / samples_large: cell:<file>:<kind>
  c11 to floating-point accuracy                                      tolerances derived from the coordinate rounding noise
      (4 ulp of the largest coordinate) divided by the shortest length the output depends on, with absolute floors
 Call-protocol classes (not clauses of the statement, reach of the generator): proto-fresh / proto-inplace (ONE Snapshots
 object overwritten in place) / proto-twice (second evaluation on the same analysis object) / proto-outfile (optional
 output files requested) / proto-interleave (another degree and other data in between) / proto-default-file,
 rep-intcell (integer cell as int64), qrep-float64 / float32 / int32, eps-int64, massrep-* / diamrep-* (dictionaries with
 extra keys, reversed insertion order, int values), Nmax-default / exact / plus / large; every returned array /
 DataFrame is kept alive and re-compared bit for bit at the end of the case (kept_results_rechecked).
"""
from __future__ import annotations

from ..harness import Facet
from . import c07_common as C
from . import c07_local as L
from . import c07_static as S

NT = ("non-trivial = every drawn transformation component is far from the identity by construction (|shift| >= 0.1 "
      "cell edge on some axis, >= 1 non-zero lattice vector, permutation != id, label map != id, axis map != id, "
      "rotation angle > 0.1, |s-1| >= 0.1) and the observable is non-degenerate (not all zero / not all equal)")

RULE = ("generated configurations (2D/3D; orthogonal and LAMMPS-triclinic cells of either tilt sign, unequal edges, "
        "integer-valued cells as int64, arbitrary origin; gas / cluster / jittered and exact lattices / critical lines "
        "in strongly tilted cells; wrapped, image-shifted and unwrapped (several cells) inputs; all periodicity masks "
        "incl. fully open; 1-2 frames, 2-5 and 31-33 for dynamics; 1-6 species; N = 2-20 and block-boundary sizes "
        "31..257 (499..1025 in the thorough tier)) x the symmetry group generated by rigid translations (also by 5-40 "
        "cell vectors; per frame for static observables), per-particle (and per-frame) integer cell-vector shifts on "
        "periodic axes (|n| <= 2, <= 8, one particle 20-60 cells away), id permutations (neighbour/weight files, "
        "selections permuted consistently, rows in shuffled order), species-label permutations (parameter matrices, "
        "masses, diameters permuted consistently), axis permutations with the box (orthogonal and tilted cells), "
        "SO(2)/SO(3) rotations of open clusters, common dilations (g(r)); 1 component up to every applicable one "
        "composed; plus the first frames of the repository's sample dumps under all of these. " + NT)

ASSUMPTIONS = [
    "minimum image = fractional rounding (contract of C02): a pair whose periodic fractional separation is within 1e-9 "
    "of a half-integer may take either image; in orthogonal cells both have the same length, in tilted cells such "
    "cases are not asserted (counted as skip-tri-tie); direction-dependent observables never use such a bond",
    "discrete decisions are asserted only where decided: g(r) / G_l(r) bins with a pair within 1e-9 (relative, plus 8x "
    "the coordinate rounding noise) of one of their edges are not compared; neighbour lists are compared position-wise "
    "by distance so that only entries tied within 1e-9 (d + L) may differ (cut-off lists may differ by entries on the "
    "cut-off); tetrahedral order skips particles whose 4th/5th neighbours tie; S2 skips particles with a pair on "
    "r_max; Q(t), chi4 are skipped when some displacement^2 is within 1e-8 of the mobility threshold; Hessian cases "
    "with a pair within 1e-6 of its cut-off are skipped",
    "coordinate rounding noise = 4 ulp of the largest coordinate / cell entry of either configuration; every smooth "
    "tolerance carries the term noise / (shortest length the output depends on) so that translations by tens of cell "
    "vectors stay sound",
    "S(q): orthogonal all-periodic cells only (the routine uses box lengths only); per-vector values are rounded to "
    "1e-6 before the |q| average, hence atol 2.1e-6; cases where a |q| sits within 1e-9 of a rounding boundary are "
    "skipped under axis permutation (grouping could change); integer wave vectors are also passed as float64 / "
    "float32 / int32 arrays (accepted by the unchanged routine with identical results; nested lists are not: .astype)",
    "boo_3d: bonds within 1e-5 rad of the polar axis (but not on it) are skipped: theta = arccos(z/r) is "
    "ill-conditioned there by construction of the formula; w-hat_l and s_ij are asserted where sum_m |q_lm|^2 >= 1e-4; "
    "w_l is a pseudo-scalar for odd l (sign = det of the orthogonal map); s_ij is stored as float32 (atol 2.5e-7); "
    "coordination numbers <= Nmax (the documented meaning of Nmax), cn = Nmax included",
    "Hessian: pair distances >= 0.8 sigma, cell perpendicular widths >= 2.1 r_c (c11's domain); participation ratio "
    "and saved eigenvectors are compared only for eigenvalues isolated by > 1e-3 ||H||; masses / diameters dictionaries "
    "may hold more species than the configuration uses, in any insertion order (looked up by label)",
    "rotations are applied only with all axes open (the box is then irrelevant to the routine), also when the box is "
    "not larger than the cluster; g(r), neighbour lists and S2 of open clusters are rotated too (distance-only "
    "observables: implied by the statement, not listed in it)",
    "optional output files (outputfile, saveqvectors, savegr, saveevecs, output_phi, outputw...) only have to exist "
    "when requested; their rounded text content is not compared",
    "not asserted: time_corr / time_average of the bond-order classes, Dynamics.sq4 / slowS4 (other properties), "
    "relaxation under rotation (F_s is averaged over the Cartesian axes), Hessians of the sample dumps (no potential)",
]

MANIFEST = {
    "text": ("Metamorphic symmetry check of eleven observables: for generated configurations (and the repository's own "
             "sample dumps) the analysis is run on the input and on a transformed copy (rigid translation - also far, "
             "per-particle cell-vector shifts - also by many cells and of unwrapped inputs, id relabelling, species-label "
             "permutation, axis permutation with the box for orthogonal and tilted cells, SO(2)/SO(3) rotation of open "
             "clusters, dilation with the bin width, and compositions of up to all of them) and the two outputs must "
             "be related by the induced map: g(r) and S(q) columns (partials permuted), neighbour files (ids mapped), "
             "q_l/Q_l/w_l/w-hat_l/s_ij/G_l(r), psi_l, tetrahedral order, S2 and particle g(r), saved Hessian = P H P^T "
             "with its spectrum, participation ratios and eigenvectors, relaxation tables, gyration descriptors, "
             "participation ratio. The observable x transformation matrix is explicit (tags cell:<obs>:<kind>); sizes "
             "include block boundaries (31..257, thorough 499..1025); call protocols include in-place reuse of the "
             "input objects, a second evaluation on the same object, optional output files, value-equal argument "
             "representations, and every returned object is re-compared bit for bit at the end of the case. Facets: "
             "gr, sq, neighbours, boo3d, boo2d, tetrahedral, s2, hessian, dynamics, gyration, pr, size_sweep, sizes_large, "
             "samples, samples_large."),
    "note": ("No reference implementation: only relative statements are checked, so an error common to all "
             "orientations/labellings is invisible here (C03-C17 cover absolute values). Trusted base: pbt/ref/geom "
             "(used only to find items on decision boundaries, which are then not asserted) and numpy. Smooth outputs "
             "rtol 1e-8 plus the coordinate-noise term; rounded S(q) atol 2.1e-6; float32 s_ij atol 2.5e-7."),
    "technique": "property-based testing (Hypothesis): metamorphic relations O(T x) = T' O(x) over a generated symmetry group",
}


def _large_case():
    """thorough tier only: every observable whose cost allows it at N = 499..1025 (S2, bond order, Hessian: 190..513)"""
    from hypothesis import strategies as st
    return st.one_of(S.gr_case("large"), S.sq_case("large"), S.neigh_case("large"), S.neigh_case("large"), S.s2_case("large"),
                     L.boo_case(2, "large"), L.boo_case(3, "large"), L.tetra_case("large"), L.hess_case("large"),
                     L.dyn_case("large"), L.cloud_case(False, "large"), L.cloud_case(True, "large"))


_CHECKS = {"gr": S.check_gr, "sq": S.check_sq, "nn": S.check_neigh, "cutoff": S.check_neigh, "cutoff_type": S.check_neigh,
           "s2": S.check_s2, "boo2d": L.check_boo2, "boo3d": L.check_boo3, "tetrahedral": L.check_tetra,
           "hessian": L.check_hess, "relaxation": L.check_dyn, "gyration": L.check_gyration, "pr": L.check_pr}


def check_large(case):
    info = _CHECKS[case["obs"]](case)
    info["tags"] = ["obs-" + case["obs"]] + list(info.get("tags", []))
    return info


def describe_any(case):
    return L.describe_cloud(case) if "x" in case else C.describe(case)


# Finite size sweep (EXTENSION_3 class 1).  Hypothesis re-uses drawn values in later examples, so a random facet meets
# only a handful of DISTINCT boundary sizes per run; each size sees a different block length, so every (observable,
# size) cell is enumerated once per run.  The case of a cell is the 3rd example of the observable's own strategy at
# that fixed size under the seed (VERIF_SEED, observable, size); relabelling is always among the transformations.
SWEEP_N = (32, 33, 51, 64, 65, 100, 101, 128, 129, 201, 257)
SWEEP_N_THOROUGH = (499, 501, 513, 666, 1001, 1025)


def _sweep_plan(tier):
    big = SWEEP_N + (SWEEP_N_THOROUGH if tier != "quick" else ())
    mid = tuple(n for n in SWEEP_N if n <= 129) + ((201, 257) if tier != "quick" else ())
    plan = [("gr", S.gr_case, big), ("sq", S.sq_case, big),
            ("nn", lambda sz: S.neigh_case(sz, "nn"), big), ("cutoff", lambda sz: S.neigh_case(sz, "cutoff"), big),
            ("cutoff_type", lambda sz: S.neigh_case(sz, "cutoff_type"), big),
            ("s2", S.s2_case, mid), ("boo2d", lambda sz: L.boo_case(2, sz), big), ("boo3d", lambda sz: L.boo_case(3, sz), mid),
            ("tetrahedral", L.tetra_case, big), ("hessian", L.hess_case, mid), ("relaxation", L.dyn_case, big),
            ("gyration", lambda sz: L.cloud_case(False, sz), big + (513, 1025)),
            ("pr", lambda sz: L.cloud_case(True, sz), big + (513, 1025))]
    for obs, maker, sizes in plan:
        for n in sorted(set(sizes)):
            yield obs, maker(("fixed", n)), f"N{n}"
    for t in (31, 32, 33, 64, 65) + ((100, 101, 129) if tier != "quick" else ()):
        yield "relaxation", L.dyn_case(("frames", t)), f"T{t}"


def size_sweep(tier):
    import os
    import zlib
    base = int(os.environ.get("VERIF_SEED", "1") or "1")
    for obs, strategy, label in _sweep_plan(tier):
        case = C.draw_one(strategy, zlib.crc32(f"{base}/{obs}/{label}".encode()))
        try:
            info = check_large(case)
        except Exception as e:  # noqa: BLE001  (Violation or an exception raised inside the library: keep the case)
            e.case = case
            raise
        info["tags"] = [f"sweep:{obs}:{label}"] + list(info.get("tags", []))
        yield case, info


_sweep = Facet("size_sweep", check=size_sweep, exhaustive=True, describe=describe_any,
               rule="finite: every observable once at every particle number 32, 33, 51, 64, 65, 100, 101, 128, 129, 201, 257 "
                    "(S2 / boo_3d / Hessian up to 129; thorough: + 499, 501, 513, 666, 1001, 1025 where the cost allows), point "
                    "clouds also 513 and 1025, relaxation also at 31, 32, 33, 64, 65 frames; all other parameters and the "
                    "transformation (always including a relabelling) from the observable's own strategy")
_sweep.replay = check_large


FACETS = [
    Facet("gr", S.gr_case(), S.check_gr, quick=240, thorough=6000, describe=C.describe, shards_quick=3,
          rule="g(r) all columns under translate/lattice/perm/swap/axes/dilate/rotate(open); " + NT),
    Facet("sq", S.sq_case(), S.check_sq, quick=300, thorough=8000, describe=C.describe, shards_quick=2,
          rule="S(q) all columns under translate/lattice/perm/swap/axes; " + NT),
    Facet("neighbours", S.neigh_case(), S.check_neigh, quick=400, thorough=10000, describe=C.describe, shards_quick=2,
          rule="written neighbour files (N nearest / cut-off / type cut-off) under translate/lattice/perm/axes/swap/"
               "rotate(open); " + NT),
    Facet("boo3d", L.boo_case(3), L.check_boo3, quick=140, thorough=4000, describe=C.describe, shards_quick=4,
          rule="q_l Q_l w_l W_l and normalised, s_ij, G_l(r); fixed bond topology, under translate/lattice/perm/axes/"
               "rotate/swap; " + NT),
    Facet("boo2d", L.boo_case(2), L.check_boo2, quick=400, thorough=10000, describe=C.describe, shards_quick=2,
          rule="psi_l, G_l(r); fixed bond topology, under translate/lattice/perm/axes/rotate/swap; " + NT),
    Facet("tetrahedral", L.tetra_case(), L.check_tetra, quick=400, thorough=10000, describe=C.describe, shards_quick=2,
          rule="q8_tetrahedral under translate/lattice/perm/axes/rotate/swap; " + NT),
    Facet("s2", S.s2_case(), S.check_s2, quick=240, thorough=6000, describe=C.describe, shards_quick=2,
          rule="S2.particle_s2 (and particle_gr with savegr) under translate/lattice/perm/swap/axes/rotate(open); " + NT),
    Facet("hessian", L.hess_case(), L.check_hess, quick=400, thorough=10000, describe=C.describe, shards_quick=2,
          rule="saved Hessian, spectrum, PR, saved eigenvectors under translate/lattice/perm/swap/axes/rotate; "
               "non-trivial additionally needs >= 1 interacting pair"),
    Facet("dynamics", L.dyn_case(), L.check_dyn, quick=400, thorough=10000, describe=C.describe, shards_quick=2,
          rule="Dynamics.relaxation table under translate/lattice/perm/swap/axes; non-trivial additionally needs motion"),
    Facet("gyration", L.cloud_case(False), L.check_gyration, quick=400, thorough=20000, describe=L.describe_cloud,
          rule="gyration descriptors under translate/perm/axes/rotate; non-trivial: N >= 3, R_g > 0"),
    Facet("pr", L.cloud_case(True), L.check_pr, quick=400, thorough=20000, describe=L.describe_cloud,
          rule="participation ratio under perm/axes/rotate; non-trivial: 1/N < PR < 1"),
    _sweep,
    Facet("sizes_large", _large_case(), check_large, quick=0, thorough=320, describe=describe_any,
          rule="thorough tier only: every observable at particle numbers on the block boundaries 499..1025 (S2 / bond "
               "order / Hessian 190..513, point clouds 1999..2049) under its transformations",
          thorough_budget_s=3000.0),
    Facet("samples", S.sample_case(False), S.check_sample, quick=10, thorough=480, describe=S.describe_sample,
          rule="first frame(s) of the repository sample dumps: gr / sq / Nnearests / cutoffneighbors / S2 / tetrahedral / "
               "boo_3d / boo_2d / relaxation of the 500..1000-particle files, sq / Nnearests of the 6400..10000-particle "
               "files, under translate/lattice/perm/swap/axes(/dilate) and their compositions with bulk numbers from "
               "numpy default_rng(k), k drawn by Hypothesis",
          quick_budget_s=240.0, thorough_budget_s=3000.0),
    Facet("samples_large", S.sample_case(True), S.check_sample, quick=1, thorough=32, describe=S.describe_sample,
          rule="g(r) (coarse bins) of the first frame of the 6400..10000-particle sample dumps (incl. the 67x10.8x10.8 "
               "box and the triclinic 2D file) under translate/lattice/perm/swap/axes/dilate; thorough-tier facet, one case in quick",
          quick_budget_s=240.0, thorough_budget_s=3000.0),
]
