"""C06 — relaxation functions equal their definitions averaged over all time origins.

Facets
  linear      Dynamics.relaxation vs the explicit (origin, lag) reference: modes {xu only, x only, both}, ortho/tri cells,
              all periodicity masks, K 1..3 with a diameters map, slow/fast, no selection / per-frame boolean masks.
  linear_cage the same with a synthetic multi-frame neighbour file (cage-relative displacements).
  log         LogDynamics.relaxation (first frame the only origin, uneven timesteps, 1-D selection, optional file).
  wrap_equiv  metamorphic: wrapped coordinates + all-periodic flags == unwrapped coordinates when every per-axis
              (fractional) displacement between any two frames is < 0.45 (library vs library, both classes).
  sq4         Dynamics.sq4 vs an independent Fourier-sum reference of the mobile subset, averaged over origins.
  crisp       exact arithmetic (integer coordinates, dyadic diameters / cut-offs): particles sitting exactly on the
              mobility threshold are neither slow nor fast (strict '<' / '>'), in relaxation (both classes) and sq4.

Preconditions imposed by the code and respected by the generators (sound-first):
  * type ids 1..K all mapped by `diameters` (dynamics.py:148), same N / box / types in all frames;
  * only-wrapped mode needs ppp.any() (dynamics.py:137);
  * every particle has >= 1 neighbour in every frame of the neighbour file (cage_relative takes a mean);
  * max_neighbors >= the largest coordination number (truncation of lists is C05's business);
  * every per-frame selection has >= 1 True; boolean dtype for relaxation (it indexes with it);
  * sq4: orthogonal cells (it uses boxlength only), non-empty mobile subset at every origin, t within 20 % of a
    multiple of the sampling interval (unambiguous round), at least two wave numbers per axis.
"""
from __future__ import annotations

import os

import numpy as np
from hypothesis import strategies as st
from hypothesis.extra import numpy as hnp

from ..gen import cell_st, fl, nice_float, ppp_st, snapshots_from, types_st
from ..harness import Facet, Violation
from ..ref import dynref, geom
from ..util import arr, col, columns, require

from PyMatterSim.dynamic.dynamics import Dynamics, LogDynamics

RULE = ("generated trajectories (ballistic / diffusive / arrested / mixed / drift) of T 2..7 frames, N 2..12, 2D/3D, "
        "ortho + LAMMPS-triclinic cells, modes {xu only, x only, both}, K 1..3 with a diameters map, cut-off factor `a` "
        "placed in a gap of the realised dr^2/sigma^2 values, slow/fast, selections {none, constant, equal-count varying, "
        "free varying}, with/without a synthetic multi-frame neighbour file. non-trivial = (T >= 3 and the overlap Q "
        "differs between origins at some lag) or a selection or a neighbour file is active")
ASSUMPTIONS = [
    "a per-frame selection applies to a frame pair through the mask of the ORIGIN frame (same convention as the "
    "neighbour list; the statement does not fix it) - cases with frame-varying masks are tagged sel-*",
    "chi4 is asserted only when the selected count is the same in every origin frame (otherwise N is undefined)",
    "alpha2 is asserted only where <r^2> > 0 and the propagated rounding error of r4/r2^2 is < 1e-6",
    "mobility decisions within 1e-9 (relative) + propagated coordinate error of the squared cut-off are ambiguous: "
    "Q must lie in [definite, definite+ambiguous], chi4 / S4 are skipped for such rows (tag amb)",
    "minimum-image half-cell ties (geom.min_image tie flag) make a row unasserted (tag tie)",
    "sq4 default wave-vector set = integer vectors in the half-open range [-n/2, n/2)^d with integer norm "
    "(the implementation's set, as in C04); per-vector values are rounded to 8 decimals by the library, so S4 is "
    "compared with atol 1e-8; cases where two distinct |q| are closer than 2e-8 are skipped (tag q-amb)",
    "coordinate error bound per displacement component: 1e-13 * (largest coordinate difference or box edge)",
]
MANIFEST = {
    "text": "Dynamics.relaxation / LogDynamics.relaxation rows (t, isf, Qt, X4_Qt, msd, alpha2) equal an explicit "
            "all-origins (resp. single-origin) reference for generated trajectories in every mode (xu, x with minimum "
            "image, both), with selections and cage-relative neighbour files; wrapped == unwrapped under the half-box "
            "bound; Dynamics.sq4 equals the origin-averaged structure factor of the slow/fast subset; strictness of the "
            "mobility threshold on exact ties. Facets: linear, linear_cage, log, wrap_equiv, sq4, crisp.",
    "note": "trusted base: pbt/ref/dynref.py + pbt/ref/geom.py (numpy); origin-frame convention for frame-varying "
            "selections; half-open default wave-vector set taken from the implementation; orthogonal cells only for sq4; "
            "same box in all frames; neighbour lists never truncated by max_neighbors.",
    "technique": "property-based testing (Hypothesis): reference-model differential + metamorphic (wrapped vs "
                 "unwrapped, all-True selection vs none) + crisp exact-arithmetic constructions",
}

COLS = ["t", "isf", "Qt", "X4_Qt", "msd", "alpha2"]
KINDS = ["ballistic", "diffusive", "arrested", "mixed", "drift"]
AMPS = [0.002, 0.02, 0.1, 0.3, 0.8]  # displacement per step in units of the shortest box edge
NBFILE = "c06_neighbors.dat"


# ----------------------------------------------------------------------------- generators


def build_disp(kind, T, vel, noise, pk, step):
    """Cartesian displacement of every particle from frame 0, shape (T, N, d); frame 0 is exactly zero."""
    N, d = vel.shape
    t = np.arange(T, dtype=float)[:, None, None]
    zero = np.zeros((1, N, d))
    ball = t * vel[None] * step
    diff = np.concatenate([zero, np.cumsum(noise, axis=0)]) * step
    vib = np.concatenate([zero, noise]) * (0.01 * step)
    froz = np.zeros((T, N, d))
    if kind == "ballistic":
        return ball
    if kind == "diffusive":
        return diff
    if kind == "arrested":
        return np.where((pk == 3)[None, :, None], froz, vib)
    if kind == "drift":
        return t * vel[0][None, None, :] * step + 0.05 * diff
    out = np.zeros((T, N, d))
    for code, src in enumerate([ball, diff, vib, froz]):
        out = np.where((pk == code)[None, :, None], src, out)
    return out


def pick_a2(ratio_arrays, u, lo_need=None, hi_need=None):
    """A squared cut-off factor inside a gap of the realised dr^2/sigma^2 values (relative gap >= 1e-6)."""
    vals = np.unique(np.concatenate([np.asarray(r, dtype=float).ravel() for r in ratio_arrays]))
    cands = []
    if vals[0] > 1e-12:
        cands.append(0.5 * vals[0])
    for v, w in zip(vals[:-1], vals[1:]):
        if w > v * (1 + 1e-6) + 1e-12:
            cands.append(0.5 * (v + w))
    cands.append(max(2.0 * vals[-1], 0.09))
    if lo_need is not None:
        cands = [c for c in cands if c > lo_need * (1 + 1e-6) + 1e-12]
    if hi_need is not None:
        cands = [c for c in cands if c < hi_need * (1 - 1e-6) - 1e-12]
    if not cands:
        return None
    return cands[min(int(u * len(cands)), len(cands) - 1)]


@st.composite
def selection_st(draw, T, N, modes):
    mode = draw(st.sampled_from(list(modes)))
    if mode == "none":
        return mode, None
    cnt = draw(st.integers(1, N))
    keys = draw(hnp.arrays(np.int16, (T, N), elements=st.integers(0, 999), fill=st.nothing()))
    if mode == "const":
        keys[:] = keys[0]
    order = np.argsort(keys, axis=1, kind="stable")
    mask = np.zeros((T, N), dtype=bool)
    if mode == "free":
        cnts = draw(st.lists(st.integers(1, N), min_size=T, max_size=T))
    else:
        cnts = [cnt] * T
    for t in range(T):
        mask[t, order[t, :cnts[t]]] = True
    return mode, mask


@st.composite
def neighbours_st(draw, frames, N):
    """Per frame, per particle: 1..min(N-1,5) distinct neighbours (0-based, never self), plus the row order of the
    file and the max_neighbors argument."""
    cmax = min(N - 1, 5)
    same = draw(st.integers(0, 4)) == 0
    keys = draw(hnp.arrays(np.int16, (frames, N, N), elements=st.integers(0, 999), fill=st.nothing()))
    cn = draw(hnp.arrays(np.int8, (frames, N), elements=st.integers(1, cmax), fill=st.nothing()))
    if same:
        keys[:] = keys[0]
        cn[:] = cn[0]
    lists = []
    for f in range(frames):
        fr = []
        for i in range(N):
            order = [int(j) for j in np.argsort(keys[f, i], kind="stable") if j != i]
            fr.append(order[:int(cn[f, i])])
        lists.append(fr)
    roworder = [list(draw(st.permutations(range(N)))) if draw(st.booleans()) else list(range(N)) for _ in range(frames)]
    maxcn = int(cn.max())
    maxn = draw(st.sampled_from([maxcn, maxcn + 1, 30, 100]))
    return {"lists": lists, "roworder": roworder, "max_neighbors": maxn, "same": bool(same),
            "sep": draw(st.sampled_from([" ", "  ", "\t"]))}


def make_traj(case, mode=None):
    mode = mode or case["mode"]
    nbrs = case["nb"]["lists"] if case["nb"] is not None else None
    if nbrs is not None and len(nbrs) < len(case["pos"]):
        nbrs = nbrs + [None] * (len(case["pos"]) - len(nbrs))  # log variant: only frame 0 is ever used
    if mode == "x":
        return dynref.Trajectory(case["posw"], H=case["cell"]["H"], ppp=case["ppp"], nbrs=nbrs)
    return dynref.Trajectory(case["pos"], nbrs=nbrs)


def sigma_of(case):
    return np.array([case["sig"][int(t)] for t in case["types"]], dtype=float)


@st.composite
def case_st(draw, variant="lin", cage="no", modes=("xu", "x", "both"), cells=("ortho", "tri"), bounded=False,
            sq4=False, tmax=7, nmax=12, selmodes=("none", "none", "const", "equal", "free")):
    d = draw(st.sampled_from([2, 3]))
    cell = draw(cell_st(d, draw(st.sampled_from(list(cells))), lmin=2.0, lmax=30.0))
    if sq4 and draw(st.integers(0, 2)) == 0:  # cubic / square boxes give large shells of equal |q|
        cell["H"] = np.eye(d) * cell["H"][0, 0]
    H, lo = cell["H"], cell["lo"]
    Lmin = float(np.diag(H).min())
    K = draw(st.integers(1, 3))
    N = draw(st.integers(max(2, K), nmax))
    T = draw(st.integers(2, tmax)) if not sq4 else draw(st.sampled_from([2, 3, 4, 5, 6, 4, 5, 6]))
    types = draw(types_st(N, K))
    if draw(st.integers(0, 3)) == 0:
        sig = {k: 1.0 for k in range(1, K + 1)}
    else:
        sig = {k: draw(nice_float(0.5, 2.0)) for k in range(1, K + 1)}
    # Type labels and the diameters map: Dynamics looks every particle's label up in `diameters` (dynamics.py: Series.map),
    # so labels need not be 1..K (a dump of species 1 and 3 only) and the map may hold more keys than the trajectory
    # uses (one dictionary for a whole project), in any insertion order.  Seeded change C06-D indexed a table built from
    # the sorted keys by the rank among the labels present.
    labmode = draw(st.sampled_from(["1..K", "1..K", "gapped", "extra-keys", "gapped+extra"]))
    if "gapped" in labmode:
        newlab = sorted(draw(st.lists(st.integers(1, 9), min_size=K, max_size=K, unique=True)))
        types = np.array([newlab[int(t) - 1] for t in types], dtype=int)
        sig = {newlab[k - 1]: v for k, v in sig.items()}
    if "extra" in labmode:
        free = [k for k in range(1, 10) if k not in sig]
        for k in draw(st.lists(st.sampled_from(free), min_size=1, max_size=2, unique=True)):
            sig[k] = draw(st.sampled_from([0.37, 2.9, 5.0]))
    if labmode != "1..K":
        items = list(sig.items())
        sig = dict(items[i] for i in draw(st.permutations(range(len(items)))))
    mode = draw(st.sampled_from(list(modes)))
    ppp = draw(ppp_st(d))
    if bounded or (mode == "x" and not ppp.any()):
        ppp = np.ones(d, dtype=int)
    # trajectory
    # fill=st.nothing(): every element is drawn independently (the default shares one fill value between most
    # elements of an array, which would make most particles coincide / move identically)
    f0 = draw(hnp.arrays(np.float64, (N, d), fill=st.nothing(), elements=st.one_of(
        st.integers(0, 1023).map(lambda k: k / 1024.0), fl(0.0, 1.0, exclude_max=True))))
    kind = draw(st.sampled_from(KINDS))
    amp = draw(st.sampled_from(AMPS))
    vel = draw(hnp.arrays(np.float64, (N, d), elements=fl(-1.0, 1.0), fill=st.nothing()))
    noise = draw(hnp.arrays(np.float64, (T - 1, N, d), elements=fl(-1.0, 1.0), fill=st.nothing()))
    pk = draw(hnp.arrays(np.int8, (N,), elements=st.integers(0, 3), fill=st.nothing()))
    disp = build_disp(kind, T, vel, noise, pk, amp * Lmin)
    if bounded:
        # largest per-axis fractional displacement between any two frames: rescaled to a drawn target < 0.45
        fd = geom.frac_coords(disp.reshape(-1, d), H).reshape(T, N, d)
        m = max(np.abs(fd[e] - fd[o]).max() for o in range(T) for e in range(o + 1, T))
        target = draw(st.sampled_from([0.44, 0.44, 0.3, 0.1, 0.01]))
        if m > 0.0 and (m > 0.44 or draw(st.booleans())):
            disp = disp * (target / m)
    pos0 = lo + f0 @ H
    pos = [pos0 + disp[t] for t in range(T)]
    posw = []
    for p in pos:
        f = geom.frac_coords(p - lo, H)
        posw.append(lo + (f - np.floor(f) * ppp) @ H)
    # time axis
    t0 = draw(st.one_of(st.just(0), st.integers(0, 10**7)))
    if variant == "log":
        incs = draw(st.lists(st.integers(1, 5000), min_size=T - 1, max_size=T - 1))
        timesteps = [t0] + [t0 + int(s) for s in np.cumsum(incs)]
    else:
        interval = draw(st.integers(1, 5000))
        timesteps = [t0 + k * interval for k in range(T)]
    dtmd = draw(nice_float(0.0005, 0.05))
    # selection
    if variant == "log":
        selmode, mask = draw(selection_st(1, N, [m for m in selmodes if m in ("none", "const")] or ["none"]))
        cond = None if mask is None else mask[0]
    else:
        selmode, cond = draw(selection_st(T, N, selmodes))
    # neighbour file
    nb = None
    if cage == "yes" or (cage == "maybe" and draw(st.booleans())):
        frames = T if (variant != "log" or draw(st.booleans())) else 1
        nb = draw(neighbours_st(frames, N))
    cal_type = draw(st.sampled_from(["slow", "fast"]))
    case = {"d": d, "cell": cell, "pos": pos, "posw": posw, "types": types, "timesteps": timesteps, "ppp": ppp, "K": K,
            "kind": kind, "amp": amp, "mode": mode, "dtmd": dtmd, "sig": sig, "labmode": labmode, "cal_type": cal_type, "cond": cond,
            "selmode": selmode, "nb": nb, "variant": variant, "bounded": bounded,
            "max_neighbors": nb["max_neighbors"] if nb else draw(st.sampled_from([30, 100])),
            "nbarg": draw(st.sampled_from(["", None])),
            "qconst": draw(st.one_of(st.just(2 * np.pi), nice_float(0.5, 15.0)))}
    # cut-off factor in a gap of the realised values
    sigma = sigma_of(case)
    u = draw(fl(0.0, 1.0, exclude_max=True))
    if sq4:
        lag = draw(st.integers(1, T - 1))
        trj = make_traj(case)
        rat = dynref.squared_ratios(trj, sigma, sel=cond, lags=[lag])
        lo_need = max(r.min() for r in rat)   # slow: every origin keeps >= 1 particle below the cut-off
        hi_need = min(r.max() for r in rat)   # fast: every origin keeps >= 1 particle above it
        a2 = None
        if cal_type == "fast":
            a2 = pick_a2(rat, u, hi_need=hi_need)
            if a2 is None:
                case["cal_type"] = "slow"
        if a2 is None:
            a2 = pick_a2(rat, u, lo_need=lo_need)
        numofq = draw(st.integers(2, 12 if d == 2 else 7))
        Lmax = float(np.diag(H).max())
        # t = (lag + delta) sampling intervals with |delta| <= 0.4, so that round() is unambiguous
        delta = draw(st.sampled_from([0.0, 0.0, -0.4, 0.4, -0.2, 0.2])) if draw(st.booleans()) else draw(fl(-0.4, 0.4))
        case.update(lag=lag, numofq=numofq, qrange=(numofq + 0.5) * np.pi / Lmax, tdelta=delta,
                    t=(lag + delta) * ((timesteps[1] - timesteps[0]) * dtmd), cond_float=draw(st.booleans()))
    else:
        modes_a = ["x", "xu"] if bounded else [mode]
        rat = []
        for m_ in modes_a:
            rat += dynref.squared_ratios(make_traj(case, m_), sigma, sel=cond, log=(variant == "log"))
        a2 = pick_a2(rat, u)
    case["a"] = float(np.sqrt(a2))
    return case


@st.composite
def crisp_st(draw):
    """Integer coordinates in a 16^d box, integer step vectors with perfect-square lengths, diameters in {1, 2},
    cut-off factor chosen so that (a sigma)^2 equals a realised squared displacement exactly."""
    d = draw(st.sampled_from([2, 3]))
    N = draw(st.integers(2, 8))
    T = draw(st.integers(2, 5))
    K = draw(st.integers(1, min(2, N)))
    types = draw(types_st(N, K))
    sig = {1: float(draw(st.sampled_from([1, 2])))}
    if K == 2:
        sig[2] = float(draw(st.sampled_from([1, 2])))
    nice2 = [(0, 0), (1, 0), (2, 0), (3, 0), (4, 0), (5, 0), (3, 4), (1, 1), (2, 1)]
    nice3 = [(0, 0, 0), (1, 0, 0), (2, 0, 0), (3, 0, 0), (3, 4, 0), (1, 2, 2), (2, 4, 4), (2, 3, 6), (1, 1, 0), (1, 1, 1)]
    table = nice2 if d == 2 else nice3
    steps = np.zeros((T - 1, N, d))
    for t in range(T - 1):
        for i in range(N):
            v = list(draw(st.sampled_from(table)))
            v = [v[j] for j in draw(st.permutations(range(d)))]
            sg = draw(st.lists(st.sampled_from([-1, 1]), min_size=d, max_size=d))
            steps[t, i] = [a_ * s_ for a_, s_ in zip(v, sg)]
    p0 = draw(hnp.arrays(np.int64, (N, d), elements=st.integers(0, 15), fill=st.nothing())).astype(float)
    pos = [p0]
    for t in range(T - 1):
        pos.append(pos[-1] + steps[t])
    cell = {"d": d, "kind": "ortho", "H": np.eye(d) * 16.0, "lo": np.zeros(d), "origin": "zero"}
    interval = draw(st.integers(1, 100))
    case = {"d": d, "cell": cell, "pos": pos, "posw": [np.mod(p, 16.0) for p in pos], "types": types,
            "timesteps": [k * interval for k in range(T)], "ppp": np.ones(d, dtype=int), "K": K, "kind": "crisp",
            "amp": 0.0, "mode": draw(st.sampled_from(["xu", "both"])), "dtmd": draw(st.sampled_from([0.5, 0.25, 0.002])),
            "sig": sig, "cal_type": draw(st.sampled_from(["slow", "fast"])), "cond": None, "selmode": "none", "nb": None,
            "variant": "lin", "bounded": False, "max_neighbors": 30, "nbarg": "", "qconst": 2 * np.pi,
            "numofq": draw(st.integers(2, 8 if d == 2 else 5)), "lag": 1, "cond_float": False}
    case["qrange"] = (case["numofq"] + 0.5) * np.pi / 16.0
    case["t"] = interval * case["dtmd"]
    # squared cut-off equal to a realised squared lag-1 displacement of some particle, expressed through its sigma
    sigma = sigma_of(case)
    d2 = (steps ** 2).sum(axis=2)
    opts = sorted({float(np.sqrt(v) / s) for v, s in zip(d2.ravel(), np.tile(sigma, T - 1))
                   if v > 0 and float(np.sqrt(v)).is_integer()})
    case["a"] = draw(st.sampled_from(opts)) if opts and draw(st.integers(0, 4)) > 0 else draw(st.sampled_from([0.5, 1.5, 2.5]))
    return case


# ----------------------------------------------------------------------------- running the library


def write_neighbour_file(case):
    nb = case["nb"]
    sep = nb["sep"]
    fn = os.path.join(os.getcwd(), NBFILE)
    with open(fn, "w", encoding="utf-8") as f:
        for lists, order in zip(nb["lists"], nb["roworder"]):
            f.write("id     cn     neighborlist\n")
            for i in order:
                f.write(sep.join([str(i + 1), str(len(lists[i]))] + [str(j + 1) for j in lists[i]]) + "\n")
    return fn


def make_dynamics(case, mode=None, variant=None):
    mode = mode or case["mode"]
    variant = variant or case["variant"]
    base = {"cell": case["cell"], "types": case["types"], "timesteps": case["timesteps"]}
    xu = snapshots_from(dict(base, pos=case["pos"])) if mode in ("xu", "both") else None
    x = snapshots_from(dict(base, pos=case["posw"])) if mode in ("x", "both") else None
    nbfile = write_neighbour_file(case) if case["nb"] is not None else case["nbarg"]
    cls = LogDynamics if variant == "log" else Dynamics
    return cls(xu_snapshots=xu, x_snapshots=x, dt=case["dtmd"], ppp=case["ppp"].copy(), diameters=dict(case["sig"]),
               a=case["a"], cal_type=case["cal_type"], neighborfile=nbfile, max_neighbors=case["max_neighbors"])


def table(name, df, T):
    columns(name, df, COLS)
    out = {}
    for c in COLS:
        v = arr(f"{name}[{c}]", col(name, df, c), shape=(T - 1,))
        require(v.dtype.kind in "fiu", f"{name}[{c}]: non-numeric dtype {v.dtype}")
        out[c] = v.astype(float)
    return out


def near(name, got, want, rtol, atol):
    if not (np.isfinite(got) and abs(got - want) <= atol + rtol * abs(want)):
        raise Violation(f"{name}: got {got!r}, want {want!r} (|diff| = {abs(got - want):.3e}, rtol={rtol}, atol={atol:.3e})")


def coordinate_error(case, mode):
    """Bound on the absolute error of one displacement component (see ASSUMPTIONS)."""
    P = np.array(case["posw"] if mode == "x" else case["pos"])
    span = np.abs(P[:, None] - P[None, :]).max()
    return 1e-13 * max(float(span), float(np.abs(case["cell"]["H"]).max()) if mode == "x" else 0.0, 1e-300)


def compare_rows(name, got, rows, tref, stats):
    """got: dict of column arrays from the library; rows: reference rows (dynref.relaxation)."""
    for k, (g, w) in enumerate(zip(got["t"], tref)):
        near(f"{name}: t[{k}]", g, w, 1e-12, 0.0)
    for k, row in enumerate(rows):
        tag = f"{name}: row {k} (lag {k + 1}, {row['count']} origins)"
        if row["tie"]:
            stats["tie_rows"] += 1
            continue
        near(f"{tag} isf", got["isf"][k], row["isf"], 1e-9, row["isf_atol"])
        near(f"{tag} msd", got["msd"][k], row["msd"], 1e-9, row["msd_atol"])
        q = got["Qt"][k]
        if not (np.isfinite(q) and row["Q_lo"] - 1e-12 <= q <= row["Q_hi"] + 1e-12):
            raise Violation(f"{tag} Qt: got {q!r}, allowed [{row['Q_lo']!r}, {row['Q_hi']!r}] ({row['namb']} ambiguous)")
        if row["namb"]:
            stats["amb_rows"] += 1
        if row["chi4"] is not None:
            near(f"{tag} X4_Qt", got["X4_Qt"][k], row["chi4"], 1e-9, 1e-11)
            stats["chi4_rows"] += 1
        else:
            stats["chi4_skipped"] += 1
        if row["alpha2_ok"]:
            near(f"{tag} alpha2", got["alpha2"][k], row["alpha2"], 1e-9,
                 row["alpha2_atol"] + 1e-12 * (1 + abs(row["alpha2"])))
            stats["alpha2_rows"] += 1
        else:
            stats["alpha2_skipped"] += 1


def new_stats():
    return {k: 0 for k in ("tie_rows", "amb_rows", "chi4_rows", "chi4_skipped", "alpha2_rows", "alpha2_skipped")}


def common_tags(case, rows, stats):
    T = len(case["pos"])
    N = len(case["types"])
    tags = [f"d{case['d']}", case["cell"]["kind"], "kind-" + case["kind"], "mode-" + case["mode"], case["cal_type"],
            f"K{case['K']}", f"T{T}", "N<=4" if N <= 4 else ("N5-8" if N <= 8 else "N9-12"), "sel-" + case["selmode"],
            "nb-file" if case["nb"] is not None else "nb-none",
            "ppp-full" if np.all(case["ppp"]) else ("ppp-none" if not np.any(case["ppp"]) else "ppp-partial"),
            "sigma-unit" if all(v == 1.0 for v in case["sig"].values()) else "sigma-map",
            "labels-" + case.get("labmode", "1..K"),
            "t0-zero" if case["timesteps"][0] == 0 else "t0-nonzero"]
    if case["nb"] is not None:
        tags.append("nb-same-all-frames" if case["nb"]["same"] else "nb-per-frame")
        tags.append("nb-shuffled-rows" if any(o != sorted(o) for o in case["nb"]["roworder"]) else "nb-ordered-rows")
    if rows is not None:
        if any(r["Qvaries"] for r in rows):
            tags.append("Q-varies-between-origins")
        qs = [r["Q_lo"] for r in rows]
        tags.append("Q-all-0" if max(qs) == 0 else ("Q-all-1" if min(qs) == 1 else "Q-mixed"))
        if any(r["chi4"] not in (None, 0.0) and abs(r["chi4"]) > 1e-9 for r in rows):
            tags.append("chi4-nonzero")
    for k, v in stats.items():
        if v:
            tags.append(k.replace("_rows", "").replace("_", "-") + ">0")
    return tags


def is_nontrivial(case, rows):
    T = len(case["pos"])
    return bool((T >= 3 and any(r["Qvaries"] for r in rows)) or case["cond"] is not None or case["nb"] is not None)


# ----------------------------------------------------------------------------- checks


def check_relaxation(case):
    T = len(case["pos"])
    log = case["variant"] == "log"
    sigma = sigma_of(case)
    err = coordinate_error(case, case["mode"])
    rows = dynref.relaxation(make_traj(case), sigma, case["qconst"], case["a"], case["cal_type"], sel=case["cond"],
                             log=log, err=err)
    tref = dynref.time_axis_log(case["timesteps"], case["dtmd"]) if log else \
        dynref.time_axis_linear(case["timesteps"], case["dtmd"])
    dyn = make_dynamics(case)
    cond = None if case["cond"] is None else case["cond"].copy()
    with np.errstate(all="ignore"):
        df = dyn.relaxation(qconst=case["qconst"], condition=cond, outputfile="")
    stats = new_stats()
    compare_rows("relaxation", table("relaxation", df, T), rows, tref, stats)
    if cond is not None:
        require(np.array_equal(cond, case["cond"]), "relaxation modified the caller's condition array")
    # second call on the same object with the complementary way of saying 'everything' / a selection:
    # an all-True selection must reproduce the unselected result, and vice versa the object must not remember
    # the previous selection
    N = len(case["types"])
    if case["cond"] is None:
        alltrue = np.ones(N if log else (T, N), dtype=bool)
        with np.errstate(all="ignore"):
            df2 = dyn.relaxation(qconst=case["qconst"], condition=alltrue, outputfile="")
        compare_rows("relaxation(all-True selection, 2nd call)", table("relaxation 2nd", df2, T), rows, tref, new_stats())
    else:
        rows0 = dynref.relaxation(make_traj(case), sigma, case["qconst"], case["a"], case["cal_type"], sel=None,
                                  log=log, err=err)
        with np.errstate(all="ignore"):
            df2 = dyn.relaxation(qconst=case["qconst"], condition=None, outputfile="")
        compare_rows("relaxation(no selection, 2nd call after a selection)", table("relaxation 2nd", df2, T), rows0,
                     tref, new_stats())
    return {"nontrivial": is_nontrivial(case, rows), "tags": common_tags(case, rows, stats),
            "extra": {"ambiguous_particles": sum(r["namb"] for r in rows), "rows_checked": len(rows) - stats["tie_rows"]}}


def check_wrap_equiv(case):
    """library(x only, ppp = 1) == library(xu only) for both classes; tolerances from the propagated coordinate error."""
    T = len(case["pos"])
    sigma = sigma_of(case)
    scale = max(float(np.abs(np.array(case["pos"])).max()), float(np.abs(case["cell"]["H"]).max()))
    err = 1e-13 * scale
    crossings = int(sum(np.any(np.abs(pw - p) > 1e-9) for pw, p in zip(case["posw"], case["pos"])))
    stats = new_stats()
    rows_lin = None
    for variant in ("lin", "log"):
        log = variant == "log"
        cond = case["cond"]
        if cond is not None and log:
            cond = cond[0]
        kw = dict(sigma=sigma, qconst=case["qconst"], a=case["a"], cal_type=case["cal_type"], sel=cond, log=log, err=err)
        rows = dynref.relaxation(make_traj(case, "xu"), **kw)
        rows_x = dynref.relaxation(make_traj(case, "x"), **kw)
        res = {}
        for mode in ("xu", "x"):
            dyn = make_dynamics(case, mode=mode, variant=variant)
            with np.errstate(all="ignore"):
                df = dyn.relaxation(qconst=case["qconst"], condition=None if cond is None else cond.copy(), outputfile="")
            res[mode] = table(f"{variant}/{mode}", df, T)
        for k, row in enumerate(rows):
            tag = f"wrapped vs unwrapped [{variant}] row {k}"
            near(f"{tag} t", res["x"]["t"][k], res["xu"]["t"][k], 1e-12, 0.0)
            near(f"{tag} isf", res["x"]["isf"][k], res["xu"]["isf"][k], 1e-9, row["isf_atol"])
            near(f"{tag} msd", res["x"]["msd"][k], res["xu"]["msd"][k], 1e-9, row["msd_atol"])
            if row["namb"] == 0 and rows_x[k]["namb"] == 0 and not rows_x[k]["tie"]:
                near(f"{tag} Qt", res["x"]["Qt"][k], res["xu"]["Qt"][k], 0.0, 1e-12)
                near(f"{tag} X4_Qt", res["x"]["X4_Qt"][k], res["xu"]["X4_Qt"][k], 1e-9, 1e-11)
                stats["chi4_rows"] += 1
            else:
                stats["amb_rows"] += 1
            if row["alpha2_ok"]:
                near(f"{tag} alpha2", res["x"]["alpha2"][k], res["xu"]["alpha2"][k], 1e-9,
                     row["alpha2_atol"] + 1e-12 * (1 + abs(row["alpha2"])))
                stats["alpha2_rows"] += 1
            else:
                stats["alpha2_skipped"] += 1
        if not log:
            rows_lin = rows
    tags = common_tags(case, rows_lin, stats)
    tags.append("frames-with-wrapped-particles>0" if crossings else "no-wrapping")
    fd = np.array([geom.frac_coords(p - case["pos"][0], case["cell"]["H"]) for p in case["pos"]])
    m = max(np.abs(fd[e] - fd[o]).max() for o in range(T) for e in range(o + 1, T))
    tags.append("maxfrac<0.1" if m < 0.1 else ("maxfrac<0.3" if m < 0.3 else "maxfrac>=0.3"))
    return {"nontrivial": bool(crossings and m > 0.01), "tags": tags, "extra": {"frames_with_crossings": crossings}}


def sq4_reference(case, rel=1e-9, err=None):
    mode = case["mode"]
    sq_pos = case["posw"] if mode in ("x", "both") else case["pos"]
    L = np.diag(case["cell"]["H"])
    if err is None:
        err = coordinate_error(case, mode)
    return dynref.sq4(make_traj(case), sq_pos, L, sigma_of(case), case["a"], case["cal_type"], case["lag"],
                      case["numofq"], sel=case["cond"], err=err, rel=rel)


def run_sq4(case, dyn=None):
    dyn = dyn or make_dynamics(case)
    cond = case["cond"]
    if cond is not None:
        cond = cond.astype(float) if case["cond_float"] else cond.copy()
    return dyn.sq4(t=case["t"], qrange=case["qrange"], condition=cond, outputfile="")


def compare_sq4(name, out, ref):
    columns(name, out, ["q", "Sq"])
    q = arr(f"{name}[q]", col(name, out, "q"), shape=ref["q"].shape).astype(float)
    s = arr(f"{name}[Sq]", col(name, out, "Sq"), shape=ref["Sq"].shape).astype(float)
    for k in range(len(q)):
        near(f"{name}: q[{k}]", q[k], ref["q"][k], 1e-12, 1e-8)
        near(f"{name}: Sq[{k}] at q={ref['q'][k]:.6f}", s[k], ref["Sq"][k], 1e-9, 1e-8)


def check_sq4(case):
    ref = sq4_reference(case)
    stats = new_stats()
    tags = common_tags(case, None, stats)
    tags += [f"lag{case['lag']}", "cond-float" if case["cond"] is not None and case["cond_float"] else "cond-bool/none",
             "cubic" if len(set(np.diag(case["cell"]["H"]))) == 1 else "unequal-edges",
             "nvec<=8" if ref["nvec"] <= 8 else ("nvec<=40" if ref["nvec"] <= 40 else "nvec>40"),
             "t-exact" if case.get("tdelta", 0.0) == 0.0 else ("t-below" if case["tdelta"] < 0 else "t-above"),
             f"origins{min(len(ref['nsub']), 4)}"]
    if ref["empty"]:
        tags.append("skipped-empty-subset")
        return {"nontrivial": False, "tags": tags}
    if ref["namb"] or ref["q_ambiguous"]:
        tags.append("skipped-amb" if ref["namb"] else "skipped-q-amb")
        return {"nontrivial": False, "tags": tags}
    with np.errstate(all="ignore"):
        out = run_sq4(case)
    compare_sq4("sq4", out, ref)
    N = len(case["types"])
    partial = any(0 < n < N for n in ref["nsub"])
    tags.append("subset-partial" if partial else "subset-all")
    if len(set(ref["nsub"])) > 1:
        tags.append("subset-size-varies")
    return {"nontrivial": bool(partial and len(ref["nsub"]) >= 2) or (partial and case["cond"] is not None),
            "tags": tags, "extra": {"wave_vectors": ref["nvec"]}}


def check_crisp(case):
    """Everything is exact in binary: the reference decides with zero margin."""
    T = len(case["pos"])
    sigma = sigma_of(case)
    tags = [f"d{case['d']}", case["cal_type"], "mode-" + case["mode"], f"T{T}"]
    on_threshold = 0
    for variant in ("lin", "log"):
        log = variant == "log"
        rows = dynref.relaxation(make_traj(case, "xu"), sigma, case["qconst"], case["a"], case["cal_type"], log=log,
                                 err=0.0, rel=0.0)
        tref = dynref.time_axis_linear(case["timesteps"], case["dtmd"])
        dyn = make_dynamics(case, variant=variant)
        with np.errstate(all="ignore"):
            df = dyn.relaxation(qconst=case["qconst"], condition=None, outputfile="")
        compare_rows(f"crisp relaxation [{variant}]", table(f"crisp {variant}", df, T), rows, tref, new_stats())
    # exact ties present?
    trj = make_traj(case, "xu")
    for o in range(T - 1):
        vec, _ = trj.pair(o, o + 1)
        on_threshold += int(np.sum((vec ** 2).sum(axis=1) == (case["a"] * sigma) ** 2))
    tags.append("on-threshold>0" if on_threshold else "on-threshold=0")
    ref = sq4_reference(case, rel=0.0, err=0.0)
    if ref["empty"] or ref["q_ambiguous"]:
        tags.append("sq4-skipped-empty")
    else:
        with np.errstate(all="ignore"):
            out = run_sq4(case, make_dynamics(case, variant="lin"))
        compare_sq4("crisp sq4", out, ref)
        tags.append("sq4-checked")
        if on_threshold:
            tags.append("sq4-checked+on-threshold")
    return {"nontrivial": on_threshold > 0, "tags": tags, "extra": {"particles_exactly_on_threshold": on_threshold}}


def describe(case):
    out = {"d": case["d"], "cell": case["cell"]["kind"], "H": np.round(case["cell"]["H"], 4).tolist(),
           "N": int(len(case["types"])), "T": len(case["pos"]), "K": case["K"], "kind": case["kind"],
           "mode": case["mode"], "variant": case["variant"], "cal_type": case["cal_type"], "a": case["a"],
           "sig": case["sig"], "qconst": case["qconst"], "dt": case["dtmd"], "timesteps": case["timesteps"],
           "ppp": case["ppp"].tolist(), "sel": case["selmode"], "nb": None if case["nb"] is None else case["nb"]["lists"][0],
           "pos0": np.round(case["pos"][0][:3], 4).tolist(), "pos1": np.round(case["pos"][1][:3], 4).tolist()}
    if "lag" in case:
        out.update(lag=case["lag"], t=case["t"], qrange=case["qrange"])
    return out


NT = "non-trivial as in RULE"
FACETS = [
    Facet("linear", case_st("lin", cage="no"), check_relaxation, quick=900, thorough=40000, describe=describe,
          shards_quick=3, rule="Dynamics.relaxation, no neighbour file; " + NT),
    Facet("linear_cage", case_st("lin", cage="yes"), check_relaxation, quick=600, thorough=30000, describe=describe,
          shards_quick=3, rule="Dynamics.relaxation with a multi-frame neighbour file; " + NT),
    Facet("log", case_st("log", cage="maybe"), check_relaxation, quick=600, thorough=30000, describe=describe,
          shards_quick=2, rule="LogDynamics.relaxation, uneven timesteps, optional neighbour file / 1-D selection; " + NT),
    Facet("wrap_equiv", case_st("lin", cage="maybe", modes=("xu",), bounded=True), check_wrap_equiv, quick=400,
          thorough=20000, describe=describe, shards_quick=2,
          rule="wrapped + ppp=1 vs unwrapped, |fractional displacement| < 0.45 between any two frames; non-trivial = "
               "some particle is actually wrapped in some frame and the largest fractional displacement > 0.01"),
    Facet("sq4", case_st("lin", cage="maybe", cells=("ortho",), sq4=True, tmax=6, nmax=10), check_sq4, quick=500,
          thorough=20000, describe=describe, shards_quick=3,
          rule="Dynamics.sq4 vs Fourier-sum reference; non-trivial = the mobile subset is a proper subset at some origin "
               "and (>= 2 origins or a selection)"),
    Facet("crisp", crisp_st(), check_crisp, quick=400, thorough=20000, describe=describe,
          rule="exact arithmetic; non-trivial = some particle's squared lag-1 displacement equals the squared cut-off"),
]
