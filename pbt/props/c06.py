"""C06 — relaxation functions equal their definitions averaged over all time origins.

Facets
  linear      Dynamics.relaxation vs the explicit (origin, lag) reference: modes {xu only, x only, both}, ortho/tri cells,
              all periodicity masks, K 1..3 with a diameters map, slow/fast, no selection / per-frame boolean masks.
  linear_cage the same with a synthetic multi-frame neighbour file (cage-relative displacements).
  log         LogDynamics.relaxation (first frame the only origin, uneven timesteps, 1-D selection, optional file).
  wrap_equiv  metamorphic: wrapped coordinates + all-periodic flags == unwrapped coordinates when every per-axis
              (fractional) displacement between any two frames is < 0.45 (library vs library, both classes).
  sq4         Dynamics.sq4 vs an independent Fourier-sum reference of the mobile subset, averaged over origins.
  crisp       exact arithmetic (integer coordinates, dyadic diameters / cut-offs): particles sitting exactly on the
              mobility threshold are neither slow nor fast (strict '<' / '>'), in relaxation (both classes) and sq4.

  size_boundaries (round 3) ONE size axis on a block boundary B-1, B, B+1, 2B-1, 2B+1, B+B//3: particles N = 31..513
              (relaxation of both classes, with / without a neighbour file; sq4, in half of the cases with the whole
              system in the mobile subset so that the SUBSET size sits on the boundary), frames T = 31..129 (relaxation:
              all T(T-1)/2 frame pairs and T-1 lags; sq4: T - lag origins), neighbours per particle up to 31..129
              (cage-relative), sq4 with hundreds of wave vectors.  Arrays come from numpy's generator seeded by a
              Hypothesis-drawn integer; references and tolerances are those of linear / log / sq4.
              size_boundaries_deep (thorough only): N up to 2049, T up to 401, cn up to 257.
  call_history (round 3) two Dynamics objects on same-shaped trajectories, 3..7 drawn calls (relaxation with / without
              the selection, another qconst; sq4 at two lags) alternating between them; every result equals its
              reference at call time and ALL returned DataFrames, kept alive, are bit-identical to the copies taken at
              return when the case ends (results handed out earlier must stay what they were).
Classes added in round 3 inside the existing facets: outputfile written and compared with the returned table
(relaxation of both classes, sq4); keywords equal to their documented default left out (dt, a, cal_type, neighborfile,
max_neighbors, ppp, diameters, qconst, condition, outputfile); three calls on one object in check_relaxation (the third
repeats the first) with all three frames re-compared at the end; sq4 twice on one object; t given as a rounded decimal
literal (0.3 for an interval of 0.1); N = 1; neighbour files with fixed-k lists / ragged lists whose first and last
particle carry the largest cn (measured: cn-varies-within-a-frame, nb-directed, cn-particle0-below-max); crisp cases in
the wrapped-only mode and with value-equal arguments in other representations (int64 coordinates / cell, labels as
float64 / int32, ppp as bool / float, integer diameters, numpy-integer keys).

CLAUSES (statement + quantifier of C06, split; deciding assertion; populated class tags of evidence/C06.json)
  1 any trajectory, T >= 2 frames            all facets          kind-ballistic/-diffusive/-arrested/-mixed/-drift, T2..T7,
                                                                 size-boundary-T=31..129, N=1, N<=4 .. N>12, size-boundary-N=*
       WAS WEAK: T <= 7, N <= 12 -> size classes; N = 1 added
  2 time step dt, time k*interval*dt         near(t, 1e-12 rel)  t0-zero/-nonzero, default-omitted:dt
  3 diameters map                            q_j = qconst/sigma_j and (a sigma_j)^2 in the reference
                                                                 sigma-map/-unit, labels-gapped/-extra-keys, argrep-int-diameters
  4 mobility cut-off, slow / fast            Qt in [definite, definite+ambiguous]; strictness on exact ties (crisp)
                                                                 slow fast Q-mixed on-threshold>0
  5 particle selection (per-frame masks)     reference selects with the ORIGIN frame's mask   sel-none/-const/-equal/-free
  6 cage-relative neighbour lists            reference subtracts the mean over the origin frame's list
                                                                 nb-file nb-per-frame cn-varies-within-a-frame nb-directed
                                                                 cn-equal-for-all-particles cn-ragged-with-full-ends cn-max>31
       WAS WEAK: cn <= 5 -> size axis cn (up to 129 neighbours, max_neighbors = max cn, max cn + 1, 200)
  7 row k = average over ALL frame pairs k intervals apart of isf, Qt, msd
                                             compare_rows: isf, msd (rtol 1e-9 + propagated), Qt interval; every lag
                                                                 Q-varies-between-origins, size-axis-T
  8 chi4 = N(<Q^2> - <Q>^2)                  near(X4_Qt) when the selected count is the same at all origins   chi4>0 chi4-nonzero
  9 alpha2 with the dimensional prefactor    near(alpha2) where <r^2> > 0                     d2 d3 alpha2>0
 10 log variant: first frame the only origin log facet, crisp, size (variant-log)
 11 wrapped + periodic flags == unwrapped within half a box      wrap_equiv     frames-with-wrapped-particles>0 maxfrac>=0.3
 12 S4 = S(q) of the slow / fast subset averaged over origins    sq4, crisp, size axes sq4-N / sq4-T / sq4-M, call_history
                                                                 lag1..5 origins1..4 t-exact/-below/-above t-decimal
                                                                 subset-partial sq4-subset=N-at-origin-0 sq4-vectors>400
 13 modes {xu only, x only, both}            mode-xu / mode-x / mode-both in every facet (crisp: now also mode-x)
 14 observed at the returned DataFrames; CSV on request          outputfile-written (WAS NEVER VARIED: flag audit)
 15 histories (second evaluation, several objects)               call_history, three calls in check_relaxation, sq4 twice
EXTENSION_3 classes 5 / 6: the size classes reach >= 130 / >= 260 particles per average and >= 128 origins per lag
(tags particles-per-average>=130/260, origins-per-lag>=128; >= 260 origins in the thorough tier); every library call
(constructors included) runs inside process_state_unchanged() with numpy's error handling at the process default
(RuntimeWarnings are silenced through the warnings filter, not np.errstate, so that a seterr left behind is seen).
Not asserted on purpose: chi4 when the selected count differs between origins (N undefined); alpha2 where <r^2> = 0;
frame-varying boxes (which frame's cell defines the minimum image is not stated); linear sampling with uneven or
repeated timesteps (the class documents 'constant time interval required'); sq4 with an empty mobile subset.

Preconditions imposed by the code and respected by the generators (sound-first):
  * type ids 1..K all mapped by `diameters` (dynamics.py:148), same N / box / types in all frames;
  * only-wrapped mode needs ppp.any() (dynamics.py:137);
  * every particle has >= 1 neighbour in every frame of the neighbour file (cage_relative takes a mean);
  * max_neighbors >= the largest coordination number (truncation of lists is C05's business);
  * every per-frame selection has >= 1 True; boolean dtype for relaxation (it indexes with it);
  * sq4: orthogonal cells (it uses boxlength only), non-empty mobile subset at every origin, t within 20 % of a
    multiple of the sampling interval (unambiguous round), at least two wave numbers per axis.
"""
from __future__ import annotations

import contextlib
import os

import numpy as np
from hypothesis import strategies as st
from hypothesis.extra import numpy as hnp

from ..gen import cell_st, fl, nice_float, ppp_st, snapshots_from, types_st
from ..harness import Facet, Violation
from ..ref import dynref, geom
from ..util import arr, col, columns, require

from PyMatterSim.dynamic.dynamics import Dynamics, LogDynamics

RULE = ("generated trajectories (ballistic / diffusive / arrested / mixed / drift) of T 2..7 frames, N 2..12, 2D/3D, "
        "ortho + LAMMPS-triclinic cells, modes {xu only, x only, both}, K 1..3 with a diameters map, cut-off factor `a` "
        "placed in a gap of the realised dr^2/sigma^2 values, slow/fast, selections {none, constant, equal-count varying, "
        "free varying}, with/without a synthetic multi-frame neighbour file (ragged, fixed-k, directed lists); "
        "output files, omitted default keywords, three calls per object; size boundaries (N = 31..513, T = 31..129, up "
        "to 129 neighbours per particle, sq4 subsets and wave-vector sets of hundreds; thorough N <= 2049, T <= 401); "
        "call histories on two live objects with all returned frames re-compared at the end. "
        "non-trivial = (T >= 3 and the overlap Q "
        "differs between origins at some lag) or a selection or a neighbour file is active")
ASSUMPTIONS = [
    "a per-frame selection applies to a frame pair through the mask of the ORIGIN frame (same convention as the "
    "neighbour list; the statement does not fix it) - cases with frame-varying masks are tagged sel-*",
    "chi4 is asserted only when the selected count is the same in every origin frame (otherwise N is undefined)",
    "alpha2 is asserted only where <r^2> > 0 and the propagated rounding error of r4/r2^2 is < 1e-6",
    "mobility decisions within 1e-9 (relative) + propagated coordinate error of the squared cut-off are ambiguous: "
    "Q must lie in [definite, definite+ambiguous], chi4 / S4 are skipped for such rows (tag amb)",
    "minimum-image half-cell ties (geom.min_image tie flag) make a row unasserted (tag tie)",
    "sq4 default wave-vector set = integer vectors in the half-open range [-n/2, n/2)^d with integer norm "
    "(the implementation's set, as in C04); per-vector values are rounded to 8 decimals by the library, so S4 is "
    "compared with atol 1e-8; cases where two distinct |q| are closer than 2e-8 are skipped (tag q-amb)",
    "coordinate error bound per displacement component: 1e-13 * (largest coordinate difference or box edge)",
    "a CSV written on request holds the returned table (1e-6 relative + 1e-9; the text format is not promised; NaN may "
    "be written as an empty field)",
    "a DataFrame returned earlier is not changed by later calls on the same or on another object (bit-for-bit against "
    "a copy taken at return)",
    "a keyword left out means its documented default (dt 0.002, a 0.3, cal_type 'slow', neighborfile '', max_neighbors "
    "30, ppp zeros(3), diameters {1: 1.0, 2: 1.0}, qconst 2 pi, condition None, outputfile '')",
    "size classes place the cut-off at a quantile of the realised displacements of three sampled frame pairs, not in a "
    "gap of all of them: decisions closer than 1e-9 fall under the reference's interval rule",
    "a constructor / relaxation() / sq4() call leaves the process-wide state (numpy error handling and print options, "
    "warnings filters, cwd, environment, logging root, global random generators, pandas display options, number of open "
    "file descriptors) as it found it",
    "value-equal representations (crisp facet): int64 coordinates / cell, labels float64 / int32, ppp bool / float, "
    "integer diameters, numpy-integer keys; float32 coordinates and a list ppp are out of domain (different arithmetic "
    "/ AttributeError on the unchanged tree)",
]
MANIFEST = {
    "text": "Dynamics.relaxation / LogDynamics.relaxation rows (t, isf, Qt, X4_Qt, msd, alpha2) equal an explicit "
            "all-origins (resp. single-origin) reference for generated trajectories in every mode (xu, x with minimum "
            "image, both), with selections and cage-relative neighbour files; wrapped == unwrapped under the half-box "
            "bound; Dynamics.sq4 equals the origin-averaged structure factor of the slow/fast subset; strictness of the "
            "mobility threshold on exact ties. Round 3: size boundaries (particles 31..513, frames 31..129, up to 129 "
            "neighbours per particle, sq4 subsets / wave-vector sets of hundreds; thorough tier larger), output files, "
            "omitted default keywords, value-equal argument representations, call histories on two live objects with "
            "every returned DataFrame re-compared bit for bit at the end. Facets: linear, linear_cage, log, wrap_equiv, "
            "sq4, crisp, size_boundaries, size_boundaries_deep, call_history.",
    "note": "trusted base: pbt/ref/dynref.py + pbt/ref/geom.py (numpy); origin-frame convention for frame-varying "
            "selections; half-open default wave-vector set taken from the implementation; orthogonal cells only for sq4; "
            "same box in all frames; neighbour lists never truncated by max_neighbors.",
    "technique": "property-based testing (Hypothesis): reference-model differential + metamorphic (wrapped vs "
                 "unwrapped, all-True selection vs none) + crisp exact-arithmetic constructions",
}

COLS = ["t", "isf", "Qt", "X4_Qt", "msd", "alpha2"]
KINDS = ["ballistic", "diffusive", "arrested", "mixed", "drift"]
AMPS = [0.002, 0.02, 0.1, 0.3, 0.8]  # displacement per step in units of the shortest box edge
NBFILE = "c06_neighbors.dat"


# ----------------------------------------------------------------------------- generators


def build_disp(kind, T, vel, noise, pk, step):
    """Cartesian displacement of every particle from frame 0, shape (T, N, d); frame 0 is exactly zero."""
    N, d = vel.shape
    t = np.arange(T, dtype=float)[:, None, None]
    zero = np.zeros((1, N, d))
    ball = t * vel[None] * step
    diff = np.concatenate([zero, np.cumsum(noise, axis=0)]) * step
    vib = np.concatenate([zero, noise]) * (0.01 * step)
    froz = np.zeros((T, N, d))
    if kind == "ballistic":
        return ball
    if kind == "diffusive":
        return diff
    if kind == "arrested":
        return np.where((pk == 3)[None, :, None], froz, vib)
    if kind == "drift":
        return t * vel[0][None, None, :] * step + 0.05 * diff
    out = np.zeros((T, N, d))
    for code, src in enumerate([ball, diff, vib, froz]):
        out = np.where((pk == code)[None, :, None], src, out)
    return out


def pick_a2(ratio_arrays, u, lo_need=None, hi_need=None):
    """A squared cut-off factor inside a gap of the realised dr^2/sigma^2 values (relative gap >= 1e-6)."""
    vals = np.unique(np.concatenate([np.asarray(r, dtype=float).ravel() for r in ratio_arrays]))
    cands = []
    if vals[0] > 1e-12:
        cands.append(0.5 * vals[0])
    for v, w in zip(vals[:-1], vals[1:]):
        if w > v * (1 + 1e-6) + 1e-12:
            cands.append(0.5 * (v + w))
    cands.append(max(2.0 * vals[-1], 0.09))
    if lo_need is not None:
        cands = [c for c in cands if c > lo_need * (1 + 1e-6) + 1e-12]
    if hi_need is not None:
        cands = [c for c in cands if c < hi_need * (1 - 1e-6) - 1e-12]
    if not cands:
        return None
    return cands[min(int(u * len(cands)), len(cands) - 1)]


@st.composite
def selection_st(draw, T, N, modes):
    mode = draw(st.sampled_from(list(modes)))
    if mode == "none":
        return mode, None
    cnt = draw(st.integers(1, N))
    keys = draw(hnp.arrays(np.int16, (T, N), elements=st.integers(0, 999), fill=st.nothing()))
    if mode == "const":
        keys[:] = keys[0]
    order = np.argsort(keys, axis=1, kind="stable")
    mask = np.zeros((T, N), dtype=bool)
    if mode == "free":
        cnts = draw(st.lists(st.integers(1, N), min_size=T, max_size=T))
    else:
        cnts = [cnt] * T
    for t in range(T):
        mask[t, order[t, :cnts[t]]] = True
    return mode, mask


@st.composite
def neighbours_st(draw, frames, N):
    """Per frame, per particle: 1..min(N-1,5) distinct neighbours (0-based, never self), plus the row order of the
    file and the max_neighbors argument."""
    cmax = min(N - 1, 5)
    same = draw(st.integers(0, 4)) == 0
    keys = draw(hnp.arrays(np.int16, (frames, N, N), elements=st.integers(0, 999), fill=st.nothing()))
    cn = draw(hnp.arrays(np.int8, (frames, N), elements=st.integers(1, cmax), fill=st.nothing()))
    # batch-wide classes (EXTENSION_3 class 4): fixed-k lists (every particle of every frame has the same coordination
    # number -- the rectangular array a vectorised gather is exact for) next to ragged ones; in the ragged class
    # particles 0 and N-1 often carry the frame's largest cn (a guard that looks at the ends only)
    shape = draw(st.sampled_from(["ragged", "ragged", "ragged", "fixed-k", "ends-full"]))
    if shape == "fixed-k":
        cn[:] = draw(st.integers(1, cmax))
    elif shape == "ends-full":
        cn[:, 0] = cn.max(axis=1)
        cn[:, -1] = cn.max(axis=1)
    if same:
        keys[:] = keys[0]
        cn[:] = cn[0]
    lists = []
    for f in range(frames):
        fr = []
        for i in range(N):
            order = [int(j) for j in np.argsort(keys[f, i], kind="stable") if j != i]
            fr.append(order[:int(cn[f, i])])
        lists.append(fr)
    roworder = [list(draw(st.permutations(range(N)))) if draw(st.booleans()) else list(range(N)) for _ in range(frames)]
    maxcn = int(cn.max())
    maxn = draw(st.sampled_from([maxcn, maxcn + 1, 30, 100]))
    return {"lists": lists, "roworder": roworder, "max_neighbors": maxn, "same": bool(same), "shape": shape,
            "sep": draw(st.sampled_from([" ", "  ", "\t"]))}


def make_traj(case, mode=None):
    mode = mode or case["mode"]
    nbrs = case["nb"]["lists"] if case["nb"] is not None else None
    if nbrs is not None and len(nbrs) < len(case["pos"]):
        nbrs = nbrs + [None] * (len(case["pos"]) - len(nbrs))  # log variant: only frame 0 is ever used
    if mode == "x":
        return dynref.Trajectory(case["posw"], H=case["cell"]["H"], ppp=case["ppp"], nbrs=nbrs)
    return dynref.Trajectory(case["pos"], nbrs=nbrs)


def sigma_of(case):
    return np.array([case["sig"][int(t)] for t in case["types"]], dtype=float)


@st.composite
def case_st(draw, variant="lin", cage="no", modes=("xu", "x", "both"), cells=("ortho", "tri"), bounded=False,
            sq4=False, tmax=7, nmax=12, selmodes=("none", "none", "const", "equal", "free"), nmin=2):
    d = draw(st.sampled_from([2, 3]))
    cell = draw(cell_st(d, draw(st.sampled_from(list(cells))), lmin=2.0, lmax=30.0))
    if sq4 and draw(st.integers(0, 2)) == 0:  # cubic / square boxes give large shells of equal |q|
        cell["H"] = np.eye(d) * cell["H"][0, 0]
    if cell["kind"] == "tri" and draw(st.integers(0, 3)) == 0:
        # EXTENSION_2 class 10: a tilted cell after an axis permutation is no longer lower triangular; the wrapped-only
        # mode takes the minimum image from snapshot.hmatrix whatever its shape
        perm = list(draw(st.permutations(range(d))))
        if perm != sorted(perm):
            cell = dict(cell, H=cell["H"][perm][:, perm].copy(), lo=cell["lo"][perm].copy(), kind="general")
    H, lo = cell["H"], cell["lo"]
    Lmin = float(np.diag(H).min())
    K = draw(st.integers(1, 3))
    N = draw(st.integers(max(nmin, K), nmax))
    T = draw(st.integers(2, tmax)) if not sq4 else draw(st.sampled_from([2, 3, 4, 5, 6, 4, 5, 6]))
    types = draw(types_st(N, K))
    if draw(st.integers(0, 3)) == 0:
        sig = {k: 1.0 for k in range(1, K + 1)}
    else:
        sig = {k: draw(nice_float(0.5, 2.0)) for k in range(1, K + 1)}
    # Type labels and the diameters map: Dynamics looks every particle's label up in `diameters` (dynamics.py: Series.map),
    # so labels need not be 1..K (a dump of species 1 and 3 only) and the map may hold more keys than the trajectory
    # uses (one dictionary for a whole project), in any insertion order.  Seeded change C06-D indexed a table built from
    # the sorted keys by the rank among the labels present.
    labmode = draw(st.sampled_from(["1..K", "1..K", "gapped", "extra-keys", "gapped+extra"]))
    if "gapped" in labmode:
        newlab = sorted(draw(st.lists(st.integers(1, 9), min_size=K, max_size=K, unique=True)))
        types = np.array([newlab[int(t) - 1] for t in types], dtype=int)
        sig = {newlab[k - 1]: v for k, v in sig.items()}
    if "extra" in labmode:
        free = [k for k in range(1, 10) if k not in sig]
        for k in draw(st.lists(st.sampled_from(free), min_size=1, max_size=2, unique=True)):
            sig[k] = draw(st.sampled_from([0.37, 2.9, 5.0]))
    if labmode != "1..K":
        items = list(sig.items())
        sig = dict(items[i] for i in draw(st.permutations(range(len(items)))))
    mode = draw(st.sampled_from(list(modes)))
    ppp = draw(ppp_st(d))
    if bounded or (mode == "x" and not ppp.any()):
        ppp = np.ones(d, dtype=int)
    # trajectory
    # fill=st.nothing(): every element is drawn independently (the default shares one fill value between most
    # elements of an array, which would make most particles coincide / move identically)
    f0 = draw(hnp.arrays(np.float64, (N, d), fill=st.nothing(), elements=st.one_of(
        st.integers(0, 1023).map(lambda k: k / 1024.0), fl(0.0, 1.0, exclude_max=True))))
    kind = draw(st.sampled_from(KINDS))
    amp = draw(st.sampled_from(AMPS))
    vel = draw(hnp.arrays(np.float64, (N, d), elements=fl(-1.0, 1.0), fill=st.nothing()))
    noise = draw(hnp.arrays(np.float64, (T - 1, N, d), elements=fl(-1.0, 1.0), fill=st.nothing()))
    pk = draw(hnp.arrays(np.int8, (N,), elements=st.integers(0, 3), fill=st.nothing()))
    disp = build_disp(kind, T, vel, noise, pk, amp * Lmin)
    if bounded:
        # largest per-axis fractional displacement between any two frames: rescaled to a drawn target < 0.45
        fd = geom.frac_coords(disp.reshape(-1, d), H).reshape(T, N, d)
        m = max(np.abs(fd[e] - fd[o]).max() for o in range(T) for e in range(o + 1, T))
        target = draw(st.sampled_from([0.44, 0.44, 0.3, 0.1, 0.01]))
        if m > 0.0 and (m > 0.44 or draw(st.booleans())):
            disp = disp * (target / m)
    pos0 = lo + f0 @ H
    pos = [pos0 + disp[t] for t in range(T)]
    posw = []
    for p in pos:
        f = geom.frac_coords(p - lo, H)
        posw.append(lo + (f - np.floor(f) * ppp) @ H)
    # time axis
    t0 = draw(st.one_of(st.just(0), st.integers(0, 10**7)))
    if variant == "log":
        # increments of 0: the same timestep written twice (a restart) -- the log variant reports (ts_k - ts_0) dt
        incs = draw(st.lists(st.one_of(st.integers(1, 5000), st.integers(0, 3)), min_size=T - 1, max_size=T - 1))
        timesteps = [t0] + [t0 + int(s) for s in np.cumsum(incs)]
    else:
        interval = draw(st.integers(1, 5000))
        timesteps = [t0 + k * interval for k in range(T)]
    dtmd = draw(st.one_of(st.just(0.002), nice_float(0.0005, 0.05), nice_float(0.0005, 0.05)))
    # selection
    if variant == "log":
        selmode, mask = draw(selection_st(1, N, [m for m in selmodes if m in ("none", "const")] or ["none"]))
        cond = None if mask is None else mask[0]
    else:
        selmode, cond = draw(selection_st(T, N, selmodes))
    # neighbour file
    nb = None
    if N >= 2 and (cage == "yes" or (cage == "maybe" and draw(st.booleans()))):
        frames = T if (variant != "log" or draw(st.booleans())) else 1
        nb = draw(neighbours_st(frames, N))
    cal_type = draw(st.sampled_from(["slow", "fast"]))
    case = {"d": d, "cell": cell, "pos": pos, "posw": posw, "types": types, "timesteps": timesteps, "ppp": ppp, "K": K,
            "kind": kind, "amp": amp, "mode": mode, "dtmd": dtmd, "sig": sig, "labmode": labmode, "cal_type": cal_type, "cond": cond,
            "selmode": selmode, "nb": nb, "variant": variant, "bounded": bounded,
            "max_neighbors": nb["max_neighbors"] if nb else draw(st.sampled_from([30, 100])),
            "nbarg": draw(st.sampled_from(["", None])),
            "qconst": draw(st.one_of(st.just(2 * np.pi), nice_float(0.5, 15.0))),
            "outfile": draw(st.sampled_from([False, False, True])),
            "defaults": draw(st.sampled_from([False, False, True]))}
    # cut-off factor in a gap of the realised values
    sigma = sigma_of(case)
    u = draw(fl(0.0, 1.0, exclude_max=True))
    if sq4:
        lag = draw(st.integers(1, T - 1))
        trj = make_traj(case)
        rat = dynref.squared_ratios(trj, sigma, sel=cond, lags=[lag])
        lo_need = max(r.min() for r in rat)   # slow: every origin keeps >= 1 particle below the cut-off
        hi_need = min(r.max() for r in rat)   # fast: every origin keeps >= 1 particle above it
        a2 = None
        if cal_type == "fast":
            a2 = pick_a2(rat, u, hi_need=hi_need)
            if a2 is None:
                case["cal_type"] = "slow"
        if a2 is None:
            a2 = pick_a2(rat, u, lo_need=lo_need)
        numofq = draw(st.integers(2, 12 if d == 2 else 7))
        Lmax = float(np.diag(H).max())
        # t = (lag + delta) sampling intervals with |delta| <= 0.4, so that round() is unambiguous
        delta = draw(st.sampled_from([0.0, 0.0, -0.4, 0.4, -0.2, 0.2])) if draw(st.booleans()) else draw(fl(-0.4, 0.4))
        t = (lag + delta) * ((timesteps[1] - timesteps[0]) * dtmd)
        # the characteristic time as a user types it (a decimal literal read off a table: 0.3 for an interval of 0.1,
        # whose floating-point quotient is 2.9999999999999996) next to the exact product
        # ... or copied verbatim from the 't' column of relaxation(): (ts_lag - ts_0) * dt
        tform = draw(st.sampled_from(["product", "product", "decimal", "t-column"]))
        if tform == "decimal":
            t = round(t, 10)
        elif tform == "t-column":
            delta = 0.0
            t = (timesteps[lag] - timesteps[0]) * dtmd
        case.update(lag=lag, numofq=numofq, qrange=(numofq + 0.5) * np.pi / Lmax, tdelta=delta, tform=tform,
                    t=t, cond_float=draw(st.booleans()))
    else:
        modes_a = ["x", "xu"] if bounded else [mode]
        rat = []
        for m_ in modes_a:
            rat += dynref.squared_ratios(make_traj(case, m_), sigma, sel=cond, log=(variant == "log"))
        a2 = pick_a2(rat, u)
    case["a"] = float(np.sqrt(a2))
    return case


@st.composite
def crisp_st(draw):
    """Integer coordinates in a 16^d box, integer step vectors with perfect-square lengths, diameters in {1, 2},
    cut-off factor chosen so that (a sigma)^2 equals a realised squared displacement exactly."""
    d = draw(st.sampled_from([2, 3]))
    N = draw(st.integers(2, 8))
    T = draw(st.integers(2, 5))
    K = draw(st.integers(1, min(2, N)))
    types = draw(types_st(N, K))
    sig = {1: float(draw(st.sampled_from([1, 2])))}
    if K == 2:
        sig[2] = float(draw(st.sampled_from([1, 2])))
    nice2 = [(0, 0), (1, 0), (2, 0), (3, 0), (4, 0), (5, 0), (3, 4), (1, 1), (2, 1)]
    nice3 = [(0, 0, 0), (1, 0, 0), (2, 0, 0), (3, 0, 0), (3, 4, 0), (1, 2, 2), (2, 4, 4), (2, 3, 6), (1, 1, 0), (1, 1, 1)]
    table = nice2 if d == 2 else nice3
    steps = np.zeros((T - 1, N, d))
    for t in range(T - 1):
        for i in range(N):
            v = list(draw(st.sampled_from(table)))
            v = [v[j] for j in draw(st.permutations(range(d)))]
            sg = draw(st.lists(st.sampled_from([-1, 1]), min_size=d, max_size=d))
            steps[t, i] = [a_ * s_ for a_, s_ in zip(v, sg)]
    p0 = draw(hnp.arrays(np.int64, (N, d), elements=st.integers(0, 15), fill=st.nothing())).astype(float)
    pos = [p0]
    for t in range(T - 1):
        pos.append(pos[-1] + steps[t])
    cell = {"d": d, "kind": "ortho", "H": np.eye(d) * 16.0, "lo": np.zeros(d), "origin": "zero"}
    interval = draw(st.integers(1, 100))
    case = {"d": d, "cell": cell, "pos": pos, "posw": [np.mod(p, 16.0) for p in pos], "types": types,
            "timesteps": [k * interval for k in range(T)], "ppp": np.ones(d, dtype=int), "K": K, "kind": "crisp",
            "amp": 0.0, "mode": draw(st.sampled_from(["xu", "both"])), "dtmd": draw(st.sampled_from([0.5, 0.25, 0.002])),
            "sig": sig, "cal_type": draw(st.sampled_from(["slow", "fast"])), "cond": None, "selmode": "none", "nb": None,
            "variant": "lin", "bounded": False, "max_neighbors": 30, "nbarg": "", "qconst": 2 * np.pi,
            "numofq": draw(st.integers(2, 8 if d == 2 else 5)), "lag": 1, "cond_float": False,
            "argrep": draw(st.sampled_from([None, None, None] + ARGREPS))}
    if case["argrep"] in ("ppp-bool", "ppp-float", "int-box", "int-positions+box"):
        case["mode"] = draw(st.sampled_from(["x", "xu", "both"]))  # the wrapped-only mode reads ppp and the cell
    case["qrange"] = (case["numofq"] + 0.5) * np.pi / 16.0
    case["t"] = interval * case["dtmd"]
    # squared cut-off equal to a realised squared lag-1 displacement of some particle, expressed through its sigma
    sigma = sigma_of(case)
    d2 = (steps ** 2).sum(axis=2)
    opts = sorted({float(np.sqrt(v) / s) for v, s in zip(d2.ravel(), np.tile(sigma, T - 1))
                   if v > 0 and float(np.sqrt(v)).is_integer()})
    case["a"] = draw(st.sampled_from(opts)) if opts and draw(st.integers(0, 4)) > 0 else draw(st.sampled_from([0.5, 1.5, 2.5]))
    return case


# ----------------------------------------------------------------------------- process-wide state (EXTENSION_3 class 6)


def process_state():
    """What a call can leave behind without touching any array it returns: the process-wide settings and resources that
    LATER calls (of any routine) depend on.  {label: comparable value}."""
    import logging
    import random
    import warnings

    import pandas as pd

    st_ = np.random.get_state()
    try:
        nfd = len(os.listdir("/proc/self/fd"))
    except OSError:
        nfd = -1
    opts = {}
    for k in ("display.precision", "display.max_rows", "display.max_columns", "display.width", "display.float_format"):
        try:
            opts[k] = repr(pd.get_option(k))
        except Exception:  # noqa: BLE001 - option unknown to this pandas
            pass
    return {"np.geterr()": dict(np.geterr()), "np.geterrcall()": repr(np.geterrcall()),
            "np.get_printoptions()": sorted((k, repr(v)) for k, v in np.get_printoptions().items()),
            "len(warnings.filters)": len(warnings.filters), "os.getcwd()": os.getcwd(), "os.environ": dict(os.environ),
            "logging root (level, handlers, disable)": (logging.root.level, len(logging.root.handlers),
                                                        logging.root.manager.disable),
            "np.random global state": (st_[0], st_[1].tobytes(), st_[2], st_[3], st_[4]),
            "random.getstate()": random.getstate(), "pandas display options": opts,
            "open file descriptors": nfd}


@contextlib.contextmanager
def process_state_unchanged(what):
    """The calls made inside the block leave np.geterr(), the print options, the warnings filters, the working
    directory, the environment, the logging root, both global random generators, pandas' display options and the number
    of open file descriptors as they found them (on normal return; an exception propagates unchanged)."""
    before = process_state()
    yield
    now = process_state()
    for label, v in before.items():
        if now[label] != v:
            a, b = v, now[label]
            if isinstance(v, dict):
                keys = sorted(k for k in set(v) | set(b) if v.get(k) != b.get(k))[:4]
                a, b = {k: v.get(k) for k in keys}, {k: b.get(k) for k in keys}
            elif label.endswith("state") or label.endswith("getstate()"):
                a, b = "<state before>", "<another state: the global generator was used or reseeded>"
            # put the numeric settings back so that the other cases of this process are judged in a clean state
            np.seterr(**before["np.geterr()"])
            raise Violation(f"{what} left process-wide state changed: {label}: {a!r} -> {b!r}")



@contextlib.contextmanager
def lib_call(what="the call"):
    """Library calls run with the RuntimeWarnings silenced through the warnings filter (0/0 in alpha2 of a trajectory
    that does not move gives the NaN the formula implies), NOT through np.errstate: numpy's error handling stays at the
    process default inside the block, so that a np.seterr(...) the library leaves behind -- also the natural
    seterr(divide='ignore', invalid='ignore') -- is seen.  The process-wide state is compared inside the block, after
    the filter was installed and before it is removed."""
    import warnings

    with warnings.catch_warnings():
        warnings.simplefilter("ignore")
        with process_state_unchanged(what):
            yield


# ----------------------------------------------------------------------------- running the library


def write_neighbour_file(case):
    nb = case["nb"]
    sep = nb["sep"]
    fn = os.path.join(os.getcwd(), NBFILE)
    with open(fn, "w", encoding="utf-8") as f:
        for lists, order in zip(nb["lists"], nb["roworder"]):
            f.write("id     cn     neighborlist\n")
            for i in order:
                f.write(sep.join([str(i + 1), str(len(lists[i]))] + [str(j + 1) for j in lists[i]]) + "\n")
    return fn


# Representations of value-equal arguments (EXTENSION_2 class 3 / EXTENSION_3 class 2), probed on the unchanged tree
# with integer-valued data: all give the float64 results bit for bit.  Out of domain: float32 coordinates (the
# displacements are then formed in single precision: different numbers), ppp as a Python list (AttributeError in the
# wrapped-only mode).
ARGREPS = ["int-positions", "int-positions+box", "int-box", "types-float64", "types-int32", "ppp-bool", "ppp-float",
           "int-diameters", "numpy-int-keys"]
# documented defaults of Dynamics / LogDynamics (dynamics.py signature); a keyword whose value equals its default is
# left out in the class `defaults` (EXTENSION_2 class 1: the default itself is an option value)
CTOR_DEFAULTS = {"dt": 0.002, "a": 0.3, "cal_type": "slow", "neighborfile": "", "max_neighbors": 30}


def _represent_snapshots(snaps, rep):
    import dataclasses

    out = []
    for s_ in snaps.snapshots:
        f = {}
        if rep in ("int-positions", "int-positions+box"):
            f["positions"] = s_.positions.astype(np.int64)
        if rep in ("int-box", "int-positions+box"):
            f.update(hmatrix=s_.hmatrix.astype(np.int64), boxlength=s_.boxlength.astype(np.int64),
                     boxbounds=s_.boxbounds.astype(np.int64))
        if rep.startswith("types-"):
            f["particle_type"] = s_.particle_type.astype(np.dtype(rep.split("-")[1]))
        for k, v in f.items():
            if not np.array_equal(np.asarray(v, dtype=float), np.asarray(getattr(s_, k), dtype=float)):
                raise RuntimeError(f"harness: representation {rep} changes the values of {k}")
        out.append(dataclasses.replace(s_, **f))
    return type(snaps)(nsnapshots=len(out), snapshots=out)


def make_dynamics(case, mode=None, variant=None):
    mode = mode or case["mode"]
    variant = variant or case["variant"]
    base = {"cell": case["cell"], "types": case["types"], "timesteps": case["timesteps"]}
    xu = snapshots_from(dict(base, pos=case["pos"])) if mode in ("xu", "both") else None
    x = snapshots_from(dict(base, pos=case["posw"])) if mode in ("x", "both") else None
    rep = case.get("argrep")
    ppp = case["ppp"].copy()
    diam = dict(case["sig"])
    if rep:
        xu = _represent_snapshots(xu, rep) if xu is not None else None
        x = _represent_snapshots(x, rep) if x is not None else None
        if rep == "ppp-bool":
            ppp = ppp.astype(bool)
        elif rep == "ppp-float":
            ppp = ppp.astype(float)
        elif rep == "int-diameters":
            if any(float(v) != int(v) for v in diam.values()):
                raise RuntimeError("harness: int-diameters needs integer diameters")
            diam = {k: int(v) for k, v in diam.items()}
        elif rep == "numpy-int-keys":
            diam = {np.int64(k): v for k, v in diam.items()}
    nbfile = write_neighbour_file(case) if case["nb"] is not None else case["nbarg"]
    cls = LogDynamics if variant == "log" else Dynamics
    kw = dict(xu_snapshots=xu, x_snapshots=x, dt=case["dtmd"], ppp=ppp, diameters=diam,
              a=case["a"], cal_type=case["cal_type"], neighborfile=nbfile, max_neighbors=case["max_neighbors"])
    omitted = []
    if case.get("defaults"):
        for k, v in CTOR_DEFAULTS.items():
            if type(kw[k]) is type(v) and kw[k] == v:
                del kw[k]
                omitted.append(k)
        d = case["d"]
        if d == 3 and not np.any(ppp):          # default ppp = np.array([0, 0, 0])
            del kw["ppp"]
            omitted.append("ppp")
        present = {int(t) for t in np.asarray(case["types"]).tolist()}
        if present <= {1, 2} and all(float(diam[k]) == 1.0 for k in present):   # default diameters {1: 1.0, 2: 1.0}
            del kw["diameters"]
            omitted.append("diameters")
    with process_state_unchanged(cls.__name__ + "(...)"):
        dyn = cls(**kw)
    dyn.verif_omitted = omitted
    return dyn


def relaxation_kwargs(case, dyn, cond, outputfile=""):
    """Keywords of relaxation(); in the class `defaults` every keyword equal to its documented default is left out."""
    kw = {"qconst": case["qconst"], "condition": cond, "outputfile": outputfile}
    if case.get("defaults"):
        if kw["qconst"] == 2 * np.pi:
            del kw["qconst"]
            dyn.verif_omitted.append("qconst")
        if cond is None:
            del kw["condition"]
            dyn.verif_omitted.append("condition")
        if outputfile == "":
            del kw["outputfile"]
            dyn.verif_omitted.append("outputfile")
    return kw


def read_csv_table(name, path, cols):
    require(os.path.exists(path), f"{name}: outputfile {os.path.basename(path)} was not written")
    with open(path, encoding="utf-8") as fh:
        lines = [ln.strip() for ln in fh if ln.strip()]
    require(len(lines) >= 1 and lines[0].split(",") == list(cols), f"{name}: header {lines[:1]!r} != {','.join(cols)!r}")
    try:
        # pandas writes NaN (alpha2 of a trajectory that does not move: 0/0) as an empty field
        data = np.array([[float(x_) if x_ else np.nan for x_ in ln.split(",")] for ln in lines[1:]],
                        dtype=float).reshape(-1, len(cols))
    except ValueError as e:
        raise Violation(f"{name}: unparsable / ragged table ({e})")
    return data


def compare_csv(name, path, got, cols):
    """The CSV written on request holds the returned table (the statement's observation points list the returned
    frames; the file is their documented copy).  Text formatting is not promised: 1e-6 relative + 1e-9."""
    data = read_csv_table(name, path, cols)
    want = np.column_stack([got[c] for c in cols])
    require(data.shape == want.shape, f"{name}: file has shape {data.shape}, returned table {want.shape}")
    both_nan = np.isnan(data) & np.isnan(want)
    bad = ~both_nan & ~(np.abs(data - want) <= 1e-9 + 1e-6 * np.abs(want))
    require(not bad.any(), lambda: f"{name}: file differs from the returned table at {np.argwhere(bad)[0].tolist()}: "
                                   f"{data[bad][0]!r} vs {want[bad][0]!r}")


def table(name, df, T):
    columns(name, df, COLS)
    out = {}
    for c in COLS:
        v = arr(f"{name}[{c}]", col(name, df, c), shape=(T - 1,))
        require(v.dtype.kind in "fiu", f"{name}[{c}]: non-numeric dtype {v.dtype}")
        out[c] = v.astype(float)
    return out


def near(name, got, want, rtol, atol):
    if not (np.isfinite(got) and abs(got - want) <= atol + rtol * abs(want)):
        raise Violation(f"{name}: got {got!r}, want {want!r} (|diff| = {abs(got - want):.3e}, rtol={rtol}, atol={atol:.3e})")


def coordinate_error(case, mode):
    """Bound on the absolute error of one displacement component (see ASSUMPTIONS)."""
    P = np.array(case["posw"] if mode == "x" else case["pos"])
    span = np.abs(P[:, None] - P[None, :]).max()
    return 1e-13 * max(float(span), float(np.abs(case["cell"]["H"]).max()) if mode == "x" else 0.0, 1e-300)


def compare_rows(name, got, rows, tref, stats):
    """got: dict of column arrays from the library; rows: reference rows (dynref.relaxation)."""
    for k, (g, w) in enumerate(zip(got["t"], tref)):
        near(f"{name}: t[{k}]", g, w, 1e-12, 0.0)
    for k, row in enumerate(rows):
        tag = f"{name}: row {k} (lag {k + 1}, {row['count']} origins)"
        if row["tie"]:
            stats["tie_rows"] += 1
            continue
        near(f"{tag} isf", got["isf"][k], row["isf"], 1e-9, row["isf_atol"])
        near(f"{tag} msd", got["msd"][k], row["msd"], 1e-9, row["msd_atol"])
        q = got["Qt"][k]
        if not (np.isfinite(q) and row["Q_lo"] - 1e-12 <= q <= row["Q_hi"] + 1e-12):
            raise Violation(f"{tag} Qt: got {q!r}, allowed [{row['Q_lo']!r}, {row['Q_hi']!r}] ({row['namb']} ambiguous)")
        if row["namb"]:
            stats["amb_rows"] += 1
        if row["chi4"] is not None:
            near(f"{tag} X4_Qt", got["X4_Qt"][k], row["chi4"], 1e-9, 1e-11)
            stats["chi4_rows"] += 1
        else:
            stats["chi4_skipped"] += 1
        if row["alpha2_ok"]:
            near(f"{tag} alpha2", got["alpha2"][k], row["alpha2"], 1e-9,
                 row["alpha2_atol"] + 1e-12 * (1 + abs(row["alpha2"])))
            stats["alpha2_rows"] += 1
        else:
            stats["alpha2_skipped"] += 1


def new_stats():
    return {k: 0 for k in ("tie_rows", "amb_rows", "chi4_rows", "chi4_skipped", "alpha2_rows", "alpha2_skipped")}


def common_tags(case, rows, stats):
    T = len(case["pos"])
    N = len(case["types"])
    tags = [f"d{case['d']}", case["cell"]["kind"], "kind-" + case["kind"], "mode-" + case["mode"], case["cal_type"],
            f"K{case['K']}", f"T{T}" if T <= 7 else "T>7",
            "N=1" if N == 1 else ("N<=4" if N <= 4 else ("N5-8" if N <= 8 else ("N9-12" if N <= 12 else "N>12"))),
            "sel-" + case["selmode"],
            "nb-file" if case["nb"] is not None else "nb-none",
            "ppp-full" if np.all(case["ppp"]) else ("ppp-none" if not np.any(case["ppp"]) else "ppp-partial"),
            "sigma-unit" if all(v == 1.0 for v in case["sig"].values()) else "sigma-map",
            "labels-" + case.get("labmode", "1..K"),
            "t0-zero" if case["timesteps"][0] == 0 else "t0-nonzero"]
    if case["variant"] == "log" and len(set(case["timesteps"])) < len(case["timesteps"]):
        tags.append("log-timestep-repeated")
    if case["nb"] is not None:
        tags.append("nb-same-all-frames" if case["nb"]["same"] else "nb-per-frame")
        tags.append("nb-shuffled-rows" if any(o != sorted(o) for o in case["nb"]["roworder"]) else "nb-ordered-rows")
        tags += neighbour_tags(case["nb"]["lists"])
    if rows is not None:
        if any(r["Qvaries"] for r in rows):
            tags.append("Q-varies-between-origins")
        qs = [r["Q_lo"] for r in rows]
        tags.append("Q-all-0" if max(qs) == 0 else ("Q-all-1" if min(qs) == 1 else "Q-mixed"))
        if any(r["chi4"] not in (None, 0.0) and abs(r["chi4"]) > 1e-9 for r in rows):
            tags.append("chi4-nonzero")
    for k, v in stats.items():
        if v:
            tags.append(k.replace("_rows", "").replace("_", "-") + ">0")
    return tags


def neighbour_tags(lists):
    """Measured classes of a synthetic neighbour file (EXTENSION_1 class 2, EXTENSION_2 class 8)."""
    tags = []
    cns = [[len(nb) for nb in fr] for fr in lists]
    varies = any(len(set(c)) > 1 for c in cns)
    tags.append("cn-varies-within-a-frame" if varies else "cn-equal-for-all-particles")
    if varies and any(c[0] == max(c) and c[-1] == max(c) for c in cns if len(set(c)) > 1):
        tags.append("cn-ragged-with-full-ends")
    if varies and any(c[0] < max(c) for c in cns):
        tags.append("cn-particle0-below-max")
    directed = any(i not in fr[j] for fr in lists for i, nb in enumerate(fr) for j in nb)
    tags.append("nb-directed" if directed else "nb-symmetric")
    cmax = max(max(c) for c in cns)
    tags.append("cn-max<=5" if cmax <= 5 else ("cn-max<=31" if cmax <= 31 else "cn-max>31"))
    return tags


def is_nontrivial(case, rows):
    T = len(case["pos"])
    return bool((T >= 3 and any(r["Qvaries"] for r in rows)) or case["cond"] is not None or case["nb"] is not None)


# ----------------------------------------------------------------------------- checks


def frame_copy(df):
    """Bit-exact copy (column names + values) of a returned DataFrame, taken at the moment of return."""
    return list(df.columns), np.array(df.to_numpy(dtype=float), copy=True)


def frame_unchanged(df, snap):
    now = df.to_numpy(dtype=float)
    return list(df.columns) == snap[0] and now.shape == snap[1].shape and np.array_equal(now, snap[1], equal_nan=True)


def check_relaxation(case):
    T = len(case["pos"])
    log = case["variant"] == "log"
    sigma = sigma_of(case)
    err = coordinate_error(case, case["mode"])
    rows = dynref.relaxation(make_traj(case), sigma, case["qconst"], case["a"], case["cal_type"], sel=case["cond"],
                             log=log, err=err)
    tref = dynref.time_axis_log(case["timesteps"], case["dtmd"]) if log else \
        dynref.time_axis_linear(case["timesteps"], case["dtmd"])
    dyn = make_dynamics(case)
    cond = None if case["cond"] is None else case["cond"].copy()
    outname = "c06_relaxation.csv" if case.get("outfile") else ""
    with lib_call():
        df = dyn.relaxation(**relaxation_kwargs(case, dyn, cond, outname))
    stats = new_stats()
    got = table("relaxation", df, T)
    compare_rows("relaxation", got, rows, tref, stats)
    held = [("first call", df, frame_copy(df))]
    if outname:
        compare_csv("relaxation outputfile", os.path.join(os.getcwd(), outname), got, COLS)
    if cond is not None:
        require(np.array_equal(cond, case["cond"]), "relaxation modified the caller's condition array")
    if case.get("single_call"):  # long trajectories (size classes): one evaluation
        return _finish_relaxation(case, dyn, rows, stats, held, outname)
    # second call on the same object with the complementary way of saying 'everything' / a selection:
    # an all-True selection must reproduce the unselected result, and vice versa the object must not remember
    # the previous selection
    N = len(case["types"])
    if case["cond"] is None:
        alltrue = np.ones(N if log else (T, N), dtype=bool)
        with lib_call():
            df2 = dyn.relaxation(qconst=case["qconst"], condition=alltrue, outputfile="")
        compare_rows("relaxation(all-True selection, 2nd call)", table("relaxation 2nd", df2, T), rows, tref, new_stats())
    else:
        rows0 = dynref.relaxation(make_traj(case), sigma, case["qconst"], case["a"], case["cal_type"], sel=None,
                                  log=log, err=err)
        with lib_call():
            df2 = dyn.relaxation(qconst=case["qconst"], condition=None, outputfile="")
        compare_rows("relaxation(no selection, 2nd call after a selection)", table("relaxation 2nd", df2, T), rows0,
                     tref, new_stats())
    held.append(("second call", df2, frame_copy(df2)))
    # third call: the first arguments again (second evaluation of the same request on the same object)
    with lib_call():
        df3 = dyn.relaxation(qconst=case["qconst"], condition=None if case["cond"] is None else case["cond"].copy(),
                             outputfile="")
    compare_rows("relaxation(3rd call, arguments of the 1st)", table("relaxation 3rd", df3, T), rows, tref, new_stats())
    held.append(("third call", df3, frame_copy(df3)))
    return _finish_relaxation(case, dyn, rows, stats, held, outname)


def _finish_relaxation(case, dyn, rows, stats, held, outname):
    # results handed out earlier are still what they were (EXTENSION_3 class 3)
    for what, frame, snap in held:
        require(frame_unchanged(frame, snap), f"the DataFrame returned by the {what} of relaxation() changed after later calls")
    tags = common_tags(case, rows, stats)
    if outname:
        tags.append("outputfile-written")
    if case.get("defaults"):
        tags += ["default-omitted:" + k for k in sorted(set(dyn.verif_omitted))]
        tags.append("some-default-omitted" if dyn.verif_omitted else "no-default-applicable")
    return {"nontrivial": is_nontrivial(case, rows), "tags": tags,
            "extra": {"ambiguous_particles": sum(r["namb"] for r in rows), "rows_checked": len(rows) - stats["tie_rows"]}}


def check_wrap_equiv(case):
    """library(x only, ppp = 1) == library(xu only) for both classes; tolerances from the propagated coordinate error."""
    T = len(case["pos"])
    sigma = sigma_of(case)
    scale = max(float(np.abs(np.array(case["pos"])).max()), float(np.abs(case["cell"]["H"]).max()))
    err = 1e-13 * scale
    crossings = int(sum(np.any(np.abs(pw - p) > 1e-9) for pw, p in zip(case["posw"], case["pos"])))
    stats = new_stats()
    rows_lin = None
    for variant in ("lin", "log"):
        log = variant == "log"
        cond = case["cond"]
        if cond is not None and log:
            cond = cond[0]
        kw = dict(sigma=sigma, qconst=case["qconst"], a=case["a"], cal_type=case["cal_type"], sel=cond, log=log, err=err)
        rows = dynref.relaxation(make_traj(case, "xu"), **kw)
        rows_x = dynref.relaxation(make_traj(case, "x"), **kw)
        res = {}
        for mode in ("xu", "x"):
            dyn = make_dynamics(case, mode=mode, variant=variant)
            with lib_call():
                df = dyn.relaxation(qconst=case["qconst"], condition=None if cond is None else cond.copy(), outputfile="")
            res[mode] = table(f"{variant}/{mode}", df, T)
        for k, row in enumerate(rows):
            tag = f"wrapped vs unwrapped [{variant}] row {k}"
            near(f"{tag} t", res["x"]["t"][k], res["xu"]["t"][k], 1e-12, 0.0)
            near(f"{tag} isf", res["x"]["isf"][k], res["xu"]["isf"][k], 1e-9, row["isf_atol"])
            near(f"{tag} msd", res["x"]["msd"][k], res["xu"]["msd"][k], 1e-9, row["msd_atol"])
            if row["namb"] == 0 and rows_x[k]["namb"] == 0 and not rows_x[k]["tie"]:
                near(f"{tag} Qt", res["x"]["Qt"][k], res["xu"]["Qt"][k], 0.0, 1e-12)
                near(f"{tag} X4_Qt", res["x"]["X4_Qt"][k], res["xu"]["X4_Qt"][k], 1e-9, 1e-11)
                stats["chi4_rows"] += 1
            else:
                stats["amb_rows"] += 1
            if row["alpha2_ok"]:
                near(f"{tag} alpha2", res["x"]["alpha2"][k], res["xu"]["alpha2"][k], 1e-9,
                     row["alpha2_atol"] + 1e-12 * (1 + abs(row["alpha2"])))
                stats["alpha2_rows"] += 1
            else:
                stats["alpha2_skipped"] += 1
        if not log:
            rows_lin = rows
    tags = common_tags(case, rows_lin, stats)
    tags.append("frames-with-wrapped-particles>0" if crossings else "no-wrapping")
    fd = np.array([geom.frac_coords(p - case["pos"][0], case["cell"]["H"]) for p in case["pos"]])
    m = max(np.abs(fd[e] - fd[o]).max() for o in range(T) for e in range(o + 1, T))
    tags.append("maxfrac<0.1" if m < 0.1 else ("maxfrac<0.3" if m < 0.3 else "maxfrac>=0.3"))
    return {"nontrivial": bool(crossings and m > 0.01), "tags": tags, "extra": {"frames_with_crossings": crossings}}


def sq4_reference(case, rel=1e-9, err=None):
    mode = case["mode"]
    sq_pos = case["posw"] if mode in ("x", "both") else case["pos"]
    L = np.diag(case["cell"]["H"])
    if err is None:
        err = coordinate_error(case, mode)
    return dynref.sq4(make_traj(case), sq_pos, L, sigma_of(case), case["a"], case["cal_type"], case["lag"],
                      case["numofq"], sel=case["cond"], err=err, rel=rel)


def run_sq4(case, dyn=None, outputfile=""):
    dyn = dyn or make_dynamics(case)
    cond = case["cond"]
    if cond is not None:
        cond = cond.astype(float) if case["cond_float"] else cond.copy()
    kw = {"t": case["t"], "qrange": case["qrange"], "condition": cond, "outputfile": outputfile}
    if case.get("defaults"):
        if cond is None:
            del kw["condition"]
        if outputfile == "":
            del kw["outputfile"]
    return dyn.sq4(**kw)


def compare_sq4(name, out, ref):
    columns(name, out, ["q", "Sq"])
    q = arr(f"{name}[q]", col(name, out, "q"), shape=ref["q"].shape).astype(float)
    s = arr(f"{name}[Sq]", col(name, out, "Sq"), shape=ref["Sq"].shape).astype(float)
    for k in range(len(q)):
        near(f"{name}: q[{k}]", q[k], ref["q"][k], 1e-12, 1e-8)
        near(f"{name}: Sq[{k}] at q={ref['q'][k]:.6f}", s[k], ref["Sq"][k], 1e-9, 1e-8)


def check_sq4(case):
    ref = sq4_reference(case)
    stats = new_stats()
    tags = common_tags(case, None, stats)
    tags += [f"lag{case['lag']}", "cond-float" if case["cond"] is not None and case["cond_float"] else "cond-bool/none",
             "cubic" if len(set(np.diag(case["cell"]["H"]))) == 1 else "unequal-edges",
             "nvec<=8" if ref["nvec"] <= 8 else ("nvec<=40" if ref["nvec"] <= 40 else "nvec>40"),
             "t-exact" if case.get("tdelta", 0.0) == 0.0 else ("t-below" if case["tdelta"] < 0 else "t-above"),
             f"origins{min(len(ref['nsub']), 4)}"]
    if ref["empty"]:
        tags.append("skipped-empty-subset")
        return {"nontrivial": False, "tags": tags}
    if ref["namb"] or ref["q_ambiguous"]:
        tags.append("skipped-amb" if ref["namb"] else "skipped-q-amb")
        return {"nontrivial": False, "tags": tags}
    outname = "c06_sq4.csv" if case.get("outfile") else ""
    dyn = make_dynamics(case)
    with lib_call():
        out = run_sq4(case, dyn, outname)
    compare_sq4("sq4", out, ref)
    keep = frame_copy(out)
    if outname:
        tags.append("outputfile-written")
        compare_csv("sq4 outputfile", os.path.join(os.getcwd(), outname),
                    {c: np.asarray(out[c], dtype=float) for c in ("q", "Sq")}, ["q", "Sq"])
    if not case.get("single_call"):
        # second evaluation on the same object (EXTENSION_2 class 6) and the frame handed out first stays what it was
        with lib_call():
            out2 = run_sq4(case, dyn)
        compare_sq4("sq4 (2nd call on the same object)", out2, ref)
        require(frame_unchanged(out, keep), "the DataFrame returned by the first sq4() changed after a second call")
    tags.append("t-" + case.get("tform", "product"))
    N = len(case["types"])
    partial = any(0 < n < N for n in ref["nsub"])
    tags.append("subset-partial" if partial else "subset-all")
    if len(set(ref["nsub"])) > 1:
        tags.append("subset-size-varies")
    return {"nontrivial": bool(partial and len(ref["nsub"]) >= 2) or (partial and case["cond"] is not None),
            "tags": tags, "extra": {"wave_vectors": ref["nvec"]}}


def check_crisp(case):
    """Everything is exact in binary: the reference decides with zero margin."""
    T = len(case["pos"])
    sigma = sigma_of(case)
    tags = [f"d{case['d']}", case["cal_type"], "mode-" + case["mode"], f"T{T}",
            "argrep-" + (case.get("argrep") or "none")]
    on_threshold = 0
    for variant in ("lin", "log"):
        log = variant == "log"
        rows = dynref.relaxation(make_traj(case), sigma, case["qconst"], case["a"], case["cal_type"], log=log,
                                 err=0.0, rel=0.0)
        tref = dynref.time_axis_linear(case["timesteps"], case["dtmd"])
        dyn = make_dynamics(case, variant=variant)
        with lib_call():
            df = dyn.relaxation(qconst=case["qconst"], condition=None, outputfile="")
        compare_rows(f"crisp relaxation [{variant}]", table(f"crisp {variant}", df, T), rows, tref, new_stats())
    # exact ties present?
    trj = make_traj(case)
    for o in range(T - 1):
        vec, _ = trj.pair(o, o + 1)
        on_threshold += int(np.sum((vec ** 2).sum(axis=1) == (case["a"] * sigma) ** 2))
    tags.append("on-threshold>0" if on_threshold else "on-threshold=0")
    ref = sq4_reference(case, rel=0.0, err=0.0)
    if ref["empty"] or ref["q_ambiguous"]:
        tags.append("sq4-skipped-empty")
    else:
        with lib_call():
            out = run_sq4(case, make_dynamics(case, variant="lin"))
        compare_sq4("crisp sq4", out, ref)
        tags.append("sq4-checked")
        if on_threshold:
            tags.append("sq4-checked+on-threshold")
    return {"nontrivial": on_threshold > 0, "tags": tags, "extra": {"particles_exactly_on_threshold": on_threshold}}


def describe(case):
    out = {"d": case["d"], "cell": case["cell"]["kind"], "H": np.round(case["cell"]["H"], 4).tolist(),
           "N": int(len(case["types"])), "T": len(case["pos"]), "K": case["K"], "kind": case["kind"],
           "mode": case["mode"], "variant": case["variant"], "cal_type": case["cal_type"], "a": case["a"],
           "sig": case["sig"], "qconst": case["qconst"], "dt": case["dtmd"], "timesteps": case["timesteps"],
           "ppp": case["ppp"].tolist(), "sel": case["selmode"], "nb": None if case["nb"] is None else case["nb"]["lists"][0],
           "pos0": np.round(case["pos"][0][:3], 4).tolist(), "pos1": np.round(case["pos"][1][:3], 4).tolist()}
    if "lag" in case:
        out.update(lag=case["lag"], t=case["t"], qrange=case["qrange"])
    return out



# ----------------------------------------------------------------------------- size boundaries (EXTENSION_3 class 1)

# around every block size B: B-1, B, B+1, 2B-1, 2B+1, B + B//3
SIZE_BLOCKS = {
    "N": {False: [32, 50, 64, 100, 128, 200, 256], True: [500, 512, 1000, 1024]},      # particles (relaxation)
    "T": {False: [32, 50, 64], True: [100, 128, 200]},                                    # frames (relaxation)
    "cn": {False: [32, 64], True: [100, 128]},                                            # neighbours per particle
    "sq4-N": {False: [32, 50, 64, 100, 128, 200, 256], True: [500, 512, 1000]},          # particles (sq4)
    "sq4-T": {False: [32, 50, 64], True: [100, 128, 200, 256]},                           # frames / origins (sq4)
}


def boundary_values(blocks):
    return sorted({v for B in blocks for v in (B - 1, B, B + 1, 2 * B - 1, 2 * B + 1, B + B // 3)})


@st.composite
def size_spec_st(draw, deep=False):
    """A small picklable SPEC; the trajectory is built in the check from the drawn seed (the entropy of hundreds of
    coordinates does not fit Hypothesis' buffer).  One size axis sits on a block boundary, the others stay small."""
    # the joint class (axis, d, K, boundary value) comes from numpy's generator seeded with two Hypothesis-drawn
    # integers: uniform and independent over the grid (st.sampled_from draws came out clumped: Hypothesis repeats and
    # mutates blocks of earlier draws)
    seed, offset = draw(st.integers(0, 2 ** 32 - 1)), draw(st.integers(0, 2 ** 16))
    rng = np.random.default_rng([seed, offset, 6])
    axis = str(rng.choice(["N", "N", "N", "T", "T", "cn", "sq4-N", "sq4-N", "sq4-T", "sq4-M"]))
    sq4 = axis.startswith("sq4")
    d = int(rng.choice([2, 3]))
    K = int(rng.integers(1, 4))
    spec = {"axis": axis, "deep": bool(deep), "d": d, "K": K, "seed": seed, "offset": offset,
            "cell": draw(cell_st(d, "ortho" if sq4 else draw(st.sampled_from(["ortho", "tri"])), lmin=2.0, lmax=30.0)),
            "kind": draw(st.sampled_from(KINDS)), "amp": draw(st.sampled_from(AMPS)),
            "mode": draw(st.sampled_from(["xu", "x", "both"])), "cal_type": draw(st.sampled_from(["slow", "fast"])),
            "variant": "lin" if sq4 else draw(st.sampled_from(["lin", "lin", "log"])),
            "selmode": draw(st.sampled_from(["none", "none", "const", "equal", "free"])),
            "nb": draw(st.sampled_from([False, True])), "nbshape": draw(st.sampled_from(["ragged", "ragged", "fixed-k", "ends-full"])),
            "unit_sigma": draw(st.booleans()), "interval": draw(st.sampled_from([1, 50, 100, 1000, 2500])),
            "dtmd": draw(st.sampled_from([0.002, 0.002, 0.005, 0.001, 0.01])),
            "qconst": draw(st.sampled_from([2 * np.pi, 2 * np.pi, 7.25, 3.5])),
            "aq": draw(st.sampled_from([0.1, 0.3, 0.5, 0.5, 0.7, 0.9])),   # quantile of the realised ratios for a^2
            "ppp": draw(ppp_st(d)), "outfile": draw(st.sampled_from([False, False, True])),
            "defaults": draw(st.sampled_from([False, False, True])), "cmax": 5, "size": None}
    def pick(values):
        return values[int(rng.integers(len(values)))]

    if axis in ("N", "sq4-N"):
        spec["size"] = spec["N"] = pick(boundary_values(SIZE_BLOCKS[axis][deep]))
        spec["T"] = draw(st.integers(2, 4))
        if draw(st.booleans()):
            # every particle counts (no selection; sq4: the cut-off beyond / below every realised displacement of the
            # sampled pairs): the size of the evaluated subset itself sits on the boundary
            spec["selmode"] = "none"
            if axis == "sq4-N":
                spec["aq"] = "all"
    elif axis in ("T", "sq4-T"):
        spec["size"] = spec["T"] = pick(boundary_values(SIZE_BLOCKS[axis][deep]))
        spec["N"] = draw(st.integers(max(2, K), 6))
        if axis == "T" and spec["nb"]:
            spec["nb"] = draw(st.integers(0, 2)) == 0
    elif axis == "cn":
        spec["size"] = spec["cmax"] = pick(boundary_values(SIZE_BLOCKS["cn"][deep]))
        spec["N"] = spec["cmax"] + draw(st.integers(1, 8))
        spec["T"] = draw(st.integers(2, 3))
        spec["nb"] = True
    else:  # sq4-M: many wave vectors
        spec["N"] = draw(st.integers(max(2, K), 8))
        spec["T"] = draw(st.integers(2, 4))
    if spec["mode"] == "x" and not spec["ppp"].any():
        spec["ppp"] = np.ones(d, dtype=int)
    if spec["variant"] == "log" and spec["selmode"] not in ("none", "const"):
        spec["selmode"] = "const"
    if sq4:
        spec["lag"] = draw(st.integers(1, min(3, spec["T"] - 1)))
        if axis == "sq4-M":
            top = ((20, 40) if d == 2 else (10, 14)) if not deep else ((40, 100) if d == 2 else (14, 24))
            spec["numofq"] = spec["size"] = draw(st.integers(*top))
        else:
            spec["numofq"] = draw(st.integers(2, 6 if d == 2 else 4))
        spec["tdelta"] = draw(st.sampled_from([0.0, 0.0, -0.4, 0.4, 0.25]))
        spec["tform"] = draw(st.sampled_from(["product", "decimal"]))
        spec["cond_float"] = draw(st.booleans())
    return spec


def build_size_case(spec):
    """The full case dict (same keys as case_st) of a size spec; deterministic in the spec."""
    rng = np.random.default_rng([spec["seed"], spec.get("offset", 0)])
    d, K, N, T = spec["d"], spec["K"], spec["N"], spec["T"]
    cell = spec["cell"]
    H, lo = cell["H"], cell["lo"]
    Lmin = float(np.diag(H).min())
    types = rng.permutation(np.concatenate([np.arange(1, K + 1), rng.integers(1, K + 1, N - K)]).astype(int))
    sig = {k: 1.0 for k in range(1, K + 1)} if spec["unit_sigma"] else \
        {k: float(rng.choice([0.5, 0.75, 0.8, 1.0, 1.25, 1.4, 2.0])) for k in range(1, K + 1)}
    f0 = rng.random((N, d))
    vel = rng.uniform(-1.0, 1.0, (N, d))
    noise = rng.uniform(-1.0, 1.0, (T - 1, N, d))
    pk = rng.integers(0, 4, N)
    step = spec["amp"] * Lmin * min(1.0, 8.0 / T)  # long trajectories: the same overall excursion
    disp = build_disp(spec["kind"], T, vel, noise, pk, step)
    pos0 = lo + f0 @ H
    pos = [pos0 + disp[t] for t in range(T)]
    ppp = np.asarray(spec["ppp"])
    posw = []
    for p_ in pos:
        f = geom.frac_coords(p_ - lo, H)
        posw.append(lo + (f - np.floor(f) * ppp) @ H)
    timesteps = [1000 + k * spec["interval"] for k in range(T)]
    if spec["variant"] == "log":
        timesteps = [1000] + (1000 + np.cumsum(rng.integers(1, 4000, T - 1))).tolist()
    # selection
    selmode, cond = spec["selmode"], None
    if selmode != "none":
        rows_ = 1 if spec["variant"] == "log" else T
        keys = rng.random((rows_, N))
        if selmode == "const":
            keys[:] = keys[0]
        cnts = rng.integers(1, N + 1, rows_) if selmode == "free" else np.full(rows_, rng.integers(1, N + 1))
        cond = np.zeros((rows_, N), dtype=bool)
        for r_ in range(rows_):
            cond[r_, np.argsort(keys[r_])[:cnts[r_]]] = True
        if spec["variant"] == "log":
            cond = cond[0]
    # neighbour file
    nb = None
    if spec["nb"] and N >= 2:
        cmax = min(N - 1, spec["cmax"])
        frames = T
        lists = []
        for _ in range(frames):
            if spec["nbshape"] == "fixed-k":
                cn = np.full(N, cmax)
            else:
                cn = rng.integers(1, cmax + 1, N)
                cn[rng.integers(0, N)] = cmax
                if spec["nbshape"] == "ends-full":
                    cn[0] = cn[-1] = cmax
            fr = []
            for i in range(N):
                others = np.delete(np.arange(N), i)
                fr.append([int(j) for j in rng.permutation(others)[:cn[i]]])
            lists.append(fr)
        maxcn = max(len(l_) for fr in lists for l_ in fr)
        nb = {"lists": lists, "roworder": [list(range(N)) if rng.random() < 0.5 else rng.permutation(N).tolist()
                                           for _ in range(frames)],
              "max_neighbors": int(rng.choice([maxcn, maxcn + 1, max(maxcn, 30), max(maxcn, 200)])), "same": False,
              "shape": spec["nbshape"], "sep": " "}
    case = {"d": d, "cell": cell, "pos": pos, "posw": posw, "types": types, "timesteps": timesteps, "ppp": ppp, "K": K,
            "kind": spec["kind"], "amp": spec["amp"], "mode": spec["mode"], "dtmd": spec["dtmd"], "sig": sig,
            "labmode": "1..K", "cal_type": spec["cal_type"], "cond": cond, "selmode": selmode, "nb": nb,
            "variant": spec["variant"], "bounded": False, "max_neighbors": nb["max_neighbors"] if nb else 30,
            "nbarg": "", "qconst": spec["qconst"], "outfile": spec["outfile"], "defaults": spec["defaults"],
            "single_call": spec["axis"] in ("T", "sq4-T")}
    # cut-off factor: a quantile of the realised squared ratios of a few frame pairs.  It need not sit in a gap: a
    # particle within 1e-9 of the threshold is treated as ambiguous by the reference (interval rule).
    sigma = sigma_of(case)
    trj = make_traj(case)
    lag = spec.get("lag", 1)
    pairs = [(o, o + lag) for o in sorted({0, (T - 1 - lag) // 2, T - 1 - lag})]
    rat = np.concatenate([(trj.pair(o, e)[0] ** 2).sum(axis=1) / sigma ** 2 for o, e in pairs])
    rat = np.sort(rat)
    if spec["aq"] == "all":
        a2 = 2.0 * rat[-1] + 0.09 if spec["cal_type"] == "slow" else 0.5 * rat[0]
    else:
        k_ = min(int(spec["aq"] * len(rat)), len(rat) - 2)
        a2 = 0.5 * (rat[k_] + rat[k_ + 1]) if len(rat) >= 2 else 2.0 * rat[0] + 0.09
    if not a2 > 0.0:
        a2 = 0.09
    case["a"] = float(np.sqrt(a2))
    if spec["axis"].startswith("sq4"):
        Lmax = float(np.diag(H).max())
        t = (lag + spec["tdelta"]) * ((timesteps[1] - timesteps[0]) * spec["dtmd"])
        if spec["tform"] == "decimal":
            t = round(t, 10)
        case.update(lag=lag, numofq=spec["numofq"], qrange=(spec["numofq"] + 0.5) * np.pi / Lmax, tdelta=spec["tdelta"],
                    tform=spec["tform"], t=t, cond_float=spec["cond_float"])
        if case["cond"] is not None and case["cond"].ndim == 1:
            case["cond"] = np.tile(case["cond"], (T, 1))
    return case


def check_size(spec):
    case = build_size_case(spec)
    axis = spec["axis"]
    info = check_sq4(case) if axis.startswith("sq4") else check_relaxation(case)
    keep = ("d2", "d3", "ortho", "tri", "mode-", "slow", "fast", "K", "sel-", "nb-file", "nb-none", "cn-", "skipped",
            "outputfile", "some-default", "subset-", "amb", "tie", "kind-", "origins", "t-")
    info["tags"] = [t for t in info["tags"] if t.startswith(keep)]
    info["tags"] += [f"size-axis-{axis}", "variant-" + spec["variant"]]
    # EXTENSION_3 class 5 (measured): counts that an int8 / uint8 accumulator cannot hold -- particles entering one
    # average, origins entering one lag
    nsel = len(case["types"]) if case["cond"] is None else int(np.asarray(case["cond"]).reshape(-1, len(case["types"]))[0].sum())
    if nsel >= 130:
        info["tags"].append("particles-per-average>=260" if nsel >= 260 else "particles-per-average>=130")
    norig = len(case["pos"]) - 1 - (spec.get("lag", 1) - 1) if spec["variant"] == "lin" else 1
    if norig >= 128:
        info["tags"].append("origins-per-lag>=260" if norig >= 260 else "origins-per-lag>=128")
    if spec["aq"] == "all":
        info["tags"].append("sq4-subset=N-at-origin-0")
    if axis == "sq4-M":
        nv = (info.get("extra") or {}).get("wave_vectors", 0)
        info["tags"].append("sq4-vectors" + ("<=100" if nv <= 100 else ("<=400" if nv <= 400 else ">400")))
    else:
        info["tags"].append(f"size-boundary-{axis}={spec['size']}")
        b = [b_ for b_ in SIZE_BLOCKS[axis][spec["deep"]]
             if spec["size"] in (b_ - 1, b_, b_ + 1, 2 * b_ - 1, 2 * b_ + 1, b_ + b_ // 3)][0]
        s_ = spec["size"]
        info["tags"].append("size-" + ("B-1" if s_ == b - 1 else "B" if s_ == b else "B+1" if s_ == b + 1 else
                                       "2B-1" if s_ == 2 * b - 1 else "2B+1" if s_ == 2 * b + 1 else "B+B//3"))
    skipped = any(t.startswith("skipped") for t in info["tags"])
    info["nontrivial"] = not skipped
    return info


def describe_size(spec):
    out = {k: (v.tolist() if isinstance(v, np.ndarray) else v) for k, v in spec.items() if k != "cell"}
    out["H"] = np.round(spec["cell"]["H"], 4).tolist()
    return out


# ----------------------------------------------------------------------------- call histories on live objects


@st.composite
def history_st(draw):
    """Two trajectories of the SAME shapes (N, T, d, K) with different coordinates -> two Dynamics objects; a drawn
    sequence of calls on them.  EXTENSION_3 class 3 / EXTENSION_2 class 6."""
    base = draw(case_st("lin", cage="maybe", cells=("ortho",), sq4=True, tmax=5, nmax=8))
    # the second trajectory: same particles, box, times and neighbour file, every displacement scaled (other numbers in
    # arrays of exactly the same shapes).  The cut-off was placed for the first one: threshold decisions of the second
    # fall under the reference's interval rule where they come close, empty mobile subsets skip that sq4 call.
    fac = draw(st.sampled_from([0.37, 0.6, 1.7, -1.0]))
    other = dict(base)
    p0 = base["pos"][0]
    other["pos"] = [p0 + fac * (p_ - p0) for p_ in base["pos"]]
    H, lo, ppp = base["cell"]["H"], base["cell"]["lo"], base["ppp"]
    other["posw"] = []
    for p_ in other["pos"]:
        f = geom.frac_coords(p_ - lo, H)
        other["posw"].append(lo + (f - np.floor(f) * ppp) @ H)
    ops = draw(st.lists(st.tuples(st.sampled_from([0, 0, 1]),
                                  st.sampled_from(["relax", "relax", "relax-qconst", "relax-nosel", "sq4", "sq4", "sq4-lag"])),
                        min_size=3, max_size=7))
    return {"a": base, "b": other, "ops": ops}


def check_history(case):
    subs = [case["a"], case["b"]]
    dyns = [make_dynamics(c_) for c_ in subs]
    held = []
    counts = {"relax": 0, "sq4": 0}
    used = set()
    for k, (which, op) in enumerate(case["ops"]):
        c_ = subs[which]
        dyn = dyns[which]
        used.add(which)
        T = len(c_["pos"])
        sigma = sigma_of(c_)
        err = coordinate_error(c_, c_["mode"])
        what = f"call {k + 1} ({op} on object {'AB'[which]})"
        if op.startswith("relax"):
            qc = c_["qconst"] if op != "relax-qconst" else 0.5 * c_["qconst"] + 1.0
            cond = None if op == "relax-nosel" or c_["cond"] is None else c_["cond"].copy()
            rows = dynref.relaxation(make_traj(c_), sigma, qc, c_["a"], c_["cal_type"], sel=cond, log=False, err=err)
            with lib_call():
                df = dyn.relaxation(qconst=qc, condition=cond, outputfile="")
            compare_rows(what, table(what, df, T), rows, dynref.time_axis_linear(c_["timesteps"], c_["dtmd"]), new_stats())
            counts["relax"] += 1
        else:
            cc = dict(c_)
            if op == "sq4-lag" and T >= 3:
                cc["lag"] = 1 + c_["lag"] % (T - 1)
                cc["t"] = cc["lag"] * ((c_["timesteps"][1] - c_["timesteps"][0]) * c_["dtmd"])
            ref = sq4_reference(cc)
            if ref["empty"] or ref["namb"] or ref["q_ambiguous"]:
                continue
            with lib_call():
                df = run_sq4(cc, dyn)
            compare_sq4(what, df, ref)
            counts["sq4"] += 1
        held.append((what, df, frame_copy(df)))
    for what, df, snap in held:
        require(frame_unchanged(df, snap),
                lambda what=what: f"the DataFrame returned by {what} changed after it was handed out "
                                  f"({len(held)} results alive)")
    shapes = [h[2][1].shape for h in held]
    tags = [f"results-held={min(len(held), 7)}", f"objects-used={len(used)}"]
    if len(shapes) > len(set(shapes)):
        tags.append("held-results-of-equal-shape")
    if counts["relax"] and counts["sq4"]:
        tags.append("relaxation-and-sq4-interleaved")
    tags += ["nb-file" if case["a"]["nb"] is not None else "nb-none", "mode-" + case["a"]["mode"]]
    return {"nontrivial": len(held) >= 3, "tags": tags, "extra": {"calls": len(held)}}


def describe_history(case):
    return {"ops": case["ops"], "a": describe(case["a"]), "b": describe(case["b"])}


NT = "non-trivial as in RULE"
FACETS = [
    Facet("linear", case_st("lin", cage="no", nmin=1), check_relaxation, quick=900, thorough=40000, describe=describe,
          shards_quick=3, rule="Dynamics.relaxation, no neighbour file; " + NT),
    Facet("linear_cage", case_st("lin", cage="yes"), check_relaxation, quick=600, thorough=30000, describe=describe,
          shards_quick=3, rule="Dynamics.relaxation with a multi-frame neighbour file; " + NT),
    Facet("log", case_st("log", cage="maybe"), check_relaxation, quick=600, thorough=30000, describe=describe,
          shards_quick=2, rule="LogDynamics.relaxation, uneven timesteps, optional neighbour file / 1-D selection; " + NT),
    Facet("wrap_equiv", case_st("lin", cage="maybe", modes=("xu",), bounded=True), check_wrap_equiv, quick=400,
          thorough=20000, describe=describe, shards_quick=2,
          rule="wrapped + ppp=1 vs unwrapped, |fractional displacement| < 0.45 between any two frames; non-trivial = "
               "some particle is actually wrapped in some frame and the largest fractional displacement > 0.01"),
    Facet("sq4", case_st("lin", cage="maybe", cells=("ortho",), sq4=True, tmax=6, nmax=10), check_sq4, quick=500,
          thorough=20000, describe=describe, shards_quick=3,
          rule="Dynamics.sq4 vs Fourier-sum reference; non-trivial = the mobile subset is a proper subset at some origin "
               "and (>= 2 origins or a selection)"),
    Facet("crisp", crisp_st(), check_crisp, quick=400, thorough=20000, describe=describe,
          rule="exact arithmetic; non-trivial = some particle's squared lag-1 displacement equals the squared cut-off"),
    Facet("size_boundaries", size_spec_st(), check_size, quick=800, quick_budget_s=150.0, thorough=8000, describe=describe_size, shards_quick=4,
          rule="one size axis on a block boundary B-1, B, B+1, 2B-1, 2B+1, B+B//3: particles N = 31..513 (relaxation, "
               "both classes, with / without a neighbour file, and sq4), frames T = 31..129 (relaxation: all T(T-1)/2 "
               "frame pairs; sq4: all origins), neighbours per particle up to 31..129 (cage-relative), or sq4 with "
               "hundreds of wave vectors; same references and tolerances as linear / log / sq4; non-trivial = compared"),
    Facet("size_boundaries_deep", size_spec_st(deep=True), check_size, quick=0, thorough=700, describe=describe_size,
          rule="thorough tier only: N around 500, 512, 1000, 1024; T around 100, 128, 200 (up to 401 frames = 80 200 "
               "frame pairs); cn around 100, 128; sq4 with numofq up to 100 (2D) / 24 (3D)"),
    Facet("call_history", history_st(), check_history, quick=300, thorough=8000, describe=describe_history,
          shards_quick=2,
          rule="two Dynamics objects on same-shaped trajectories; 3..7 drawn calls (relaxation with / without the "
               "selection, another qconst; sq4 at the drawn and another lag) alternating between them; every result "
               "equals its reference at call time and ALL returned DataFrames, kept alive, are bit-identical to their "
               "copies at the end; non-trivial = at least three results held"),
]
