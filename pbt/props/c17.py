"""C17 — local order parameters equal their definitions: pair entropy S2, tetrahedral order, nematic tensor /
scalar order, gyration-tensor shape descriptors.  Reference-model differentials (pbt/ref/localorder.py) plus
constructions with known values (perfect tetrahedron, diamond lattices in cubic / orthorhombic / rhombohedral cells)
and metamorphic relations (tetrahedral: non-neighbours moved away).

CLAUSES (statement + quantifier split into axes; facet -> deciding assertion; class tags measured in
evidence/C17.json coverage.facets.<facet>.classes)

 S2  a  S2_i = -(d-1) pi rho T[(g ln g - g + 1) r^(d-1)]     s2_*: close("S2 ...") vs ref.s2_from_g (own trapezoid rule,
        (trapezoid rule on the bin centres)                    prefactor from d); d2/d3, bins1, bins<10 .. bins>100, rdelta-int
     b  g = Gaussian-smeared per-particle pair distribution    close("particle g ...") on the returned and the saved g
                                                               (savegr / nogr, file / nofile, 2nd-savegr)
     c  built from minimum-image distances                     ortho / tri / axes-permuted (upper-triangular H) /
                                                               int64 cell; mask-full / mask-partial; inside / outside;
                                                               rmax<=L/2 and rmax>L/2 (one image per pair either way);
                                                               sheared: every frame its own cell
     d  pair-type widths [type_i, type_j]                      sigma-sym / sigma-asym, K1..K3; labels-1..K and
                                                               labels-gap (labels {1,3} in a 3x3 matrix, matrix larger
                                                               than the labels used); types-per-frame (labels permuted
                                                               between frames, same composition); sigma-int
     e  all configurations x bin settings                      N2-3 / N4-9 / N10+ (s2_large: N 40..150 or 6..12 frames),
                                                               gas / cluster / lattice, defaults (rdelta, ndelta and in
                                                               3D ppp not passed: 500 bins of 0.02)
     f  every call describes the contents at call time         again-repeat / again-inplace / again-alternate
 TET a  depends only on the four nearest neighbours            tetra_far_move (one non-neighbour / all non-neighbours
                                                               moved farther away: value unchanged to 1e-12) and the
                                                               differential (full sort with tie margin)
     b  = 1 - 3/32 sum_{j<k} (cos psi_jk + 1/3)^2              tetra_generic / tetra_sheared / tetra_large /
                                                               tetra_intrepr: close("tetrahedral order")
     c  exactly one for perfect tetrahedral coordination       tetra_perfect: cluster, diamond (rx x ry x rz
                                                               conventional cells, unequal edges), diamond-primitive
                                                               (rhombohedral cell, tilt of either sign): |q - 1| <= 1e-12
     d  all 3D configurations with N >= 5                      N5 (forced in 1/4), N6-9, N10+, N17-40, tetra_large N
                                                               130..420 (N>256) inhomogeneous (droplet+vapour, slab,
                                                               void); masks; cells as S2 c; frames 1..3; ts-repeat/back
 NEM a  Q = (d u u^T - I)/2                                    nematic: close("Q tensor") on NematicOrder.QIJ + side file
     b  neighbour-averaged when a list is given                raw / list-directed / list-symmetric / list-fixed-k /
                                                               list-repeats (a neighbour listed twice), cn-varies-within-
                                                               frame, has-cn0, Nmax-exact / plus1 / default / trunc,
                                                               white-space variants of the list file
     c  scalar order sqrt(d/(d-1) tr Q^2)                      close("scalar order sqrt...")  (eigvals=False)
     d  = twice the largest eigenvalue in 2D                   close("scalar order 2 lambda_max") (eigvals=True) and
                                                               close("2D: trace scalar equals ...") between the two
     e  all unit-vector fields and neighbour lists             random / aligned / crisp / axes-int (vectors (+-1,0),
                                                               (0,+-1) as int64) fields, N1 .. N6+ (nematic_large: N
                                                               50..300, up to 10 frames), frames1..3, call sequences
                                                               on one object (extra-calls, nb-switch-same-object),
                                                               positions-given / positions-None
 GYR a  descriptors = documented functions of the              gyration: close(name) for every descriptor of the 3D
        eigenvalues of the centred second-moment tensor        (five) and the 2D (three) list
     b  all point clouds with N >= 2, 2D / 3D                  N2, N3-9, N10+, N100+, N>1024; d2/d3; offset; degenerate-
                                                               eigenvalues; repr-int64 / repr-strided / repr-fortran
 Not asserted (see ASSUMPTIONS): particles at discontinuities, particles whose g vanishes in a bin, 3D nematic order
 (the library asserts ndim == 2), clouds with R_g = 0, single-precision input.
"""
from __future__ import annotations

import math
import os
import warnings

import numpy as np
from hypothesis import strategies as st
from hypothesis.extra import numpy as hnp

from .. import gen
from ..gen import cell_st, fl, nice_float, ppp_st, types_st
from ..harness import Facet, Violation
from ..ref import geom
from ..ref import localorder as ref
from ..util import arr, close, require

from PyMatterSim.static.geometric import q8_tetrahedral
from PyMatterSim.static.nematic import NematicOrder
from PyMatterSim.static.pairentropy import S2
from PyMatterSim.static.shape import gyration_tensor

# coincident particles / empty neighbour shells make the library (and numpy) emit RuntimeWarnings; those
# particles are excluded by the oracle, the warnings are noise in the worker's stderr
warnings.filterwarnings("ignore", category=RuntimeWarning)

RULE = ("S2: d{2,3} x cell{ortho,tri,axis-permuted tri,int64 ortho} x K 1..3 x width matrices [type_i,type_j] "
        "(symmetric and not, float and int64, labels 1..K or a subset of 1..M with an M x M matrix) x labels constant or "
        "permuted between frames x bins 1..60, 100..500 and the defaults x r_max below and above half the shortest edge "
        "x periodicity masks x N 2..28 (s2_large: 40..150) x frames 1..2 (sheared class: 2..3 frames with per-frame "
        "tilt; s2_large: up to 12) x repeated calls {same object, positions updated in place, two objects alternately}, "
        "non-trivial = some asserted particle has >= 2 contributing neighbours; "
        "tetrahedral: 3D N>=5 (N=5 forced in 1/4 of the cases, N up to 40; tetra_large 130..420 inhomogeneous; "
        "tetra_intrepr int64 coordinates and cell) x cells x masks x frames, non-trivial = >= 1 particle "
        "with an unambiguous 4-nearest set and a value != 1; perfect tetrahedron / diamond (cubic, orthorhombic and "
        "rhombohedral supercells): value 1; far-move: one or all non-neighbours moved away; nematic: angles x frames 1..3 "
        "x optional neighbour file {directed, symmetric, fixed-k, repeated entries} x Nmax {exact, +1, default, "
        "truncating} x sequences of 2..4 calls on one or several objects, non-trivial = N >= 2 and not all orientations "
        "parallel; gyration: clouds N >= 2 in 2D/3D (N up to 3000, float64 / int64 / strided / Fortran-ordered), "
        "non-trivial = R_g > 0 and N >= 3")
ASSUMPTIONS = [
    "S2: pairs with minimum-image distance >= r_max (centre of the last bin) do not contribute to g (implementation "
    "convention encoded by the golden tests); particles with a pair within 1e-9 r_max of that limit are not asserted",
    "S2: particles whose smeared g is exactly 0 in some bin (no neighbour inside r_max, or Gaussian underflow) are "
    "excluded and counted: 0 ln 0 is not defined by the statement; widths are >= r_max/35 so underflow cannot occur "
    "when a neighbour exists",
    "S2: one image per pair - the minimum image by fractional rounding (contract of C02) - also when r_max exceeds half "
    "the shortest box edge (the statement builds g from minimum-image distances); rho = N / prod(boxlength), cells are "
    "lower-triangular or an axis permutation of one, so that prod(boxlength) is the cell volume",
    "S2: type labels index the width matrix as sigmas[label_i - 1, label_j - 1]; the matrix covers every label used and "
    "may be larger; labels of a frame are those of that frame (swap moves keep the composition)",
    "tetrahedral: particles whose 4th and 5th nearest distances agree to 1e-9, that have a coincident partner or a "
    "half-cell minimum-image tie among the relevant candidates are not asserted (counted as ambiguous)",
    "nematic: the library supports d = 2 only (assert ndim == 2); a particle listed twice among the neighbours counts "
    "twice (the sum runs over the N_i listed entries); Nmax below a coordination number keeps the first Nmax entries "
    "(the reader's documented truncation, C05)",
    "gyration: all points coincident (R_g = 0) is outside the domain; fractal dimension asserted when |log10 R_g| > 1e-3; "
    "float64 or int64 coordinates (readers deliver float64; single precision is not generated)",
]
MANIFEST = {
    "text": ("Generated-input differential of the four local-order routines against independent numpy references "
             "written from the definitions: S2.particle_s2 (per-particle Gaussian-smeared g and -(d-1) pi rho "
             "trapezoid integral; 2D/3D, 1-3 species with [type_i,type_j] widths, labels 1..K or a subset of a larger "
             "matrix, labels permuted between frames, 1-500 bins and the defaults, r_max below and above half the box, "
             "orthogonal, triclinic, axis-permuted and int64 cells, periodicity masks, N 2-150, 1-12 frames; also the "
             "saved g and .npy files), q8_tetrahedral "
             "(1 - 3/32 sum over the four nearest; N >= 5 including exactly 5, up to 420 inhomogeneous particles, int64 "
             "coordinates; rotated/scaled perfect tetrahedra and diamond lattices in cubic, orthorhombic and rhombohedral "
             "supercells give 1 to 1e-12; moving one or all non-neighbours farther away changes nothing), both also on "
             "sheared trajectories (2-3 frames whose tilt factors differ while the edge lengths stay equal, every "
             "frame against the oracle with its own cell matrix) and on repeated calls (same S2 object twice, "
             "positions overwritten in place between calls, two S2 objects used alternately), "
             "NematicOrder.tensor (Q = (d u u^T - I)/2, neighbour average from synthetic list files - directed, "
             "symmetric, fixed-k, repeated entries, truncating Nmax, several white-space layouts -, trace and "
             "eigenvalue scalars, their equality in 2D, .npy side files, sequences of 2-4 calls on one object) and "
             "gyration_tensor (2D/3D descriptors from the eigenvalues of the centred second-moment tensor; N 2-3000, "
             "float64 / int64 / strided / Fortran-ordered input)."),
    "note": ("Trusted base: pbt/ref/localorder.py and pbt/ref/geom.py (numpy). Not asserted: particles at "
             "discontinuities (r_ij within 1e-9 of r_max, 4th/5th-neighbour ties, half-cell image ties), particles "
             "whose g vanishes in a bin, 3D nematic order (rejected by the library), degenerate clouds with R_g = 0, "
             "single-precision coordinates."),
    "technique": ("property-based testing (Hypothesis): reference-model differential, plus constructed inputs with "
                  "known value and a metamorphic relation (tetrahedral), file/return round trip (nematic, S2)"),
}

# =============================================================================== shared generators


def dense(shape, elements, dtype=np.float64):
    """hnp.arrays without the sparse 'fill' shortcut: every entry is drawn, so points rarely coincide."""
    return hnp.arrays(dtype, shape, elements=elements, fill=st.nothing())


_LAT = {
    3: {"sc": [(0, 0, 0)], "bcc": [(0, 0, 0), (.5, .5, .5)],
        "fcc": [(0, 0, 0), (.5, .5, 0), (.5, 0, .5), (0, .5, .5)],
        "diamond": [tuple(r) for r in ref.DIAMOND_BASIS]},
    2: {"square": [(0, 0)], "centred": [(0, 0), (.5, .5)]},
}


@st.composite
def fracs_st(draw, d, N, exact_ok):
    """Fractional coordinates in [0,1)^d, N rows.  kinds: gas / cluster / lattice-jit / lattice-exact."""
    kind = draw(st.sampled_from(["gas", "gas", "cluster", "lattice-jit", "lattice-exact" if exact_ok else "lattice-jit"]))
    if kind == "gas":
        return draw(dense((N, d), fl(0.0, 1.0, exclude_max=True))), kind
    if kind == "cluster":
        nc = draw(st.integers(1, 3))
        centres = draw(dense((nc, d), fl(0.0, 1.0)))
        which = draw(st.lists(st.integers(0, nc - 1), min_size=N, max_size=N))
        width = draw(st.sampled_from([0.03, 0.08, 0.15]))
        return (centres[which] + width * draw(dense((N, d), fl(-1.0, 1.0)))) % 1.0, kind
    name = draw(st.sampled_from(sorted(_LAT[d])))
    basis = np.array(_LAT[d][name], dtype=float)
    reps = [draw(st.integers(1, 3)) for _ in range(d)]
    cells = np.array(np.meshgrid(*[np.arange(r, dtype=float) for r in reps], indexing="ij")).reshape(d, -1).T
    f = (cells[:, None, :] + basis[None, :, :]).reshape(-1, d) / np.array(reps, dtype=float)
    f = f[list(draw(st.permutations(range(len(f)))))][:N]
    if len(f) < N:
        f = np.vstack([f, draw(dense((N - len(f), d), fl(0.0, 1.0, exclude_max=True)))])
    if kind == "lattice-jit":
        f = (f + draw(st.sampled_from([1e-3, 1e-2, 5e-2])) * draw(dense((N, d), fl(-1.0, 1.0)))) % 1.0
    return f, f"{kind}:{name}"


@st.composite
def sheared_cells(draw, cell, F):
    """Per-frame cells of a sheared trajectory: same edge lengths and origin, tilt factors drawn per frame
    (|tilt| <= half an edge), at least one frame differing from frame 0."""
    d = cell["d"]
    L = np.diag(cell["H"]).copy()
    cells = []
    for _ in range(F):
        H = np.diag(L)
        t = lambda edge: draw(st.one_of(st.just(0.0), nice_float(-0.5, 0.5))) * edge  # noqa: E731
        H[1, 0] = t(L[0])
        if d == 3:
            H[2, 0] = t(L[0])
            H[2, 1] = t(L[1])
        cells.append({"d": d, "kind": "tri", "H": H, "lo": cell["lo"].copy(), "origin": cell["origin"]})
    if all(np.array_equal(c["H"], cells[0]["H"]) for c in cells[1:]):
        k = draw(st.integers(1, F - 1))
        cells[k]["H"][1, 0] += (0.25 if cells[k]["H"][1, 0] <= 0 else -0.25) * L[0]
    return cells


def _schedule(kind, F):
    """Timestep labels of the frames.  The routines of this property never read them: 'one result row per frame, in
    the order of the Snapshots object' whatever the labels say (repeated / decreasing labels occur after restarts)."""
    if kind == "repeat":
        return [100 * (k // 2) for k in range(F)]
    if kind == "back":
        return [100 * (F - k) for k in range(F)]
    return [100 * k for k in range(F)]


def _permute_cell(c, p):
    """Cell after the axis permutation p: row / column a of the new matrix is row / column p[a] of the old one.  A
    lower-triangular (LAMMPS) matrix becomes a general one (upper-triangular for the reversal)."""
    p = list(p)
    return {"d": c["d"], "kind": "general", "H": c["H"][np.ix_(p, p)].copy(), "lo": np.asarray(c["lo"])[p].copy(),
            "origin": c["origin"]}


def permute_axes(case, p):
    """The same physical configuration with its Cartesian axes renamed: positions, cell(s), mask."""
    p = list(p)
    out = dict(case)
    out["cell"] = _permute_cell(case["cell"], p)
    if "cells" in case:
        out["cells"] = [_permute_cell(c, p) for c in case["cells"]]
    out["pos"] = [np.ascontiguousarray(q[:, p]) for q in case["pos"]]
    out["ppp"] = np.asarray(case["ppp"])[p].copy()
    out["axes"] = p
    return out


@st.composite
def config_case(draw, d, N, cell, K=1, frames=(1, 2), shear=False, swap_types=False, permute=True):
    F = draw(st.integers(*frames))
    cells = draw(sheared_cells(cell, F)) if shear else [cell] * F
    affine = shear and draw(st.booleans())
    fr, kinds = [], []
    for k in range(F):
        if affine and k > 0:  # the same particles carried along by the shear, plus a small random motion
            f, kind = (fr[0] + 0.02 * draw(dense((N, d), fl(-1.0, 1.0)))) % 1.0, "affine"
        else:
            f, kind = draw(fracs_st(d, N, exact_ok=cell["kind"] == "ortho" and not shear))
        fr.append(f)
        kinds.append(kind)
    ppp = draw(ppp_st(d, True))
    if shear and draw(st.booleans()):
        ppp = np.ones(d, dtype=int)
    offs = np.zeros((N, d))
    if draw(st.booleans()):
        offs = draw(hnp.arrays(np.int64, (N, d), elements=st.integers(-1, 1))).astype(float) * ppp
    sched = draw(st.sampled_from(["regular", "regular", "repeat", "back"])) if F >= 2 else "regular"
    case = {"d": d, "cell": cells[0], "pos": [c["lo"] + (f + offs) @ c["H"] for f, c in zip(fr, cells)],
            "types": draw(types_st(N, K)), "ppp": ppp, "K": K, "kind": "+".join(kinds),
            "timesteps": _schedule(sched, F), "schedule": sched, "outside": bool(np.any(offs))}
    if shear:
        case["cells"] = cells
    if swap_types and K >= 2 and F >= 2 and draw(st.booleans()):
        # swap Monte Carlo / fix atom/swap: the labels move between particles, the composition stays
        case["types_f"] = [case["types"]] + [case["types"][list(draw(st.permutations(range(N))))] for _ in range(F - 1)]
    if permute and cells[0]["kind"] == "tri" and draw(st.integers(0, 3)) == 0:
        p = draw(st.permutations(range(d)))
        if list(p) != list(range(d)):
            case = permute_axes(case, p)
    return case


def cells_of(case):
    return case.get("cells") or [case["cell"]] * len(case["pos"])


def types_of(case, f):
    tf = case.get("types_f")
    return case["types"] if tf is None else tf[f]


def _int_snapshot(cell, pos, types, ts):
    """Hand-built snapshot the way a caller assembles one from integers: int64 positions, edge lengths, bounds and
    cell matrix (np.diag([10, 10, 10]))."""
    from PyMatterSim.reader.reader_utils import SingleSnapshot

    L = np.rint(np.diag(cell["H"])).astype(np.int64)
    lo = np.rint(cell["lo"]).astype(np.int64)
    return SingleSnapshot(timestep=int(ts), nparticle=len(pos), particle_type=np.array(types, dtype=int),
                          positions=np.array(pos, dtype=np.int64), boxlength=L.copy(),
                          boxbounds=np.stack([lo, lo + L], axis=1), realbounds=None, hmatrix=np.diag(L))


def snaps_of(case, pos=None):
    """Snapshots with each frame's own cell (hmatrix / boxbounds / realbounds) and its own type labels."""
    from PyMatterSim.reader.reader_utils import Snapshots

    pos = case["pos"] if pos is None else pos
    make = _int_snapshot if case.get("intrepr") else gen.snapshot_from
    snaps = [make(c, p, types_of(case, k), ts)
             for k, (c, p, ts) in enumerate(zip(cells_of(case), pos, case["timesteps"]))]
    return Snapshots(nsnapshots=len(snaps), snapshots=snaps)


def shear_tags(case):
    if "cells" not in case:
        return []
    H0 = case["cells"][0]["H"]
    out = ["sheared", "affine" if "affine" in case["kind"] else "independent-frames"]
    if not np.any(H0 - np.diag(np.diag(H0))):
        out.append("frame0-untilted")
    return out


def cell_tags(case):
    """Cell kind of the case (measured on the matrices actually passed) and the parity of its tilt factors."""
    out = []
    Hs = [c["H"] for c in cells_of(case)]
    if case.get("intrepr"):
        out.append("cell-int64")
    if any(np.any(np.triu(H, 1)) for H in Hs):
        out.append("axes-permuted")
    offd = np.concatenate([(H - np.diag(np.diag(H))).ravel() for H in Hs])
    if np.any(offd < 0):
        out.append("tilt-neg")
    if np.any(offd > 0):
        out.append("tilt-pos")
    if len(case["pos"]) >= 2:
        out.append("ts-" + case.get("schedule", "regular"))
    return out


# =============================================================================== S2


@st.composite
def s2_case(draw, d=None, shear=False, nrange=(2, 28), frames=None):
    if d is None:
        d = draw(st.sampled_from([2, 3]))
    N = draw(st.integers(nrange[0], min(20, nrange[1]) if shear else nrange[1]))
    K = draw(st.integers(1, min(3, N)))
    rho = draw(st.sampled_from([0.6, 1.0, 2.0]))
    Lm = (N / rho) ** (1.0 / d)
    cell = draw(cell_st(d, "tri" if shear else "any", lmin=0.75 * Lm, lmax=1.3 * Lm, origin="any"))
    if frames is None:
        frames = (2, 3) if shear else (1, 2)
    case = draw(config_case(d, N, cell, K=K, frames=frames, shear=shear, swap_types=True))
    # labels: 1..K, or K labels out of 1..M (a ternary matrix used for a trajectory that holds two of the species)
    M = K
    if draw(st.integers(0, 3)) == 0:
        M = K + draw(st.integers(1, 2))
        labels = np.array(draw(st.lists(st.integers(1, M), min_size=K, max_size=K, unique=True)), dtype=int)
        case["types"] = labels[case["types"] - 1]
        if "types_f" in case:
            case["types_f"] = [labels[t - 1] for t in case["types_f"]]
    case["M"] = M
    Lmin = float(np.diag(cells_of(case)[0]["H"]).min())
    defaults = N <= 28 and draw(st.sampled_from([False] * 11 + [True]))
    if defaults:
        # rdelta = 0.02, ndelta = 500 (and ppp in 3D) are not passed: r_max = 9.99, far beyond half of these boxes.
        # With widths >= 0.29 the Gaussians of the pairs that exist (r_ij <= a few box lengths) still reach every bin
        # without underflow (9.99 / 0.29 < 35 standard deviations).
        ndelta, rdelta = 500, 0.02
        rmax = (ndelta - 0.5) * rdelta
        slo, shi = 0.29, 0.5
    else:
        # minimal bin counts (1..9) in about one case out of six (tied to N: Hypothesis over-samples small selectors),
        # production-size bin counts (100..500) in one out of eight
        if N % 6 == 0:
            ndelta = draw(st.integers(1, 9))   # one bin: the trapezoid rule has no panel, S2 = 0
        elif N % 8 == 1:
            ndelta = draw(st.integers(100, 500))
        else:
            ndelta = draw(st.integers(10, 60))
        # r_max relative to half the shortest edge: mostly inside, sometimes beyond (still one image per pair)
        frac = draw(st.sampled_from([0.65, 0.8, 0.97, 0.97, 1.3]))
        rmax = frac * Lmin / 2.0
        rdelta = rmax / (ndelta - 0.5)
        slo, shi = max(0.05, rmax / 35.0), max(0.3, rmax / 35.0 + 0.05)
    sig = draw(dense((M, M), nice_float(slo, shi)))
    if draw(st.booleans()):
        sig = np.triu(sig) + np.triu(sig, 1).T
    case.update(sigmas=sig, rdelta=rdelta, ndelta=ndelta, defaults=defaults, savegr=draw(st.booleans()),
                outputfile=draw(st.sampled_from(["", "s2out"])),
                again=draw(st.sampled_from(["no", "no", "no", "repeat", "inplace", "inplace", "alternate"])),
                again_savegr=draw(st.booleans()), again_file=draw(st.sampled_from(["", "s2out", "s2again"])))
    return case


@st.composite
def s2_int_case(draw):
    """Argument representation: everything a caller can write down as integers is int64 - lattice-site coordinates,
    edge lengths, bounds, the cell matrix np.diag(L), the width matrix, the bin width.  The values are ordinary."""
    d = draw(st.sampled_from([2, 3]))
    L = np.array([draw(st.integers(4, 14 if d == 2 else 8)) for _ in range(d)], dtype=np.int64)
    nsites = int(np.prod(L))
    N = draw(st.integers(2, min(24, nsites)))
    F = draw(st.integers(1, 2))
    K = draw(st.integers(1, min(3, N)))
    lo = np.array([draw(st.integers(-20, 20)) for _ in range(d)], dtype=np.int64)
    ppp = draw(ppp_st(d, True))
    outside = draw(st.booleans())
    pos = []
    for _ in range(F):
        sites = draw(st.lists(st.integers(0, nsites - 1), min_size=N, max_size=N, unique=True))
        p = np.stack(np.unravel_index(np.array(sites, dtype=np.int64), tuple(int(x) for x in L)), axis=1).astype(np.int64)
        if outside:
            p = p + draw(hnp.arrays(np.int64, (N, d), elements=st.integers(-1, 1))) * ppp * L
        pos.append(lo + p)
    cell = {"d": d, "kind": "ortho", "H": np.diag(L).astype(float), "lo": lo.astype(float), "origin": "arbitrary"}
    rdelta = draw(st.sampled_from([1, 1, 2, 0.5, 0.75]))
    ndelta = draw(st.integers(2, 8))
    sig = draw(dense((K, K), st.integers(1, 2), dtype=np.int64))
    sched = draw(st.sampled_from(["regular", "repeat", "back"])) if F == 2 else "regular"
    return {"d": d, "cell": cell, "pos": pos, "types": draw(types_st(N, K)), "ppp": ppp, "K": K, "M": K,
            "kind": "int-lattice", "timesteps": _schedule(sched, F), "schedule": sched, "outside": outside,
            "intrepr": True, "sigmas": sig, "rdelta": rdelta, "ndelta": ndelta, "defaults": False,
            "savegr": draw(st.booleans()), "outputfile": draw(st.sampled_from(["", "s2out"])),
            "again": draw(st.sampled_from(["no", "no", "repeat", "inplace", "alternate"])),
            "again_savegr": draw(st.booleans()), "again_file": draw(st.sampled_from(["", "s2again"]))}


def same(name, got, want):
    """Bit-for-bit equality of a saved file and the returned array (nan == nan)."""
    want = np.asarray(want)
    g = arr(name, got, shape=want.shape)
    if not np.array_equal(g, want, equal_nan=True):
        bad = np.argwhere(~((g == want) | (np.isnan(g) & np.isnan(want))))
        ti = tuple(int(i) for i in bad[0])
        raise Violation(f"{name}: {len(bad)}/{g.size} entries differ; first at {ti}: got {g[ti]!r}, want {want[ti]!r}")


def _rm(*names):
    for n in names:
        if os.path.exists(n):
            os.remove(n)


def _s2_compare(case, pos, s2, gout, label, cnt):
    """Compare one particle_s2 result with the oracle for the positions `pos` (each frame with its own cell and its
    own type labels)."""
    d, ppp, nb = case["d"], np.asarray(case["ppp"]), case["ndelta"]
    N = len(case["types"])
    for f, cell in enumerate(cells_of(case)):
        H = cell["H"]
        g, amb, r, rho = ref.particle_g(np.asarray(pos[f], dtype=float), types_of(case, f), H, ppp,
                                        np.asarray(case["sigmas"], dtype=float), float(case["rdelta"]), nb)
        want = ref.s2_from_g(g, r, rho, d)
        scale = ref.s2_scale(r, rho, d)
        ok = ~amb & np.isfinite(want) & (g.min(axis=1) > 1e-290)
        cnt["ambiguous"] += int(amb.sum())
        cnt["excluded"] += int((~amb & ~ok).sum())
        cnt["asserted"] += int(ok.sum())
        if ok.any():
            close(f"S2 {label}frame {f}", s2[f][ok], want[ok], rtol=1e-9, atol=1e-12 * scale)
            if gout is not None:
                close(f"particle g {label}frame {f}", gout[f][ok], g[ok], rtol=1e-9, atol=1e-200)
            # contributing neighbours (for the non-trivial rule)
            ii, jj, _, dist, _ = geom.pair_table(np.asarray(pos[f], dtype=float), H, ppp)
            c = np.bincount(ii[dist < r[-1]], minlength=N)
            cnt["rich"] = cnt["rich"] or bool(np.any(c[ok] >= 2))


def _call_s2(obj, savegr, of, F, N, nb, label=""):
    """One particle_s2 call: shapes, the attribute handed to spatial_corr / time_corr, the saved files."""
    _rm(of + ".npy", "particle_gr." + of + ".npy")
    out = obj.particle_s2(savegr=savegr, outputfile=of)
    if savegr:
        require(isinstance(out, tuple) and len(out) == 2, lambda: f"savegr=True must return (s2, g), got {type(out)}")
        s2, gout = out
        gout = arr(f"particle g{label}", gout, shape=(F, N, nb))
    else:
        s2, gout = out, None
    s2 = arr(f"particle_s2{label}", s2, shape=(F, N))
    same(f"S2.s2_results (input of spatial_corr / time_corr){label}", obj.s2_results, s2)
    if of:
        require(os.path.exists(of + ".npy"), f"outputfile given but no .npy written{label}")
        same(f"saved S2 file{label}", np.load(of + ".npy"), s2)
        if savegr:
            require(os.path.exists("particle_gr." + of + ".npy"), f"savegr with outputfile: g file missing{label}")
            same(f"saved g file{label}", np.load("particle_gr." + of + ".npy"), gout)
    return s2, gout


def check_s2(case):
    d, ppp = case["d"], np.asarray(case["ppp"])
    F, N, nb = len(case["pos"]), len(case["types"]), case["ndelta"]
    snaps = snaps_of(case)
    of = case["outputfile"]
    defaults = bool(case.get("defaults"))

    def make(sn):
        if defaults:  # rdelta = 0.02, ndelta = 500 from the signature; ppp too where the default has the right length
            if d == 3 and ppp.all():
                return S2(sn, case["sigmas"].copy())
            return S2(sn, case["sigmas"].copy(), ppp.copy())
        return S2(snapshots=sn, sigmas=case["sigmas"].copy(), ppp=ppp.copy(), rdelta=case["rdelta"], ndelta=nb)

    obj = make(snaps)
    s2, gout = _call_s2(obj, case["savegr"], of, F, N, nb)
    cnt = {"asserted": 0, "excluded": 0, "ambiguous": 0, "rich": False}
    _s2_compare(case, case["pos"], s2, gout, "", cnt)

    # state carried between calls: every call must describe the contents at call time
    again = case.get("again", "no")
    sg2, of2 = bool(case.get("again_savegr", False)), case.get("again_file", "")
    sink = {"asserted": 0, "excluded": 0, "ambiguous": 0, "rich": False}
    rev = [p[::-1].copy() for p in case["pos"]]  # same particles' positions handed to the types in reverse order
    if again == "repeat":
        r2, g2 = _call_s2(obj, sg2, of2, F, N, nb, " (second call)")
        _s2_compare(case, case["pos"], r2, g2, "second call on the same object, ", sink)
    elif again == "inplace":
        for sn, p in zip(snaps.snapshots, rev):
            sn.positions[...] = p
        r2, g2 = _call_s2(obj, sg2, of2, F, N, nb, " (after in-place update)")
        _s2_compare(case, rev, r2, g2, "after positions were updated in place, ", sink)
    elif again == "alternate":
        objb = make(snaps_of(case, rev))
        rb, gb = _call_s2(objb, sg2, of2, F, N, nb, " (object B)")
        _s2_compare(case, rev, rb, gb, "second S2 object, ", sink)
        ra, ga = _call_s2(obj, sg2, of2, F, N, nb, " (object A again)")
        _s2_compare(case, case["pos"], ra, ga, "first S2 object after the second was used, ", sink)

    Lmin = float(min(np.diag(c["H"]).min() for c in cells_of(case)))
    rmax = (nb - 0.5) * float(case["rdelta"])
    labels = np.unique(np.concatenate([types_of(case, f) for f in range(F)]))
    M = int(np.asarray(case["sigmas"]).shape[0])
    kind = case["cell"]["kind"]
    tags = [f"d{d}", "tri" if kind == "general" else kind, f"K{case['K']}", f"frames{min(F, 4)}" + ("+" if F >= 4 else ""),
            "mask-partial" if not ppp.all() else "mask-full",
            "sigma-sym" if np.array_equal(case["sigmas"], case["sigmas"].T) else "sigma-asym",
            "bins1" if nb == 1 else "bins<10" if nb < 10 else ("bins<=20" if nb <= 20 else ("bins<=40" if nb <= 40 else
                                                                     ("bins<=60" if nb <= 60 else "bins>100"))),
            "savegr" if case["savegr"] else "nogr", "file" if of else "nofile",
            "outside" if case["outside"] else "inside", "again-" + again,
            "N2-3" if N <= 3 else ("N4-9" if N < 10 else ("N10+" if N <= 28 else "N40+")),
            "rmax>L/2" if rmax > Lmin / 2.0 else "rmax<=L/2",
            "labels-1..K" if (M == len(labels) and labels[-1] == M) else "labels-gap",
            case["kind"].split("+")[0].split(":")[0]] + shear_tags(case) + cell_tags(case)
    if again != "no" and sg2:
        tags.append("2nd-savegr")
    if "types_f" in case:
        tags.append("types-per-frame")
    if defaults:
        tags.append("defaults")
    if np.asarray(case["sigmas"]).dtype.kind == "i":
        tags.append("sigma-int")
    if isinstance(case["rdelta"], int):
        tags.append("rdelta-int")
    if cnt["excluded"]:
        tags.append("has-excluded")
    if cnt["asserted"] == 0:
        tags.append("nothing-asserted")
    return {"nontrivial": bool(cnt["rich"]), "tags": tags,
            "extra": {"particles_asserted": cnt["asserted"], "particles_excluded_g0": cnt["excluded"],
                      "particles_ambiguous": cnt["ambiguous"], "particles_asserted_repeat_calls": sink["asserted"]}}


def describe_cfg(case):
    dsc = gen.describe_config(case)
    if "cells" in case:
        dsc["H_per_frame"] = [np.round(c["H"], 4).tolist() for c in case["cells"]]
    if "types_f" in case:
        dsc["types_per_frame"] = [np.asarray(t).tolist()[:12] for t in case["types_f"]]
    return dsc


def describe_s2(case):
    dsc = describe_cfg(case)
    dsc.update(sigmas=np.asarray(case["sigmas"]).tolist(), rdelta=case["rdelta"], ndelta=case["ndelta"],
               defaults=bool(case.get("defaults")), again=case.get("again"))
    return dsc


# =============================================================================== tetrahedral


@st.composite
def tetra_case(draw, shear=False):
    five = draw(st.integers(0, 3)) == 0
    N = 5 if five else draw(st.one_of(st.integers(6, 16), st.integers(6, 16), st.integers(17, 40)))
    cell = draw(cell_st(3, "tri" if shear else "any", lmin=1.0, lmax=20.0, origin="any"))
    case = draw(config_case(3, N, cell, K=1, frames=(2, 3) if shear else (1, 2), shear=shear))
    case["outputfile"] = draw(st.sampled_from(["", "tetra"]))
    case["again"] = draw(st.sampled_from(["no", "no", "inplace"]))
    return case


@st.composite
def tetra_int_case(draw):
    """int64 coordinates on a fine integer grid, int64 edge lengths / bounds / cell matrix."""
    five = draw(st.integers(0, 3)) == 0
    N = 5 if five else draw(st.integers(6, 30))
    L = np.array([draw(st.integers(40, 2000)) for _ in range(3)], dtype=np.int64)
    lo = np.array([draw(st.integers(-500, 500)) for _ in range(3)], dtype=np.int64)
    F = draw(st.integers(1, 2))
    ppp = draw(ppp_st(3, True))
    outside = draw(st.booleans())
    pos = []
    for _ in range(F):
        p = np.floor(draw(dense((N, 3), fl(0.0, 1.0, exclude_max=True))) * L).astype(np.int64)
        if outside:
            p = p + draw(hnp.arrays(np.int64, (N, 3), elements=st.integers(-1, 1))) * ppp * L
        pos.append(lo + p)
    sched = draw(st.sampled_from(["regular", "repeat", "back"])) if F == 2 else "regular"
    return {"d": 3, "cell": {"d": 3, "kind": "ortho", "H": np.diag(L).astype(float), "lo": lo.astype(float),
                             "origin": "arbitrary"},
            "pos": pos, "types": np.ones(N, dtype=int), "ppp": ppp, "K": 1, "kind": "int-grid",
            "timesteps": _schedule(sched, F), "schedule": sched, "outside": outside, "intrepr": True,
            "outputfile": draw(st.sampled_from(["", "tetra"])), "again": draw(st.sampled_from(["no", "inplace"]))}


@st.composite
def tetra_large_case(draw):
    """N 130..420, inhomogeneous: the classes in which a candidate pre-selection (cell list, cube window, first block
    of a chunked search) differs from the full search - droplet in vapour, slab, void, uniform control.  Coordinates
    from numpy default_rng(seed) with the seed drawn by Hypothesis; particle order shuffled."""
    N = draw(st.one_of(st.integers(130, 256), st.integers(257, 420)))
    cell = draw(cell_st(3, "any", lmin=8.0, lmax=30.0, origin="any"))
    style = draw(st.sampled_from(["droplet+vapour", "droplet+vapour", "slab", "void", "uniform"]))
    F = draw(st.integers(1, 2))
    seed = draw(st.integers(0, 2 ** 32 - 1))
    ppp = draw(ppp_st(3, True))
    rng = np.random.default_rng(seed)
    pos = []
    for _ in range(F):
        f = rng.random((N, 3))
        if style == "droplet+vapour":
            n1 = int(0.7 * N)
            f[:n1] = rng.random(3) + rng.uniform(0.05, 0.12) * rng.standard_normal((n1, 3))
        elif style == "slab":
            n1 = int(0.8 * N)
            f[:n1, 2] = 0.5 + 0.1 * (rng.random(n1) - 0.5) * 2
        elif style == "void":
            c = rng.random(3)
            for _ in range(50):
                dv = f - c
                dv -= np.round(dv)
                inside = (dv ** 2).sum(axis=1) < 0.3 ** 2
                if not inside.any():
                    break
                f[inside] = rng.random((int(inside.sum()), 3))
        f = (f % 1.0)[rng.permutation(N)]
        pos.append(cell["lo"] + f @ cell["H"])
    sched = draw(st.sampled_from(["regular", "repeat", "back"])) if F == 2 else "regular"
    case = {"d": 3, "cell": cell, "pos": pos, "types": np.ones(N, dtype=int), "ppp": ppp, "K": 1, "kind": style,
            "timesteps": _schedule(sched, F), "schedule": sched, "outside": False, "outputfile": "", "again": "no"}
    if cell["kind"] == "tri" and draw(st.integers(0, 3)) == 0:
        case = permute_axes(case, draw(st.permutations(range(3))))
    return case


def _call_tetra(case, name="q8_tetrahedral", snaps=None):
    snaps = snaps_of(case) if snaps is None else snaps
    F, N = len(case["pos"]), len(case["types"])
    of = case.get("outputfile", "")
    _rm("tetra.npy")
    q = arr(name, q8_tetrahedral(snaps, ppp=np.asarray(case["ppp"]).copy(), outputfile=of), shape=(F, N))
    if of:
        require(os.path.exists(of + ".npy"), "outputfile given but no .npy written")
        same("saved tetrahedral file", np.load(of + ".npy"), q)
    return q


def _tetra_compare(case, pos, q, label, cnt):
    ppp = np.asarray(case["ppp"])
    for f, cell in enumerate(cells_of(case)):
        want, amb, _, _, _ = ref.tetrahedral(np.asarray(pos[f], dtype=float), cell["H"], ppp)
        ok = ~amb
        cnt["asserted"] += int(ok.sum())
        cnt["ambiguous"] += int(amb.sum())
        if ok.any():
            close(f"tetrahedral order {label}frame {f}", q[f][ok], want[ok], rtol=1e-9, atol=1e-12)
            cnt["nontrivial"] = cnt["nontrivial"] or bool(np.any(np.abs(want[ok] - 1.0) > 1e-6))


def check_tetra(case):
    ppp = np.asarray(case["ppp"])
    F, N = len(case["pos"]), len(case["types"])
    snaps = snaps_of(case)
    q = _call_tetra(case, snaps=snaps)
    cnt = {"asserted": 0, "ambiguous": 0, "nontrivial": False}
    _tetra_compare(case, case["pos"], q, "", cnt)
    again = case.get("again", "no")
    if again == "inplace":  # same Snapshots object, new contents
        rot = [np.roll(np.asarray(p, dtype=float), 1, axis=0) for p in case["pos"]]
        new = [c["lo"] + ((p - c["lo"]) @ np.linalg.inv(c["H"]) * 0.9 + 0.05) @ c["H"] for p, c in zip(rot, cells_of(case))]
        if case.get("intrepr"):
            new = [np.rint(p).astype(np.int64) for p in new]
        for sn, p in zip(snaps.snapshots, new):
            sn.positions[...] = p
        q2 = _call_tetra(case, "q8_tetrahedral (after in-place update)", snaps=snaps)
        _tetra_compare(case, new, q2, "after positions were updated in place, ",
                       {"asserted": 0, "ambiguous": 0, "nontrivial": False})
    kind = case["cell"]["kind"]
    tags = ["N5" if N == 5 else ("N6-9" if N < 10 else ("N10+" if N <= 16 else ("N17-40" if N <= 40 else
                                                                               ("N130+" if N <= 256 else "N>256")))),
            "tri" if kind == "general" else kind, f"frames{F}",
            "mask-partial" if not ppp.all() else "mask-full", case["kind"].split("+")[0].split(":")[0]
            if N <= 40 else case["kind"],
            "outside" if case["outside"] else "inside", "again-" + again] + shear_tags(case) + cell_tags(case)
    if cnt["ambiguous"]:
        tags.append("has-ambiguous")
    return {"nontrivial": cnt["nontrivial"], "tags": tags,
            "extra": {"particles_asserted": cnt["asserted"], "particles_ambiguous": cnt["ambiguous"]}}


# ---- perfect coordination: open tetrahedral cluster (rotated, scaled) and diamond lattices


@st.composite
def perfect_case(draw):
    kind = draw(st.sampled_from(["cluster", "cluster", "diamond", "diamond", "diamond-primitive"]))
    if kind in ("diamond", "diamond-primitive"):
        a = draw(nice_float(1.0, 6.0))
        if kind == "diamond":
            # rx x ry x rz conventional cells: cubic supercells, and orthorhombic ones whose edges all differ
            reps = tuple(draw(st.sampled_from([(1, 1, 1), (1, 1, 1), (2, 2, 2), (1, 2, 1), (2, 1, 1), (1, 1, 2), (1, 2, 3),
                                               (3, 1, 2), (2, 3, 1)])))
            Hm = np.diag(a * np.array(reps, dtype=float))
            f = ref.diamond(reps)
            ckind = "ortho"
        else:
            # supercell of the two-atom primitive (rhombohedral) cell: a triclinic box, tilt of either sign
            reps = tuple(draw(st.sampled_from([(2, 2, 2), (2, 2, 2), (2, 3, 2), (3, 2, 2), (2, 2, 3), (3, 3, 3)])))
            Hm, f = ref.diamond_primitive(reps, negative_tilt=draw(st.booleans()))
            Hm = a * Hm
            ckind = "tri"
        shift = draw(dense((3,), fl(0.0, 1.0)))
        f = (f + shift) % 1.0
        N = len(f)
        offs = np.zeros((N, 3))
        if draw(st.booleans()):
            offs = draw(hnp.arrays(np.int64, (N, 3), elements=st.integers(-1, 1))).astype(float)
        lo = np.array([draw(nice_float(-10.0, 10.0)) for _ in range(3)])
        cell = {"d": 3, "kind": ckind, "H": Hm, "lo": lo, "origin": "arbitrary"}
        perm = np.array(draw(st.permutations(range(N))))
        pos = (lo + (f + offs) @ cell["H"])[perm]
        case = {"d": 3, "cell": cell, "pos": [pos], "types": np.ones(N, dtype=int), "ppp": np.ones(3, dtype=int),
                "K": 1, "kind": kind + "".join(str(r) for r in reps), "timesteps": [0], "outside": bool(np.any(offs)),
                "centres": np.arange(N)}
        if ckind == "tri" and draw(st.integers(0, 2)) == 0:
            case = permute_axes(case, draw(st.permutations(range(3))))
        return case
    s = draw(st.one_of(nice_float(0.1, 3.0), st.sampled_from([0.5, 1.0, 2.0])))
    qv = draw(dense((4,), fl(-1.0, 1.0)))
    if np.linalg.norm(qv) < 0.1:
        qv = np.array([1.0, 0.0, 0.0, 0.0])
    R = ref.rotation_from_quaternion(qv)
    verts = s * ref.TETRA_VERTICES @ R.T
    nextra = draw(st.integers(0, 5))
    dirs = draw(dense((nextra, 3), fl(-1.0, 1.0)))
    rad = draw(dense((nextra,), fl(1.3, 3.0)))
    extras = []
    for v, r_ in zip(dirs, rad):
        nv = np.linalg.norm(v)
        u = v / nv if nv > 1e-3 else np.array([0.0, 0.0, 1.0])
        extras.append(s * r_ * u)
    rel = np.vstack([np.zeros((1, 3)), verts] + ([np.array(extras)] if extras else []))
    N = len(rel)
    cell = draw(cell_st(3, "any", lmin=20.0 * s, lmax=40.0 * s, origin="any"))
    cf = draw(dense((3,), fl(0.3, 0.7)))
    centre = cell["lo"] + cf @ cell["H"]
    perm = np.array(draw(st.permutations(range(N))))
    pos = (centre + rel)[perm]
    ppp = draw(ppp_st(3, True))
    return {"d": 3, "cell": cell, "pos": [pos], "types": np.ones(N, dtype=int), "ppp": ppp, "K": 1,
            "kind": "cluster", "timesteps": [0], "outside": False,
            "centres": np.array([int(np.nonzero(perm == 0)[0][0])]), "scale": s, "nextra": nextra}


def check_perfect(case):
    H, ppp = case["cell"]["H"], np.asarray(case["ppp"])
    N = len(case["types"])
    q = _call_tetra(case)
    c = case["centres"]
    close("tetrahedral order at perfectly coordinated sites", q[0][c], np.ones(len(c)), rtol=0, atol=1e-12)
    want, amb, _, _, _ = ref.tetrahedral(case["pos"][0], H, ppp)
    ok = ~amb
    if ok.any():
        close("tetrahedral order (all sites)", q[0][ok], want[ok], rtol=1e-9, atol=1e-12)
    L = np.diag(H)
    kind = case["cell"]["kind"]
    tags = [case["kind"], "N5" if N == 5 else "N>5", "tri" if kind == "general" else kind,
            "mask-partial" if not ppp.all() else "mask-full",
            "edges-unequal" if (L.max() - L.min()) > 1e-9 * L.max() else "edges-equal"] + cell_tags(case)
    return {"nontrivial": True, "tags": tags, "extra": {"perfect_sites": int(len(c))}}


def describe_perfect(case):
    return {"kind": case["kind"], "N": int(len(case["types"])), "H": np.round(case["cell"]["H"], 4).tolist(),
            "ppp": np.asarray(case["ppp"]).tolist(), "pos": np.round(case["pos"][0][:6], 5).tolist()}


# ---- metamorphic: particles outside the four nearest of i move farther from i; q_i does not change


@st.composite
def far_case(draw):
    N = draw(st.integers(6, 14))
    cell = draw(cell_st(3, "any", lmin=1.0, lmax=20.0, origin="any"))
    f = draw(dense((N, 3), fl(0.3, 0.7)))
    ppp = draw(ppp_st(3, True))
    return {"d": 3, "cell": cell, "f": f, "types": np.ones(N, dtype=int), "ppp": ppp, "K": 1, "kind": "gas",
            "timesteps": [0], "outside": False, "i": draw(st.integers(0, N - 1)), "rank": draw(st.integers(0, N)),
            "s": draw(st.sampled_from([1.01, 1.05, 1.1, 1.2])), "mode": draw(st.sampled_from(["one", "one", "all"])),
            "s_all": draw(dense((N,), st.sampled_from([1.0, 1.01, 1.05, 1.1, 1.2])))}


def check_far(case):
    H, lo, ppp = case["cell"]["H"], case["cell"]["lo"], np.asarray(case["ppp"])
    f = case["f"]
    i = case["i"]
    pos = lo + f @ H
    want, amb, nn, d4, _ = ref.tetrahedral(pos, H, ppp)
    if amb[i]:
        return {"nontrivial": False, "tags": ["ambiguous-centre"]}
    dist_i = np.sqrt((((f - f[i]) @ H) ** 2).sum(axis=1))  # |frac diff| <= 0.4: no wrapping
    cand = [j for j in np.argsort(dist_i) if j != i and j not in nn[i] and dist_i[j] > d4[i] * (1 + 1e-6)]
    if not cand:
        return {"nontrivial": False, "tags": ["no-candidate"]}
    rank = case["rank"] % len(cand)
    mode = case.get("mode", "one")
    f2 = f.copy()
    if mode == "one":
        m = cand[rank]
        f2[m] = f[i] + case["s"] * (f[m] - f[i])  # |frac diff| <= 0.48 < 1/2: still the same image
    else:  # every non-neighbour is pushed away from i along its own direction (factor 1 = stays)
        for m in cand:
            f2[m] = f[i] + float(case["s_all"][m]) * (f[m] - f[i])
    pos2 = lo + f2 @ H
    base = dict(case, pos=[pos])
    moved = dict(case, pos=[pos2])
    q1 = _call_tetra(base)
    q2 = _call_tetra(moved)
    close("tetrahedral order before the move", q1[0][i], want[i], rtol=1e-9, atol=1e-12)
    close("tetrahedral order of i after moving non-neighbours farther away", q2[0][i], q1[0][i], rtol=0, atol=1e-12)
    tags = [("moved-5th" if rank == 0 else "moved-farther-rank") if mode == "one" else "moved-all-non-neighbours",
            case["cell"]["kind"], "mask-partial" if not ppp.all() else "mask-full"]
    return {"nontrivial": True, "tags": tags}


def describe_far(case):
    return {"N": int(len(case["f"])), "H": np.round(case["cell"]["H"], 4).tolist(), "i": case["i"],
            "rank": case["rank"], "s": case["s"], "mode": case.get("mode", "one"), "f": np.round(case["f"][:4], 4).tolist()}


# =============================================================================== nematic

_UNIT_CELL = {"d": 2, "kind": "ortho", "H": np.eye(2), "lo": np.zeros(2), "origin": "zero"}
_HEADERS = ["id     cn     neighborlist", "id cn neighborlist", "id   cn   neighborlist"]


@st.composite
def nematic_case(draw, nrange=(1, 12), frange=(1, 3), by_seed=False):
    F = draw(st.integers(*frange))
    N = draw(st.one_of(st.integers(*nrange), st.integers(max(3, nrange[0]), nrange[1])))
    field = draw(st.sampled_from(["random", "random", "aligned", "crisp", "axes-int"]))
    if field == "axes-int" and by_seed:
        field = "crisp"
    if by_seed:  # large fields: numpy default_rng(seed), seed drawn by Hypothesis
        rng = np.random.default_rng(draw(st.integers(0, 2 ** 32 - 1)))
        if field == "crisp":
            ang = rng.integers(0, 16, (F, N)).astype(float) * (math.pi / 8.0)
        elif field == "aligned":
            ang = rng.uniform(0, 2 * math.pi) + rng.uniform(-0.2, 0.2, (F, N)) + math.pi * rng.integers(0, 2, (F, N))
        else:
            ang = rng.uniform(0, 2 * math.pi, (F, N))
    elif field == "crisp":
        ang = draw(hnp.arrays(np.int64, (F, N), elements=st.integers(0, 15))).astype(float) * (math.pi / 8.0)
    elif field == "axes-int":  # orientations along +-x / +-y, stored as int64 vectors (1, 0), (0, -1), ...
        ang = draw(hnp.arrays(np.int64, (F, N), elements=st.integers(0, 3))).astype(float) * (math.pi / 2.0)
    elif field == "aligned":
        base = draw(fl(0.0, 2 * math.pi))
        ang = base + draw(dense((F, N), fl(-0.2, 0.2)))
        flip = draw(hnp.arrays(np.int64, (F, N), elements=st.integers(0, 1)))
        ang = ang + math.pi * flip  # head-tail symmetry
    else:
        ang = draw(dense((F, N), fl(0.0, 2 * math.pi)))
    lists = draw(st.sampled_from(["none", "directed", "directed", "symmetric", "fixed-k", "repeats"])) if N >= 2 else "none"
    nbl = None
    nmax_kind, nmax = "default", 30
    if lists != "none":
        nbl = []
        if by_seed:
            for _ in range(F):
                frame = []
                for i in range(N):
                    k = int(rng.integers(0, 9))
                    row = [int(j) for j in rng.choice(N - 1, size=min(k, N - 1), replace=False)]
                    frame.append([j + (j >= i) for j in row])
                nbl.append(frame)
            lists = "directed"
        else:
            for _ in range(F):
                frame = []
                if lists == "symmetric":  # cut-off style: j in nb(i) <=> i in nb(j), ids ascending
                    adj = draw(hnp.arrays(np.bool_, (N, N), elements=st.booleans(), fill=st.nothing()))
                    adj = np.triu(adj, 1)
                    adj = adj | adj.T
                    frame = [[int(j) for j in np.nonzero(adj[i])[0]] for i in range(N)]
                else:
                    kfix = draw(st.integers(1, min(N - 1, 4)))
                    for i in range(N):
                        others = [j for j in range(N) if j != i]
                        k = kfix if lists == "fixed-k" else draw(st.integers(0, min(len(others), 6)))
                        row = list(draw(st.permutations(others)))[:k]
                        if lists == "repeats" and row and draw(st.booleans()):
                            # small periodic boxes: a Voronoi cell shares two facets with the same neighbour (C20)
                            row.insert(draw(st.integers(0, len(row))), row[draw(st.integers(0, len(row) - 1))])
                        frame.append(row)
                nbl.append(frame)
        maxcn = max(len(x) for fr in nbl for x in fr)
        nmax_kind = draw(st.sampled_from(["exact", "plus1", "default", "trunc" if maxcn >= 2 else "exact"]))
        nmax = {"exact": max(1, maxcn), "plus1": maxcn + 1, "default": 30, "trunc": maxcn - 1}[nmax_kind]
    # two base calls (trace, then eigenvalues, same list) and up to two further calls with free options; `fresh` = a
    # new NematicOrder object, otherwise the object of the previous call is asked again
    calls = [{"eig": False, "nb": nbl is not None, "of": draw(st.sampled_from(["nem", "nem", "out.v2", ""])), "fresh": True},
             {"eig": True, "nb": nbl is not None, "of": None, "fresh": not draw(st.booleans())}]
    calls[1]["of"] = calls[0]["of"]
    for _ in range(draw(st.integers(0, 2))):
        calls.append({"eig": draw(st.booleans()), "nb": nbl is not None and draw(st.booleans()),
                      "of": draw(st.sampled_from(["nem", "second", ""])), "fresh": draw(st.integers(0, 3)) == 0})
    return {"angles": ang, "nbl": nbl, "lists": lists, "Nmax": nmax, "nmax_kind": nmax_kind, "field": field,
            "calls": calls, "sep": draw(st.sampled_from([" ", " ", "   ", "\t"])), "trail": draw(st.booleans()),
            "header": draw(st.sampled_from(_HEADERS)),
            "nbfile": draw(st.sampled_from(["nematic_neighbors.dat", "nb.list.txt", "lists/neigh.dat"])),
            "with_positions": draw(st.booleans())}


def _nematic_calls(case):
    if "calls" in case:
        return case["calls"]
    # cases recorded before the call sequences were introduced: trace, then eigenvalues
    of, nb = case["outputfile"], case["nbl"] is not None
    return [{"eig": False, "nb": nb, "of": of, "fresh": True}, {"eig": True, "nb": nb, "of": of, "fresh": not case.get("reuse")}]


def check_nematic(case):
    ang = case["angles"]
    F, N = ang.shape
    u = np.stack([np.cos(ang), np.sin(ang)], axis=-1)
    if case["field"] == "axes-int":
        # argument representation: the unit vectors (+-1, 0), (0, +-1) as an int64 array
        from PyMatterSim.reader.reader_utils import SingleSnapshot, Snapshots
        u = np.rint(u).astype(np.int64)
        snaps = Snapshots(nsnapshots=F, snapshots=[
            SingleSnapshot(timestep=f, nparticle=N, particle_type=np.ones(N, dtype=int), positions=u[f].copy(),
                           boxlength=np.ones(2), boxbounds=np.array([[0.0, 1.0], [0.0, 1.0]]), realbounds=None,
                           hmatrix=np.eye(2)) for f in range(F)])
    else:
        snaps = gen.snapshots_from({"cell": _UNIT_CELL, "pos": [u[f].copy() for f in range(F)],
                                    "types": np.ones(N, dtype=int), "timesteps": list(range(F))})
    possnaps = None
    if case.get("with_positions"):  # only spatial_corr reads the positions; tensor() must not care
        possnaps = gen.snapshots_from({"cell": dict(_UNIT_CELL, H=np.eye(2) * 7.0), "pos": [7.0 * np.abs(u[f]) for f in range(F)],
                                       "types": np.ones(N, dtype=int), "timesteps": list(range(F))})
    nbfile = case.get("nbfile", "nematic_neighbors.dat")
    Qraw = ref.nematic_q(u.astype(float))
    Qcg = None
    trunc = case.get("nmax_kind") == "trunc"
    if case["nbl"] is not None:
        if os.path.dirname(nbfile):
            os.makedirs(os.path.dirname(nbfile), exist_ok=True)
        with open(nbfile, "w") as fh:
            fh.write(ref.neighbour_text(case["nbl"], sep=case.get("sep", " "), trail=case.get("trail", False),
                                        header=case.get("header", _HEADERS[0])))
        Qcg = ref.nematic_cg(Qraw, case["nbl"], nmax=case["Nmax"] if trunc else None)

    def new_object():
        if possnaps is None:
            return NematicOrder(snaps, None)
        return NematicOrder(snaps, possnaps) if N % 2 else NematicOrder(snapshots_orientation=snaps, snapshots_position=possnaps)

    calls = _nematic_calls(case)
    obj = None
    results = []
    switched = False
    prev_nb = None
    for k, c in enumerate(calls):
        fresh = obj is None or c["fresh"]
        if fresh:
            obj = new_object()
        elif prev_nb is not None and prev_nb != c["nb"]:
            switched = True
        prev_nb = c["nb"]
        of = c["of"]
        Q = Qcg if c["nb"] else Qraw
        qname = of + (".QIJ_cg.npy" if c["nb"] else ".QIJ_raw.npy")
        sname = of + (".eigval.npy" if c["eig"] else ".Qtrace.npy")
        _rm(qname, sname)
        lab = f"call {k + 1} ({'eigvals' if c['eig'] else 'trace'}, {'list' if c['nb'] else 'raw'}, " \
              f"{'new' if fresh else 'same'} object)"
        kw = dict(ndim=2, neighborfile=nbfile if c["nb"] else "", eigvals=c["eig"], outputfile=of)
        if case.get("nmax_kind", "x") != "default":
            kw["Nmax"] = case["Nmax"]
        out = arr(f"tensor, {lab}", obj.tensor(**kw), shape=(F, N))
        Qlib = arr(f"NematicOrder.QIJ, {lab}", obj.QIJ, shape=(F, N, 2, 2))
        close(f"Q tensor, {lab}", Qlib, Q, rtol=1e-9, atol=1e-12)
        want = ref.nematic_eig(Q) if c["eig"] else ref.nematic_trace(Q)
        close(("scalar order 2 lambda_max, " if c["eig"] else "scalar order sqrt(d/(d-1) tr Q^2), ") + lab, out, want,
              rtol=1e-9, atol=1e-12)
        require(os.path.exists(qname), f"tensor side file {qname} not written, {lab}")
        same(f"Q tensor side file, {lab}", np.load(qname), Qlib)
        require(os.path.exists(sname), f"scalar side file {sname} not written, {lab}")
        same(f"scalar side file, {lab}", np.load(sname), out)
        results.append((c, out))
    # the two scalars agree in 2D (every pair of calls that describes the same tensor)
    compared = False
    for a, (ca, ra) in enumerate(results):
        for cb, rb in results[a + 1:]:
            if ca["nb"] == cb["nb"] and ca["eig"] != cb["eig"]:
                close("2D: trace scalar equals twice the largest eigenvalue", ra, rb, rtol=1e-9, atol=1e-9)
                compared = True

    spread = bool(N >= 2 and np.any(np.abs(np.sin(ang - ang[:, :1])) > 1e-6))
    tags = [f"frames{min(F, 4)}" + ("+" if F >= 4 else ""), "N1" if N == 1 else ("N2-5" if N <= 5 else ("N6+" if N <= 12 else "N50+")),
            case["field"], "neighbours" if case["nbl"] is not None else "raw", "file-" + (calls[0]["of"] or "empty"),
            "same-object-twice" if not calls[1]["fresh"] else "fresh-objects",
            "positions-given" if possnaps is not None else "positions-None"]
    if len(calls) > 2:
        tags.append("extra-calls")
    if switched:
        tags.append("nb-switch-same-object")
    if compared:
        tags.append("trace-vs-eig-compared")
    if case["nbl"] is not None:
        cns = [len(x) for fr in case["nbl"] for x in fr]
        tags.append("list-" + case.get("lists", "directed"))
        tags.append("cn-varies" if len(set(cns)) > 1 else "cn-equal")
        # rows shorter than the frame maximum are zero-padded by the reader, i.e. padded with particle 0, whose
        # Q has eigenvalues +-1/2 (never zero): a leak through the padding changes the average by Q_0/(1+cn)
        if any(len(set(len(x) for x in fr)) > 1 for fr in case["nbl"]):
            tags.append("cn-varies-within-frame")
        if any(0 < len(x) < max(len(y) for y in fr) for fr in case["nbl"] for x in fr):
            tags.append("padded-rows-with-neighbours")
        if 0 in cns:
            tags.append("has-cn0")
        if any(len(set(x)) < len(x) for fr in case["nbl"] for x in fr):
            tags.append("repeated-neighbour")
        if any((j in case["nbl"][f][i]) != (i in case["nbl"][f][j]) for f in range(F) for i in range(N)
               for j in case["nbl"][f][i]) if N <= 12 else True:
            tags.append("list-asymmetric")
        tags.append("Nmax-" + case.get("nmax_kind", "exact" if case["Nmax"] == max(1, max(cns)) else "plus1"))
        tags.append("sep-" + {" ": "blank", "   ": "blanks", "\t": "tab"}[case.get("sep", " ")] + ("-trail" if case.get("trail") else ""))
        if F > 1 and any(case["nbl"][f] != case["nbl"][0] for f in range(1, F)):
            tags.append("lists-differ-between-frames")
    return {"nontrivial": spread, "tags": tags}


def describe_nematic(case):
    small = case["angles"].size <= 60
    return {"angles": np.round(case["angles"], 5).tolist() if small else f"array{case['angles'].shape}",
            "nbl": case["nbl"] if small else "...", "Nmax": case["Nmax"], "calls": _nematic_calls(case)}


# =============================================================================== gyration


@st.composite
def cloud_case(draw):
    d = draw(st.sampled_from([2, 3]))
    kind = draw(st.sampled_from(["blob", "aniso", "line", "symmetric", "pair", "grid", "large"]))
    if kind == "pair":
        x = draw(dense((2, d), fl(-1.0, 1.0)))
    elif kind == "symmetric":
        if d == 2:
            n = draw(st.integers(3, 8))
            th = 2 * math.pi * np.arange(n) / n + draw(fl(0.0, 1.0))
            x = np.stack([np.cos(th), np.sin(th)], axis=1)
        else:
            x = np.array([(a, b, c) for a in (-1.0, 1.0) for b in (-1.0, 1.0) for c in (-1.0, 1.0)])
            if draw(st.booleans()):
                x = ref.TETRA_VERTICES.copy()
    elif kind == "grid":
        n = draw(st.integers(2, 4))
        x = np.array(np.meshgrid(*[np.arange(n, dtype=float)] * d)).reshape(d, -1).T
        x = x[: draw(st.integers(2, len(x)))]
    elif kind == "large":
        # hundreds to thousands of points (clusters of a percolation / nucleation analysis), sizes around the block
        # lengths a chunked accumulation would use; coordinates from numpy default_rng(seed), seed drawn by Hypothesis
        N = draw(st.one_of(st.integers(100, 1023), st.sampled_from([255, 256, 257, 1023, 1024, 1025, 2047, 2049]),
                           st.integers(1025, 3000)))
        rng = np.random.default_rng(draw(st.integers(0, 2 ** 32 - 1)))
        x = rng.standard_normal((N, d)) * rng.uniform(0.05, 1.0, d)
        x[N // 2:] += rng.uniform(-1.0, 1.0, d)  # two lobes: the first block alone has a different centre
    else:
        N = draw(st.integers(2, 40))
        x = draw(dense((N, d), fl(-1.0, 1.0)))
        if kind == "aniso":
            x = x * np.array([draw(st.sampled_from([1.0, 0.3, 0.05, 3.0])) for _ in range(d)])
        if kind == "line":
            t = draw(dense((N, 1), fl(-1.0, 1.0)))
            dirv = np.array([draw(fl(-1.0, 1.0)) for _ in range(d)])
            x = t * (dirv if np.linalg.norm(dirv) > 1e-3 else np.eye(d)[0])
    if d == 3 and draw(st.booleans()):
        qv = draw(dense((4,), fl(-1.0, 1.0)))
        if np.linalg.norm(qv) > 0.1:
            x = x @ ref.rotation_from_quaternion(qv).T
    scale = 10.0 ** draw(st.sampled_from([-2, -1, 0, 0, 1, 2]))
    scale *= draw(st.sampled_from([1.0, 1.0, 0.37, 2.5]))
    offset = np.array([draw(st.one_of(st.just(0.0), nice_float(-100.0, 100.0))) for _ in range(d)])
    pos = offset + scale * x
    rep = draw(st.sampled_from(["f64", "f64", "f64", "int64", "strided", "fortran"]))
    if rep == "int64":
        # integer coordinates (lattice sites, pixel / voxel indices of an image analysis): the extent is scaled to a
        # few hundred units first so that rounding keeps the shape
        ext = float(np.abs(pos - pos.mean(axis=0)).max())
        if ext > 0:
            pos = np.rint(pos.mean(axis=0)) + np.rint((pos - pos.mean(axis=0)) * (draw(st.sampled_from([7.0, 40.0, 300.0])) / ext))
        pos = pos.astype(np.int64)
    return {"pos": pos, "kind": kind, "d": d, "rep": rep}


def check_gyration(case):
    pos = case["pos"]
    N, d = pos.shape
    rep = case.get("rep", "f64")
    want, g = ref.gyration_list(pos.astype(float))
    spread = float(np.abs(pos - pos[0]).max())
    T = g["trace"]
    # domain: a cloud with extent; coincident points (R_g = 0) or an extent below 1e-6 of the coordinate
    # magnitude (centring then loses the digits that carry the shape) are not asserted; nor are extents below 1e-60,
    # where fourth powers of lengths (products of eigenvalues in the anisotropy) underflow -- no property is about
    # underflow (seed 3 drew two points 1.3e-82 apart: nan on both sides)
    if not (spread > 1e-6 * float(np.abs(pos).max()) and spread > 1e-60 and T > 0):
        return {"nontrivial": False, "tags": ["degenerate-or-illconditioned", f"d{d}"]}
    if rep == "strided":  # a view into a wider table (every second row, three of its columns), as positions[mask] is
        big = np.full((2 * N, d + 2), 7.5)
        big[::2, 1:1 + d] = pos
        arg = big[::2, 1:1 + d]
    elif rep == "fortran":
        arg = np.asfortranarray(pos.copy())
    else:
        arg = pos.copy()
    out = gyration_tensor(arg)
    require(np.array_equal(arg, pos), "gyration_tensor modified its input")
    require(isinstance(out, (list, tuple)) and len(out) == len(want),
            lambda: f"expected a list of {len(want)} descriptors, got {type(out).__name__} of length "
                    f"{len(out) if hasattr(out, '__len__') else '?'}")
    try:
        got = np.array([complex(v) for v in out])
    except (TypeError, ValueError) as e:
        raise Violation(f"gyration descriptors are not scalars: {out!r:.300} ({e})")
    got = arr("gyration descriptors", got, shape=(len(want),))
    names = (["radius_of_gyration", "asphericity", "acylindricity", "shape_anisotropy", "fractal_dimension"]
             if d == 3 else ["radius_of_gyration", "acylindricity", "fractal_dimension"])
    atols = {"radius_of_gyration": 1e-12 * g["rg"], "asphericity": 1e-11 * T, "acylindricity": 1e-11 * T,
             "shape_anisotropy": 1e-11, "fractal_dimension": 0.0}
    fractal_ok = abs(math.log10(g["rg"])) > 1e-3
    for k, nm in enumerate(names):
        if nm == "fractal_dimension" and not fractal_ok:
            continue
        close(nm, got[k], complex(want[k]), rtol=1e-9, atol=atols[nm])
    lam = g["lam"]
    tags = [f"d{d}", case["kind"], "N2" if N == 2 else ("N3-9" if N < 10 else ("N10+" if N < 100 else
                                                                               ("N100+" if N <= 1024 else "N>1024"))),
            "Rg<1" if g["rg"] < 1 else "Rg>1", "fractal-asserted" if fractal_ok else "fractal-skipped",
            "offset" if np.any(np.abs(pos.mean(axis=0)) > 10 * spread) else "centred-ish", "repr-" + rep]
    if lam[-1] > 0 and (lam[1] - lam[0]) < 1e-9 * lam[-1]:
        tags.append("degenerate-eigenvalues")
    if np.iscomplexobj(np.asarray(out)):
        tags.append("complex-return")
    return {"nontrivial": bool(N >= 3), "tags": tags}


def describe_cloud(case):
    return {"kind": case["kind"], "N": int(len(case["pos"])), "rep": case.get("rep", "f64"),
            "pos": np.round(case["pos"][:6], 6).tolist()}


# =============================================================================== facets

FACETS = [
    Facet("s2_2d", s2_case(2), check_s2, quick=360, thorough=48000, describe=describe_s2, shards_quick=2,
          rule="2D S2 vs reference; non-trivial = some asserted particle has >= 2 contributing neighbours"),
    Facet("s2_3d", s2_case(3), check_s2, quick=360, thorough=48000, describe=describe_s2, shards_quick=2,
          rule="3D S2 vs reference; non-trivial = some asserted particle has >= 2 contributing neighbours"),
    Facet("s2_sheared", s2_case(None, shear=True), check_s2, quick=200, thorough=30000, describe=describe_s2,
          shards_quick=2, rule="2-3 frames, triclinic, tilt factors differ between frames (same edge lengths), 2D and "
                               "3D; each frame against the oracle with its own cell; non-trivial as s2_2d"),
    Facet("s2_intrepr", s2_int_case(), check_s2, quick=120, thorough=18000, describe=describe_s2,
          rule="int64 coordinates / edges / bounds / cell matrix / width matrix, int or float bin width; as s2_2d"),
    Facet("s2_large", st.one_of(s2_case(None, nrange=(40, 150)), s2_case(None, nrange=(4, 10), frames=(6, 12))), check_s2,
          quick=12, thorough=3000, describe=describe_s2, shards_quick=2,
          rule="N 40..150 (1-2 frames) or 6..12 frames of 4..10 particles; as s2_2d"),
    Facet("tetra_generic", tetra_case(), check_tetra, quick=520, thorough=72000, describe=describe_cfg,
          shards_quick=2, rule="3D, N 5..40 (N = 5 forced in 1/4); non-trivial = an asserted particle with q != 1"),
    Facet("tetra_sheared", tetra_case(shear=True), check_tetra, quick=200, thorough=30000, describe=describe_cfg,
          shards_quick=2, rule="2-3 frames, triclinic, tilt factors differ between frames; each frame with its own cell"),
    Facet("tetra_intrepr", tetra_int_case(), check_tetra, quick=120, thorough=18000, describe=describe_cfg,
          rule="int64 coordinates on a fine grid, int64 cell; N 5..30"),
    Facet("tetra_large", tetra_large_case(), check_tetra, quick=20, thorough=3000, describe=describe_cfg, shards_quick=2,
          rule="N 130..420, droplet+vapour / slab / void / uniform; non-trivial as tetra_generic"),
    Facet("tetra_perfect", perfect_case(), check_perfect, quick=300, thorough=36000, describe=describe_perfect,
          rule="centre of a rotated/scaled regular tetrahedron (+0..5 farther particles) and every site of a diamond "
               "lattice (cubic / orthorhombic supercell, rhombohedral supercell of the primitive cell): q = 1"),
    Facet("tetra_far_move", far_case(), check_far, quick=300, thorough=45000, describe=describe_far,
          rule="one particle / all particles outside the four nearest of i moved farther from i; non-trivial = a "
               "candidate exists"),
    Facet("nematic", nematic_case(), check_nematic, quick=600, thorough=90000, describe=describe_nematic,
          shards_quick=2, rule="2D unit vectors from angles; non-trivial = N >= 2 and not all orientations parallel"),
    Facet("nematic_large", nematic_case(nrange=(50, 300), frange=(1, 10), by_seed=True), check_nematic, quick=8,
          thorough=2000, describe=describe_nematic, rule="N 50..300, 1..10 frames, directed lists of 0..8 entries"),
    Facet("gyration", cloud_case(), check_gyration, quick=1500, thorough=180000, describe=describe_cloud,
          shards_quick=2, rule="clouds N >= 2 in 2D/3D; non-trivial = R_g > 0 and N >= 3"),
]
