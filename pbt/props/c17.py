"""C17 — local order parameters equal their definitions: pair entropy S2, tetrahedral order, nematic tensor /
scalar order, gyration-tensor shape descriptors.  Reference-model differentials (pbt/ref/localorder.py) plus
constructions with known values (perfect tetrahedron, diamond lattice) and one metamorphic relation."""
from __future__ import annotations

import math
import os
import warnings

import numpy as np
from hypothesis import strategies as st
from hypothesis.extra import numpy as hnp

from .. import gen
from ..gen import cell_st, fl, nice_float, ppp_st, types_st
from ..harness import Facet, Violation
from ..ref import geom
from ..ref import localorder as ref
from ..util import arr, close, require

from PyMatterSim.static.geometric import q8_tetrahedral
from PyMatterSim.static.nematic import NematicOrder
from PyMatterSim.static.pairentropy import S2
from PyMatterSim.static.shape import gyration_tensor

# coincident particles / empty neighbour shells make the library (and numpy) emit RuntimeWarnings; those
# particles are excluded by the oracle, the warnings are noise in the worker's stderr
warnings.filterwarnings("ignore", category=RuntimeWarning)

RULE = ("S2: d{2,3} x cell{ortho,tri} x K 1..3 x width matrices [type_i,type_j] (symmetric and not) x bins 2..60 x "
        "periodicity masks x frames 1..2 (sheared class: 2..3 frames with per-frame tilt) x repeated calls {same "
        "object, positions updated in place, two objects alternately}, non-trivial = some asserted particle has >= 2 contributing neighbours; "
        "tetrahedral: 3D N>=5 (N=5 forced in 1/4 of the cases) x cells x masks x frames, non-trivial = >= 1 particle "
        "with an unambiguous 4-nearest set and a value != 1; perfect tetrahedron / diamond: value 1; far-move: a "
        "non-neighbour moved away; nematic: angles x frames 1..3 x optional neighbour file, non-trivial = N >= 2 and "
        "not all orientations parallel; gyration: clouds N >= 2 in 2D/3D, non-trivial = R_g > 0 and N >= 3")
ASSUMPTIONS = [
    "S2: pairs with minimum-image distance >= r_max (centre of the last bin) do not contribute to g (implementation "
    "convention encoded by the golden tests); particles with a pair within 1e-9 r_max of that limit are not asserted",
    "S2: particles whose smeared g is exactly 0 in some bin (no neighbour inside r_max, or Gaussian underflow) are "
    "excluded and counted: 0 ln 0 is not defined by the statement; widths are >= r_max/35 so underflow cannot occur "
    "when a neighbour exists",
    "S2: r_max <= half the shortest box edge; minimum image = fractional rounding (contract of C02)",
    "tetrahedral: particles whose 4th and 5th nearest distances agree to 1e-9, that have a coincident partner or a "
    "half-cell minimum-image tie among the relevant candidates are not asserted (counted as ambiguous)",
    "nematic: the library supports d = 2 only (assert ndim == 2); Nmax >= largest coordination number",
    "gyration: all points coincident (R_g = 0) is outside the domain; fractal dimension asserted when |log10 R_g| > 1e-3",
]
MANIFEST = {
    "text": ("Generated-input differential of the four local-order routines against independent numpy references "
             "written from the definitions: S2.particle_s2 (per-particle Gaussian-smeared g and -(d-1) pi rho "
             "trapezoid integral; 2D/3D, 1-3 species with [type_i,type_j] widths, 10-60 bins, orthogonal and "
             "triclinic cells, periodicity masks, 1-2 frames; also the saved g and .npy files), q8_tetrahedral "
             "(1 - 3/32 sum over the four nearest; N >= 5 including exactly 5; rotated/scaled perfect tetrahedra and "
             "diamond lattices give 1 to 1e-12; moving a non-neighbour farther away changes nothing), both also on "
             "sheared trajectories (2-3 frames whose tilt factors differ while the edge lengths stay equal, every "
             "frame against the oracle with its own cell matrix) and on repeated calls (same S2 object twice, "
             "positions overwritten in place between calls, two S2 objects used alternately), "
             "NematicOrder.tensor (Q = (d u u^T - I)/2, neighbour average from a synthetic list file, trace and "
             "eigenvalue scalars, their equality in 2D, .npy side files) and gyration_tensor (2D/3D descriptors from "
             "the eigenvalues of the centred second-moment tensor)."),
    "note": ("Trusted base: pbt/ref/localorder.py and pbt/ref/geom.py (numpy). Not asserted: particles at "
             "discontinuities (r_ij within 1e-9 of r_max, 4th/5th-neighbour ties, half-cell image ties), particles "
             "whose g vanishes in a bin, 3D nematic order (rejected by the library), degenerate clouds with R_g = 0."),
    "technique": ("property-based testing (Hypothesis): reference-model differential, plus constructed inputs with "
                  "known value and a metamorphic relation (tetrahedral), file/return round trip (nematic, S2)"),
}

# =============================================================================== S2


def dense(shape, elements, dtype=np.float64):
    """hnp.arrays without the sparse 'fill' shortcut: every entry is drawn, so points rarely coincide."""
    return hnp.arrays(dtype, shape, elements=elements, fill=st.nothing())


_LAT = {
    3: {"sc": [(0, 0, 0)], "bcc": [(0, 0, 0), (.5, .5, .5)],
        "fcc": [(0, 0, 0), (.5, .5, 0), (.5, 0, .5), (0, .5, .5)],
        "diamond": [tuple(r) for r in ref.DIAMOND_BASIS]},
    2: {"square": [(0, 0)], "centred": [(0, 0), (.5, .5)]},
}


@st.composite
def fracs_st(draw, d, N, exact_ok):
    """Fractional coordinates in [0,1)^d, N rows.  kinds: gas / cluster / lattice-jit / lattice-exact."""
    kind = draw(st.sampled_from(["gas", "gas", "cluster", "lattice-jit", "lattice-exact" if exact_ok else "lattice-jit"]))
    if kind == "gas":
        return draw(dense((N, d), fl(0.0, 1.0, exclude_max=True))), kind
    if kind == "cluster":
        nc = draw(st.integers(1, 3))
        centres = draw(dense((nc, d), fl(0.0, 1.0)))
        which = draw(st.lists(st.integers(0, nc - 1), min_size=N, max_size=N))
        width = draw(st.sampled_from([0.03, 0.08, 0.15]))
        return (centres[which] + width * draw(dense((N, d), fl(-1.0, 1.0)))) % 1.0, kind
    name = draw(st.sampled_from(sorted(_LAT[d])))
    basis = np.array(_LAT[d][name], dtype=float)
    reps = [draw(st.integers(1, 3)) for _ in range(d)]
    cells = np.array(np.meshgrid(*[np.arange(r, dtype=float) for r in reps], indexing="ij")).reshape(d, -1).T
    f = (cells[:, None, :] + basis[None, :, :]).reshape(-1, d) / np.array(reps, dtype=float)
    f = f[list(draw(st.permutations(range(len(f)))))][:N]
    if len(f) < N:
        f = np.vstack([f, draw(dense((N - len(f), d), fl(0.0, 1.0, exclude_max=True)))])
    if kind == "lattice-jit":
        f = (f + draw(st.sampled_from([1e-3, 1e-2, 5e-2])) * draw(dense((N, d), fl(-1.0, 1.0)))) % 1.0
    return f, f"{kind}:{name}"


@st.composite
def sheared_cells(draw, cell, F):
    """Per-frame cells of a sheared trajectory: same edge lengths and origin, tilt factors drawn per frame
    (|tilt| <= half an edge), at least one frame differing from frame 0."""
    d = cell["d"]
    L = np.diag(cell["H"]).copy()
    cells = []
    for _ in range(F):
        H = np.diag(L)
        t = lambda edge: draw(st.one_of(st.just(0.0), nice_float(-0.5, 0.5))) * edge  # noqa: E731
        H[1, 0] = t(L[0])
        if d == 3:
            H[2, 0] = t(L[0])
            H[2, 1] = t(L[1])
        cells.append({"d": d, "kind": "tri", "H": H, "lo": cell["lo"].copy(), "origin": cell["origin"]})
    if all(np.array_equal(c["H"], cells[0]["H"]) for c in cells[1:]):
        k = draw(st.integers(1, F - 1))
        cells[k]["H"][1, 0] += (0.25 if cells[k]["H"][1, 0] <= 0 else -0.25) * L[0]
    return cells


@st.composite
def config_case(draw, d, N, cell, K=1, frames=(1, 2), shear=False):
    F = draw(st.integers(*frames))
    cells = draw(sheared_cells(cell, F)) if shear else [cell] * F
    affine = shear and draw(st.booleans())
    fr, kinds = [], []
    for k in range(F):
        if affine and k > 0:  # the same particles carried along by the shear, plus a small random motion
            f, kind = (fr[0] + 0.02 * draw(dense((N, d), fl(-1.0, 1.0)))) % 1.0, "affine"
        else:
            f, kind = draw(fracs_st(d, N, exact_ok=cell["kind"] == "ortho" and not shear))
        fr.append(f)
        kinds.append(kind)
    ppp = draw(ppp_st(d, True))
    if shear and draw(st.booleans()):
        ppp = np.ones(d, dtype=int)
    offs = np.zeros((N, d))
    if draw(st.booleans()):
        offs = draw(hnp.arrays(np.int64, (N, d), elements=st.integers(-1, 1))).astype(float) * ppp
    case = {"d": d, "cell": cells[0], "pos": [c["lo"] + (f + offs) @ c["H"] for f, c in zip(fr, cells)],
            "types": draw(types_st(N, K)), "ppp": ppp, "K": K, "kind": "+".join(kinds),
            "timesteps": [100 * k for k in range(F)], "outside": bool(np.any(offs))}
    if shear:
        case["cells"] = cells
    return case


def cells_of(case):
    return case.get("cells") or [case["cell"]] * len(case["pos"])


def snaps_of(case, pos=None):
    """Snapshots with each frame's own cell (hmatrix / boxbounds / realbounds)."""
    from PyMatterSim.reader.reader_utils import Snapshots

    pos = case["pos"] if pos is None else pos
    snaps = [gen.snapshot_from(c, p, case["types"], ts) for c, p, ts in zip(cells_of(case), pos, case["timesteps"])]
    return Snapshots(nsnapshots=len(snaps), snapshots=snaps)


def shear_tags(case):
    if "cells" not in case:
        return []
    H0 = case["cells"][0]["H"]
    out = ["sheared", "affine" if "affine" in case["kind"] else "independent-frames"]
    if not np.any(H0 - np.diag(np.diag(H0))):
        out.append("frame0-untilted")
    return out


@st.composite
def s2_case(draw, d=None, shear=False):
    if d is None:
        d = draw(st.sampled_from([2, 3]))
    N = draw(st.integers(4, 20 if shear else 28))
    K = draw(st.integers(1, min(3, N)))
    rho = draw(st.sampled_from([0.6, 1.0, 2.0]))
    Lm = (N / rho) ** (1.0 / d)
    cell = draw(cell_st(d, "tri" if shear else "any", lmin=0.75 * Lm, lmax=1.3 * Lm, origin="any"))
    case = draw(config_case(d, N, cell, K=K, frames=(2, 3) if shear else (1, 2), shear=shear))
    # minimal bin counts (2..9) in about one case out of six (tied to N: Hypothesis over-samples small selectors)
    ndelta = draw(st.integers(2, 9)) if N % 6 == 0 else draw(st.integers(10, 60))
    frac = draw(st.sampled_from([0.65, 0.8, 0.97]))
    rmax = frac * float(np.diag(cell["H"]).min()) / 2.0
    rdelta = rmax / (ndelta - 0.5)
    slo = max(0.05, rmax / 35.0)
    sig = draw(dense((K, K), nice_float(slo, 0.3)))
    if draw(st.booleans()):
        sig = np.triu(sig) + np.triu(sig, 1).T
    case.update(sigmas=sig, rdelta=rdelta, ndelta=ndelta, savegr=draw(st.booleans()),
                outputfile=draw(st.sampled_from(["", "s2out"])),
                again=draw(st.sampled_from(["no", "no", "no", "repeat", "inplace", "inplace", "alternate"])))
    return case


def same(name, got, want):
    """Bit-for-bit equality of a saved file and the returned array (nan == nan)."""
    want = np.asarray(want)
    g = arr(name, got, shape=want.shape)
    if not np.array_equal(g, want, equal_nan=True):
        bad = np.argwhere(~((g == want) | (np.isnan(g) & np.isnan(want))))
        ti = tuple(int(i) for i in bad[0])
        raise Violation(f"{name}: {len(bad)}/{g.size} entries differ; first at {ti}: got {g[ti]!r}, want {want[ti]!r}")


def _rm(*names):
    for n in names:
        if os.path.exists(n):
            os.remove(n)


def _s2_compare(case, pos, s2, gout, label, cnt):
    """Compare one particle_s2 result with the oracle for the positions `pos` (each frame with its own cell)."""
    d, ppp, nb = case["d"], np.asarray(case["ppp"]), case["ndelta"]
    N = len(case["types"])
    for f, cell in enumerate(cells_of(case)):
        H = cell["H"]
        g, amb, r, rho = ref.particle_g(pos[f], case["types"], H, ppp, case["sigmas"], case["rdelta"], nb)
        want = ref.s2_from_g(g, r, rho, d)
        scale = ref.s2_scale(r, rho, d)
        ok = ~amb & np.isfinite(want) & (g.min(axis=1) > 1e-290)
        cnt["ambiguous"] += int(amb.sum())
        cnt["excluded"] += int((~amb & ~ok).sum())
        cnt["asserted"] += int(ok.sum())
        if ok.any():
            close(f"S2 {label}frame {f}", s2[f][ok], want[ok], rtol=1e-9, atol=1e-12 * scale)
            if gout is not None:
                close(f"particle g {label}frame {f}", gout[f][ok], g[ok], rtol=1e-9, atol=1e-200)
            # contributing neighbours (for the non-trivial rule)
            ii, jj, _, dist, _ = geom.pair_table(pos[f], H, ppp)
            c = np.bincount(ii[dist < r[-1]], minlength=N)
            cnt["rich"] = cnt["rich"] or bool(np.any(c[ok] >= 2))


def check_s2(case):
    d, ppp = case["d"], np.asarray(case["ppp"])
    F, N, nb = len(case["pos"]), len(case["types"]), case["ndelta"]
    snaps = snaps_of(case)
    of = case["outputfile"]
    _rm("s2out.npy", "particle_gr.s2out.npy", "particle_gr..npy")

    def make(sn):
        return S2(snapshots=sn, sigmas=case["sigmas"].copy(), ppp=ppp.copy(), rdelta=case["rdelta"], ndelta=nb)

    obj = make(snaps)
    out = obj.particle_s2(savegr=case["savegr"], outputfile=of)
    if case["savegr"]:
        require(isinstance(out, tuple) and len(out) == 2, lambda: f"savegr=True must return (s2, g), got {type(out)}")
        s2, gout = out
        gout = arr("particle g", gout, shape=(F, N, nb))
    else:
        s2, gout = out, None
    s2 = arr("particle_s2", s2, shape=(F, N))
    same("S2.s2_results (input of spatial_corr / time_corr)", obj.s2_results, s2)
    if of:
        require(os.path.exists(of + ".npy"), "outputfile given but no .npy written")
        same("saved S2 file", np.load(of + ".npy"), s2)
        if case["savegr"]:
            require(os.path.exists("particle_gr." + of + ".npy"), "savegr with outputfile: g file missing")
            same("saved g file", np.load("particle_gr." + of + ".npy"), gout)

    cnt = {"asserted": 0, "excluded": 0, "ambiguous": 0, "rich": False}
    _s2_compare(case, case["pos"], s2, gout, "", cnt)

    # state carried between calls: every call must describe the contents at call time
    again = case.get("again", "no")
    sink = {"asserted": 0, "excluded": 0, "ambiguous": 0, "rich": False}
    rev = [p[::-1].copy() for p in case["pos"]]  # same particles' positions handed to the types in reverse order
    if again == "repeat":
        r2 = arr("particle_s2 (second call)", obj.particle_s2(), shape=(F, N))
        _s2_compare(case, case["pos"], r2, None, "second call on the same object, ", sink)
    elif again == "inplace":
        for sn, p in zip(snaps.snapshots, rev):
            sn.positions[...] = p
        r2 = arr("particle_s2 (after in-place update)", obj.particle_s2(), shape=(F, N))
        _s2_compare(case, rev, r2, None, "after positions were updated in place, ", sink)
    elif again == "alternate":
        objb = make(snaps_of(case, rev))
        rb = arr("particle_s2 (object B)", objb.particle_s2(), shape=(F, N))
        _s2_compare(case, rev, rb, None, "second S2 object, ", sink)
        ra = arr("particle_s2 (object A again)", obj.particle_s2(), shape=(F, N))
        _s2_compare(case, case["pos"], ra, None, "first S2 object after the second was used, ", sink)

    tags = [f"d{d}", case["cell"]["kind"], f"K{case['K']}", f"frames{F}",
            "mask-partial" if not ppp.all() else "mask-full",
            "sigma-sym" if np.array_equal(case["sigmas"], case["sigmas"].T) else "sigma-asym",
            "bins<10" if nb < 10 else ("bins<=20" if nb <= 20 else ("bins<=40" if nb <= 40 else "bins>40")),
            "savegr" if case["savegr"] else "nogr", "file" if of else "nofile",
            "outside" if case["outside"] else "inside", "again-" + again] + shear_tags(case)
    if cnt["excluded"]:
        tags.append("has-excluded")
    if cnt["asserted"] == 0:
        tags.append("nothing-asserted")
    return {"nontrivial": bool(cnt["rich"]), "tags": tags,
            "extra": {"particles_asserted": cnt["asserted"], "particles_excluded_g0": cnt["excluded"],
                      "particles_ambiguous": cnt["ambiguous"], "particles_asserted_repeat_calls": sink["asserted"]}}


def describe_cfg(case):
    dsc = gen.describe_config(case)
    if "cells" in case:
        dsc["H_per_frame"] = [np.round(c["H"], 4).tolist() for c in case["cells"]]
    return dsc


def describe_s2(case):
    dsc = describe_cfg(case)
    dsc.update(sigmas=case["sigmas"].tolist(), rdelta=case["rdelta"], ndelta=case["ndelta"])
    return dsc


# =============================================================================== tetrahedral


@st.composite
def tetra_case(draw, shear=False):
    five = draw(st.integers(0, 3)) == 0
    N = 5 if five else draw(st.integers(6, 16))
    cell = draw(cell_st(3, "tri" if shear else "any", lmin=1.0, lmax=20.0, origin="any"))
    case = draw(config_case(3, N, cell, K=1, frames=(2, 3) if shear else (1, 2), shear=shear))
    case["outputfile"] = draw(st.sampled_from(["", "tetra"]))
    case["again"] = draw(st.sampled_from(["no", "no", "inplace"]))
    return case


def _call_tetra(case, name="q8_tetrahedral", snaps=None):
    snaps = snaps_of(case) if snaps is None else snaps
    F, N = len(case["pos"]), len(case["types"])
    of = case.get("outputfile", "")
    _rm("tetra.npy")
    q = arr(name, q8_tetrahedral(snaps, ppp=np.asarray(case["ppp"]).copy(), outputfile=of), shape=(F, N))
    if of:
        require(os.path.exists(of + ".npy"), "outputfile given but no .npy written")
        same("saved tetrahedral file", np.load(of + ".npy"), q)
    return q


def _tetra_compare(case, pos, q, label, cnt):
    ppp = np.asarray(case["ppp"])
    for f, cell in enumerate(cells_of(case)):
        want, amb, _, _, _ = ref.tetrahedral(pos[f], cell["H"], ppp)
        ok = ~amb
        cnt["asserted"] += int(ok.sum())
        cnt["ambiguous"] += int(amb.sum())
        if ok.any():
            close(f"tetrahedral order {label}frame {f}", q[f][ok], want[ok], rtol=1e-9, atol=1e-12)
            cnt["nontrivial"] = cnt["nontrivial"] or bool(np.any(np.abs(want[ok] - 1.0) > 1e-6))


def check_tetra(case):
    ppp = np.asarray(case["ppp"])
    F, N = len(case["pos"]), len(case["types"])
    snaps = snaps_of(case)
    q = _call_tetra(case, snaps=snaps)
    cnt = {"asserted": 0, "ambiguous": 0, "nontrivial": False}
    _tetra_compare(case, case["pos"], q, "", cnt)
    again = case.get("again", "no")
    if again == "inplace":  # same Snapshots object, new contents
        rot = [np.roll(p, 1, axis=0) * 1.0 for p in case["pos"]]
        new = [c["lo"] + ((p - c["lo"]) @ np.linalg.inv(c["H"]) * 0.9 + 0.05) @ c["H"] for p, c in zip(rot, cells_of(case))]
        for sn, p in zip(snaps.snapshots, new):
            sn.positions[...] = p
        q2 = _call_tetra(case, "q8_tetrahedral (after in-place update)", snaps=snaps)
        _tetra_compare(case, new, q2, "after positions were updated in place, ",
                       {"asserted": 0, "ambiguous": 0, "nontrivial": False})
    tags = ["N5" if N == 5 else ("N6-9" if N < 10 else "N10+"), case["cell"]["kind"], f"frames{F}",
            "mask-partial" if not ppp.all() else "mask-full", case["kind"].split("+")[0].split(":")[0],
            "outside" if case["outside"] else "inside", "again-" + again] + shear_tags(case)
    if cnt["ambiguous"]:
        tags.append("has-ambiguous")
    return {"nontrivial": cnt["nontrivial"], "tags": tags,
            "extra": {"particles_asserted": cnt["asserted"], "particles_ambiguous": cnt["ambiguous"]}}


# ---- perfect coordination: open tetrahedral cluster (rotated, scaled) and diamond lattice


@st.composite
def perfect_case(draw):
    kind = draw(st.sampled_from(["cluster", "cluster", "diamond"]))
    if kind == "diamond":
        a = draw(nice_float(1.0, 6.0))
        reps = draw(st.sampled_from([1, 1, 2]))
        L = a * reps
        f = ref.diamond(reps)
        shift = draw(dense((3,), fl(0.0, 1.0)))
        f = (f + shift) % 1.0
        N = len(f)
        offs = np.zeros((N, 3))
        if draw(st.booleans()):
            offs = draw(hnp.arrays(np.int64, (N, 3), elements=st.integers(-1, 1))).astype(float)
        lo = np.array([draw(nice_float(-10.0, 10.0)) for _ in range(3)])
        cell = {"d": 3, "kind": "ortho", "H": np.diag([L, L, L]), "lo": lo, "origin": "arbitrary"}
        perm = np.array(draw(st.permutations(range(N))))
        pos = (lo + (f + offs) @ cell["H"])[perm]
        return {"d": 3, "cell": cell, "pos": [pos], "types": np.ones(N, dtype=int), "ppp": np.ones(3, dtype=int),
                "K": 1, "kind": f"diamond{reps}", "timesteps": [0], "outside": bool(np.any(offs)),
                "centres": np.arange(N)}
    s = draw(st.one_of(nice_float(0.1, 3.0), st.sampled_from([0.5, 1.0, 2.0])))
    qv = draw(dense((4,), fl(-1.0, 1.0)))
    if np.linalg.norm(qv) < 0.1:
        qv = np.array([1.0, 0.0, 0.0, 0.0])
    R = ref.rotation_from_quaternion(qv)
    verts = s * ref.TETRA_VERTICES @ R.T
    nextra = draw(st.integers(0, 5))
    dirs = draw(dense((nextra, 3), fl(-1.0, 1.0)))
    rad = draw(dense((nextra,), fl(1.3, 3.0)))
    extras = []
    for v, r_ in zip(dirs, rad):
        nv = np.linalg.norm(v)
        u = v / nv if nv > 1e-3 else np.array([0.0, 0.0, 1.0])
        extras.append(s * r_ * u)
    rel = np.vstack([np.zeros((1, 3)), verts] + ([np.array(extras)] if extras else []))
    N = len(rel)
    cell = draw(cell_st(3, "any", lmin=20.0 * s, lmax=40.0 * s, origin="any"))
    cf = draw(dense((3,), fl(0.3, 0.7)))
    centre = cell["lo"] + cf @ cell["H"]
    perm = np.array(draw(st.permutations(range(N))))
    pos = (centre + rel)[perm]
    ppp = draw(ppp_st(3, True))
    return {"d": 3, "cell": cell, "pos": [pos], "types": np.ones(N, dtype=int), "ppp": ppp, "K": 1,
            "kind": "cluster", "timesteps": [0], "outside": False,
            "centres": np.array([int(np.nonzero(perm == 0)[0][0])]), "scale": s, "nextra": nextra}


def check_perfect(case):
    H, ppp = case["cell"]["H"], np.asarray(case["ppp"])
    N = len(case["types"])
    q = _call_tetra(case)
    c = case["centres"]
    close("tetrahedral order at perfectly coordinated sites", q[0][c], np.ones(len(c)), rtol=0, atol=1e-12)
    want, amb, _, _, _ = ref.tetrahedral(case["pos"][0], H, ppp)
    ok = ~amb
    if ok.any():
        close("tetrahedral order (all sites)", q[0][ok], want[ok], rtol=1e-9, atol=1e-12)
    tags = [case["kind"], "N5" if N == 5 else "N>5", case["cell"]["kind"],
            "mask-partial" if not ppp.all() else "mask-full"]
    return {"nontrivial": True, "tags": tags, "extra": {"perfect_sites": int(len(c))}}


def describe_perfect(case):
    return {"kind": case["kind"], "N": int(len(case["types"])), "H": np.round(case["cell"]["H"], 4).tolist(),
            "ppp": np.asarray(case["ppp"]).tolist(), "pos": np.round(case["pos"][0][:6], 5).tolist()}


# ---- metamorphic: a particle outside the four nearest of i moves farther from i; q_i does not change


@st.composite
def far_case(draw):
    N = draw(st.integers(6, 14))
    cell = draw(cell_st(3, "any", lmin=1.0, lmax=20.0, origin="any"))
    f = draw(dense((N, 3), fl(0.3, 0.7)))
    ppp = draw(ppp_st(3, True))
    return {"d": 3, "cell": cell, "f": f, "types": np.ones(N, dtype=int), "ppp": ppp, "K": 1, "kind": "gas",
            "timesteps": [0], "outside": False, "i": draw(st.integers(0, N - 1)), "rank": draw(st.integers(0, N)),
            "s": draw(st.sampled_from([1.01, 1.05, 1.1, 1.2]))}


def check_far(case):
    H, lo, ppp = case["cell"]["H"], case["cell"]["lo"], np.asarray(case["ppp"])
    f = case["f"]
    N = len(f)
    i = case["i"]
    pos = lo + f @ H
    want, amb, nn, d4, _ = ref.tetrahedral(pos, H, ppp)
    if amb[i]:
        return {"nontrivial": False, "tags": ["ambiguous-centre"]}
    dist_i = np.sqrt((((f - f[i]) @ H) ** 2).sum(axis=1))  # |frac diff| <= 0.4: no wrapping
    cand = [j for j in np.argsort(dist_i) if j != i and j not in nn[i] and dist_i[j] > d4[i] * (1 + 1e-6)]
    if not cand:
        return {"nontrivial": False, "tags": ["no-candidate"]}
    rank = case["rank"] % len(cand)
    m = cand[rank]
    f2 = f.copy()
    f2[m] = f[i] + case["s"] * (f[m] - f[i])  # |frac diff| <= 0.48 < 1/2: still the same image
    pos2 = lo + f2 @ H
    base = dict(case, pos=[pos])
    moved = dict(case, pos=[pos2])
    q1 = _call_tetra(base)
    q2 = _call_tetra(moved)
    close("tetrahedral order before the move", q1[0][i], want[i], rtol=1e-9, atol=1e-12)
    close("tetrahedral order of i after moving a non-neighbour farther away", q2[0][i], q1[0][i], rtol=0, atol=1e-12)
    tags = ["moved-5th" if rank == 0 else "moved-farther-rank", case["cell"]["kind"],
            "mask-partial" if not ppp.all() else "mask-full"]
    return {"nontrivial": True, "tags": tags}


def describe_far(case):
    return {"N": int(len(case["f"])), "H": np.round(case["cell"]["H"], 4).tolist(), "i": case["i"],
            "rank": case["rank"], "s": case["s"], "f": np.round(case["f"][:4], 4).tolist()}


# =============================================================================== nematic

_UNIT_CELL = {"d": 2, "kind": "ortho", "H": np.eye(2), "lo": np.zeros(2), "origin": "zero"}


@st.composite
def nematic_case(draw):
    F = draw(st.integers(1, 3))
    N = draw(st.one_of(st.integers(1, 12), st.integers(3, 12)))
    field = draw(st.sampled_from(["random", "random", "aligned", "crisp"]))
    if field == "crisp":
        ang = draw(hnp.arrays(np.int64, (F, N), elements=st.integers(0, 15))).astype(float) * (math.pi / 8.0)
    elif field == "aligned":
        base = draw(fl(0.0, 2 * math.pi))
        ang = base + draw(dense((F, N), fl(-0.2, 0.2)))
        flip = draw(hnp.arrays(np.int64, (F, N), elements=st.integers(0, 1)))
        ang = ang + math.pi * flip  # head-tail symmetry
    else:
        ang = draw(dense((F, N), fl(0.0, 2 * math.pi)))
    use_nb = draw(st.integers(0, 2)) > 0 if N >= 2 else False
    nbl = None
    nmax = 30
    if use_nb:
        nbl = []
        for _ in range(F):
            frame = []
            for i in range(N):
                others = [j for j in range(N) if j != i]
                k = draw(st.integers(0, min(len(others), 6)))
                frame.append(list(draw(st.permutations(others)))[:k])
            nbl.append(frame)
        maxcn = max(len(x) for fr in nbl for x in fr)
        nmax = draw(st.sampled_from([max(1, maxcn), maxcn + 1, 30]))
    return {"angles": ang, "nbl": nbl, "Nmax": nmax, "field": field, "reuse": draw(st.booleans()),
            "outputfile": draw(st.sampled_from(["nem", "nem", "out.v2", ""]))}


def check_nematic(case):
    ang = case["angles"]
    F, N = ang.shape
    u = np.stack([np.cos(ang), np.sin(ang)], axis=-1)
    snaps = gen.snapshots_from({"cell": _UNIT_CELL, "pos": [u[f].copy() for f in range(F)],
                                "types": np.ones(N, dtype=int), "timesteps": list(range(F))})
    of = case["outputfile"]
    nbfile = ""
    Q = ref.nematic_q(u)
    qname = of + ".QIJ_raw.npy"
    if case["nbl"] is not None:
        nbfile = "nematic_neighbors.dat"
        with open(nbfile, "w") as fh:
            fh.write(ref.neighbour_text(case["nbl"]))
        Q = ref.nematic_cg(Q, case["nbl"])
        qname = of + ".QIJ_cg.npy"
    for suffix in (".QIJ_raw.npy", ".QIJ_cg.npy", ".Qtrace.npy", ".eigval.npy"):
        _rm(of + suffix)
    want_t = ref.nematic_trace(Q)
    want_e = ref.nematic_eig(Q)

    no = NematicOrder(snaps, None)
    t = arr("tensor(eigvals=False)", no.tensor(ndim=2, neighborfile=nbfile, Nmax=case["Nmax"], eigvals=False,
                                               outputfile=of), shape=(F, N))
    Qlib = arr("NematicOrder.QIJ", no.QIJ, shape=(F, N, 2, 2))
    close("Q tensor", Qlib, Q, rtol=1e-9, atol=1e-12)
    close("scalar order sqrt(d/(d-1) tr Q^2)", t, want_t, rtol=1e-9, atol=1e-12)
    require(os.path.exists(qname), f"tensor side file {qname} not written")
    same("Q tensor side file", np.load(qname), Qlib)
    require(os.path.exists(of + ".Qtrace.npy"), "Qtrace side file not written")
    same("Qtrace side file", np.load(of + ".Qtrace.npy"), t)

    # state between calls: half of the cases ask the same object again (self.QIJ is overwritten by every call)
    no2 = no if case.get("reuse") else NematicOrder(snaps, None)
    e = arr("tensor(eigvals=True)", no2.tensor(ndim=2, neighborfile=nbfile, Nmax=case["Nmax"], eigvals=True,
                                               outputfile=of), shape=(F, N))
    close("scalar order 2 lambda_max", e, want_e, rtol=1e-9, atol=1e-12)
    require(os.path.exists(of + ".eigval.npy"), "eigval side file not written")
    same("eigval side file", np.load(of + ".eigval.npy"), e)
    close("2D: trace scalar equals twice the largest eigenvalue", t, e, rtol=1e-9, atol=1e-9)

    spread = bool(N >= 2 and np.any(np.abs(np.sin(ang - ang[:, :1])) > 1e-6))
    tags = [f"frames{F}", "N1" if N == 1 else ("N2-5" if N <= 5 else "N6+"), case["field"],
            "neighbours" if case["nbl"] is not None else "raw", "file-" + (of or "empty"),
            "same-object-twice" if case.get("reuse") else "fresh-objects"]
    if case["nbl"] is not None:
        cns = [len(x) for fr in case["nbl"] for x in fr]
        tags.append("cn-varies" if len(set(cns)) > 1 else "cn-equal")
        # rows shorter than the frame maximum are zero-padded by the reader, i.e. padded with particle 0, whose
        # Q has eigenvalues +-1/2 (never zero): a leak through the padding changes the average by Q_0/(1+cn)
        if any(len(set(len(x) for x in fr)) > 1 for fr in case["nbl"]):
            tags.append("cn-varies-within-frame")
        if any(0 < len(x) < max(len(y) for y in fr) for fr in case["nbl"] for x in fr):
            tags.append("padded-rows-with-neighbours")
        if 0 in cns:
            tags.append("has-cn0")
        tags.append("Nmax=maxcn" if case["Nmax"] == max(1, max(cns)) else "Nmax>maxcn")
        if F > 1 and any(case["nbl"][f] != case["nbl"][0] for f in range(1, F)):
            tags.append("lists-differ-between-frames")
    return {"nontrivial": spread, "tags": tags}


def describe_nematic(case):
    return {"angles": np.round(case["angles"], 5).tolist(), "nbl": case["nbl"], "Nmax": case["Nmax"],
            "outputfile": case["outputfile"]}


# =============================================================================== gyration


@st.composite
def cloud_case(draw):
    d = draw(st.sampled_from([2, 3]))
    kind = draw(st.sampled_from(["blob", "aniso", "line", "symmetric", "pair", "grid"]))
    if kind == "pair":
        x = draw(dense((2, d), fl(-1.0, 1.0)))
    elif kind == "symmetric":
        if d == 2:
            n = draw(st.integers(3, 8))
            th = 2 * math.pi * np.arange(n) / n + draw(fl(0.0, 1.0))
            x = np.stack([np.cos(th), np.sin(th)], axis=1)
        else:
            x = np.array([(a, b, c) for a in (-1.0, 1.0) for b in (-1.0, 1.0) for c in (-1.0, 1.0)])
            if draw(st.booleans()):
                x = ref.TETRA_VERTICES.copy()
    elif kind == "grid":
        n = draw(st.integers(2, 4))
        x = np.array(np.meshgrid(*[np.arange(n, dtype=float)] * d)).reshape(d, -1).T
        x = x[: draw(st.integers(2, len(x)))]
    else:
        N = draw(st.integers(2, 40))
        x = draw(dense((N, d), fl(-1.0, 1.0)))
        if kind == "aniso":
            x = x * np.array([draw(st.sampled_from([1.0, 0.3, 0.05, 3.0])) for _ in range(d)])
        if kind == "line":
            t = draw(dense((N, 1), fl(-1.0, 1.0)))
            dirv = np.array([draw(fl(-1.0, 1.0)) for _ in range(d)])
            x = t * (dirv if np.linalg.norm(dirv) > 1e-3 else np.eye(d)[0])
    if d == 3 and draw(st.booleans()):
        qv = draw(dense((4,), fl(-1.0, 1.0)))
        if np.linalg.norm(qv) > 0.1:
            x = x @ ref.rotation_from_quaternion(qv).T
    scale = 10.0 ** draw(st.sampled_from([-2, -1, 0, 0, 1, 2]))
    scale *= draw(st.sampled_from([1.0, 1.0, 0.37, 2.5]))
    offset = np.array([draw(st.one_of(st.just(0.0), nice_float(-100.0, 100.0))) for _ in range(d)])
    return {"pos": offset + scale * x, "kind": kind, "d": d}


def check_gyration(case):
    pos = case["pos"]
    N, d = pos.shape
    want, g = ref.gyration_list(pos)
    spread = float(np.abs(pos - pos[0]).max())
    T = g["trace"]
    # domain: a cloud with extent; coincident points (R_g = 0) or an extent below 1e-6 of the coordinate
    # magnitude (centring then loses the digits that carry the shape) are not asserted; nor are extents below 1e-60,
    # where fourth powers of lengths (products of eigenvalues in the anisotropy) underflow -- no property is about
    # underflow (seed 3 drew two points 1.3e-82 apart: nan on both sides)
    if not (spread > 1e-6 * float(np.abs(pos).max()) and spread > 1e-60 and T > 0):
        return {"nontrivial": False, "tags": ["degenerate-or-illconditioned", f"d{d}"]}
    out = gyration_tensor(pos.copy())
    require(isinstance(out, (list, tuple)) and len(out) == len(want),
            lambda: f"expected a list of {len(want)} descriptors, got {type(out).__name__} of length "
                    f"{len(out) if hasattr(out, '__len__') else '?'}")
    try:
        got = np.array([complex(v) for v in out])
    except (TypeError, ValueError) as e:
        raise Violation(f"gyration descriptors are not scalars: {out!r:.300} ({e})")
    got = arr("gyration descriptors", got, shape=(len(want),))
    names = (["radius_of_gyration", "asphericity", "acylindricity", "shape_anisotropy", "fractal_dimension"]
             if d == 3 else ["radius_of_gyration", "acylindricity", "fractal_dimension"])
    atols = {"radius_of_gyration": 1e-12 * g["rg"], "asphericity": 1e-11 * T, "acylindricity": 1e-11 * T,
             "shape_anisotropy": 1e-11, "fractal_dimension": 0.0}
    fractal_ok = abs(math.log10(g["rg"])) > 1e-3
    for k, nm in enumerate(names):
        if nm == "fractal_dimension" and not fractal_ok:
            continue
        close(nm, got[k], complex(want[k]), rtol=1e-9, atol=atols[nm])
    lam = g["lam"]
    tags = [f"d{d}", case["kind"], "N2" if N == 2 else ("N3-9" if N < 10 else "N10+"),
            "Rg<1" if g["rg"] < 1 else "Rg>1", "fractal-asserted" if fractal_ok else "fractal-skipped",
            "offset" if np.any(np.abs(pos.mean(axis=0)) > 10 * spread) else "centred-ish"]
    if lam[-1] > 0 and (lam[1] - lam[0]) < 1e-9 * lam[-1]:
        tags.append("degenerate-eigenvalues")
    if np.iscomplexobj(np.asarray(out)):
        tags.append("complex-return")
    return {"nontrivial": bool(N >= 3), "tags": tags}


def describe_cloud(case):
    return {"kind": case["kind"], "N": int(len(case["pos"])), "pos": np.round(case["pos"][:6], 6).tolist()}


# =============================================================================== facets

FACETS = [
    Facet("s2_2d", s2_case(2), check_s2, quick=400, thorough=12000, describe=describe_s2, shards_quick=2,
          rule="2D S2 vs reference; non-trivial = some asserted particle has >= 2 contributing neighbours"),
    Facet("s2_3d", s2_case(3), check_s2, quick=400, thorough=12000, describe=describe_s2, shards_quick=2,
          rule="3D S2 vs reference; non-trivial = some asserted particle has >= 2 contributing neighbours"),
    Facet("s2_sheared", s2_case(None, shear=True), check_s2, quick=200, thorough=8000, describe=describe_s2,
          shards_quick=2, rule="2-3 frames, triclinic, tilt factors differ between frames (same edge lengths), 2D and "
                               "3D; each frame against the oracle with its own cell; non-trivial as s2_2d"),
    Facet("tetra_generic", tetra_case(), check_tetra, quick=600, thorough=20000, describe=describe_cfg,
          shards_quick=2, rule="3D, N 5..16 (N = 5 forced in 1/4); non-trivial = an asserted particle with q != 1"),
    Facet("tetra_sheared", tetra_case(shear=True), check_tetra, quick=250, thorough=10000, describe=describe_cfg,
          rule="2-3 frames, triclinic, tilt factors differ between frames; each frame with its own cell"),
    Facet("tetra_perfect", perfect_case(), check_perfect, quick=300, thorough=10000, describe=describe_perfect,
          rule="centre of a rotated/scaled regular tetrahedron (+0..5 farther particles) and every diamond site: q = 1"),
    Facet("tetra_far_move", far_case(), check_far, quick=300, thorough=15000, describe=describe_far,
          rule="a particle outside the four nearest of i is moved farther from i; non-trivial = a candidate exists"),
    Facet("nematic", nematic_case(), check_nematic, quick=600, thorough=30000, describe=describe_nematic,
          shards_quick=2, rule="2D unit vectors from angles; non-trivial = N >= 2 and not all orientations parallel"),
    Facet("gyration", cloud_case(), check_gyration, quick=1500, thorough=60000, describe=describe_cloud,
          shards_quick=2, rule="clouds N >= 2 in 2D/3D; non-trivial = R_g > 0 and N >= 3"),
]
