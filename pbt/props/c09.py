"""C09 — 3D bond-orientational order (boo_3d) equals Steinhardt's definitions.

Reference-model differential: generated 3D configurations (orthogonal / LAMMPS-triclinic / axis-permuted general cells,
every periodicity mask, particles optionally stored as periodic images outside the cell, 1-3 frames; thorough tier up to
8 frames and N up to 513) with neighbour files written here in the library's format (`id cn neighborlist` header per
frame, 1-based ids, rows in any id order, entries of a row in distance / id / reverse-id / random order, every particle
>= 1 neighbour, directed lists) and optional positive weight files.  The expected q_lm, Q_lm, q_l, w_l, w-hat_l, s_ij
(+ thresholded count), G_l(r) columns and C_l(t) come from pbt/ref/steinhardt.py (own Y_lm recurrence, exact-rational
Racah 3-j symbols).

Soundness of the numerical comparison (DESIGN 1.4): the reference returns, per particle, a derived bound `eps`
on the componentwise error that any float64 implementation going through theta = arccos(z/r), phi = atan2(y, x)
may make (arccos conditioning 4.5e-16/sin(theta) capped at 3e-8, coordinate rounding relative to the bond
length, both times the sup of |grad Y_lm|; floor 1e-11).  Tolerances of all derived quantities are propagated
from eps (q_l: sqrt(4 pi) eps; w_l: 3 |q|^2 ||dq||; w-hat_l: 6 ||dq||/|q|; s_ij: 2 ||dq_i||/|q_i| + 2 ||dq_j||/|q_j|
+ 1e-6 for the float32 storage).  Items whose conditioning bound exceeds 1e-3 (|q| ~ 0, where w-hat and s_ij are
undefined) are not compared and are counted as `degenerate`.  Thresholded counts and histogram bins use the
interval rule (margin 1e-5 around c; bins with a pair within 1e-9 of an edge are skipped).  The number of bins
int(Lmin/2/rdelta) is the documented formula evaluated in double precision: it is one correctly rounded quotient
whatever the order of the two divisions (halving and doubling are exact), hence crisp also at nominally integer quotients.

Preconditions built into the generators (documented domain): no coincident particles and no half-cell
minimum-image ties (particles sit on an odd g x g x g fractional grid with |jitter| < 0.24 grid cells, so every
fractional separation stays >= 0.02/g away from 1/2), every particle has >= 1 neighbour (boo.py L136 divides by
cn), no particle lists itself (probed: the unchanged qlm_Qlm returns nan for a zero-length bond - out of domain), no
neighbour listed twice (except what the library's own Voronoi writer emits), weights > 0 (signed weights would break the
stated bound q_l <= 1 - out of domain), same N and edge lengths in all frames (asserted by boo_3d.__init__).

CLAUSES (statement / quantifier -> facet : deciding assertion -> populated class tags; counts per quick run in evidence/C09.json)
  configuration       N 2..30 (sizes: 31..133, thorough ..513), cell ortho / tri / general (axis-permuted, not lower
                      triangular), any origin, all 8 masks on tilted cells, images outside the cell, 1..3 (deep: 4..8)
                      frames, per-frame tilt, integer-dtype snapshot, compact block (no bond wraps)
                      -> every facet through case_st : vectors() -> ortho tri general tri-ppp000..111 mask-partial outside
                      sheared frames1..3 N2..N5 size-boundary-N31..N133 int64-snapshot compact-block wraps-none wraps-some
                      batch-all-bonds-wrap bond-cartesian-short-but-wraps tilt-negative tilt-mixed-sign
  neighbour file      header variants, trailing blanks, rows in any id order, entries by distance / id / reverse id /
                      random, id text 7 / 7.0 / 7.000000e+00, cn 1..14 varying inside a frame (sizes: 29..33, 49..51,
                      63..65), per-frame lists with the largest cn in any frame, Nmax default / exact / 200 / truncating
                      -> write_files : vectors(), check_sij id / cn columns -> rows-shuffled order-* idfmt* cn-varies-within-frame
                      p0-single-bond has-single-neighbour cn>=9 cn-boundary-* Nmax-* default-Nmax-truncates
                      max-cn-differs-between-frames lists-directed lists-symmetric
  neighbour definitions (N-nearest, cut-off, Voronoi) -> libneigh : files of the library's own writers -> writer-*
  weight file         none / all equal / random positive / integer text; rows of the weight file shuffled independently;
                      weights follow the entry order of the row; "no weights" as omitted / None / "" -> vectors() -> w-*
                      weighted-rows-not-id-sorted no-weights-as-*
  degree l            2..12, python int / numpy int -> all -> l2..l12 l-odd l-even l-as-*
  q_lm                weight-normalised mean of Y_lm over minimum-image bonds -> vectors(): smallqlm, qlm_Qlm()[0] (three
                      evaluations) within eps
  Q_lm                (q_i + sum_j q_j)/(1 + n_i), gathered over the particle's OWN list -> vectors(): largeQlm,
                      qlm_Qlm()[1] -> lists-directed cg
  q_l, Q_l            verify_ql: both flags, npy / dat / txt / extension-less output -> files0..3
  w_l, w-hat_l        verify_w: both flags, output files, odd l exactly 0 -> w_cap w_cap_high_l history sizes; what-sign-mixed
  s_ij + count        check_sij: list / stacked / outputsij text / csv, c in {-1,..,0.9} by the interval rule, three calls
                      -> c* files* some-above-c none-above-c has-degenerate-pair
  spatial correlation verify_spatial: r, gr, gA columns, csv, both flags twice -> bins-frac bins-crisp-dyadic
                      bins-crisp-decimal floor-division-would-differ one-bin risky-bins
  time correlation    verify_time: t axis, C_l(t), lag 0 == 1, csv, both flags twice -> even uneven
                      uneven-repeated-timestep uneven-goes-back all-equal-timesteps even-backwards single dt-int
  equal weights == unweighted   check_qlm, class w-equal (1e-12)
  0 <= q_l <= 1, |s_ij| <= 1   verify_ql / check_rows on every case
  tabulated crystals  crystals: fcc hcp bcc8 bcc14 sc ico x l4 l6 x bulk / rotated cluster
  histories           calls (two degrees alternating, Wignerindex direct), history (all six methods twice in a drawn
                      order, second object of the same degree and possibly the same shape, every result kept alive and
                      re-compared bit for bit after every step) -> same-shape other-shape first-* *-twice-same-flag *-both-flags;
                      qlm: a second boo_3d on the SAME Snapshots object after its positions were permuted in place
                      -> snapshots-mutated-in-place
  Weak before round 3 and closed now: sizes stopped at N = 30 / cn = 14 (-> sizes, sizes_large); the order of the entries
  inside a row was distance or random only (-> order-id, order-rev-id); results were compared and discarded at once (->
  kept-alive checks in qlm / sij / w_cap / corr / history); every method was evaluated once per flag (-> second / third
  evaluation); ql_Ql txt / extension-less output, integer-text weights, float-text ids, mask / degree representations,
  integer snapshots, general cell matrices, non-monotonic timesteps, nominally integer bin quotients were never drawn.
"""
from __future__ import annotations

import itertools
import math
import os

import numpy as np
from hypothesis import strategies as st
from hypothesis.extra import numpy as hnp

from ..gen import cell_st, fl, ppp_st, snapshot_from
from ..harness import Facet, Violation
from ..ref import steinhardt as S
from ..util import arr, close, col, columns, require

from PyMatterSim.static.boo import boo_3d
from PyMatterSim.neighbors.calculate_neighbors import Nnearests, cutoffneighbors
from PyMatterSim.neighbors.freud_neighbors import cal_neighbors
from PyMatterSim.reader.reader_utils import SingleSnapshot, Snapshots
from PyMatterSim.utils.funcs import Wignerindex

RULE = ("3D configurations on a jittered odd fractional grid (N 2..30; facet sizes 31..133; thorough ..513; ortho / triclinic / "
        "axis-permuted general cell, any origin, all 8 periodicity masks (half of the tilted cases partial), optional image "
        "offsets, compact no-wrap blocks, integer-dtype snapshots, 1..3 frames (thorough: 8), sheared trajectories = per-frame "
        "tilt factors with the same edge lengths) x synthetic neighbour files (k-nearest or random directed lists, entries in "
        "distance / id / reverse-id / random order, ids as 7 / 7.0 / 7.000000e+00, cn 1..14 varying inside the frame with "
        "particle 1 on a single bond, cn 29..33 / 49..51 / 63..65 in facet sizes, shuffled rows, per-frame lists) x weights "
        "{none, all equal, random positive, integer text} x l 2..12 (int / numpy int) x local / coarse-grained x Nmax {default, "
        "exact, 200, truncating} x mask as array / list / tuple / float / bool; every method twice per object, all results kept "
        "alive and re-compared; a second object on the same snapshots after an in-place change of the positions; reference crystals fcc / hcp / bcc(8,14) / sc / icosahedron as rotated open clusters and "
        "periodic bulk; neighbour files produced by the library's own N-nearest / cut-off / Voronoi writers.  non-trivial = "
        "coordination differs between particles, or weights non-uniform, or >= 2 frames (crystal facet: a rotated cluster or "
        "a periodic bulk crystal)")
ASSUMPTIONS = [
    "Y_lm = orthonormal Condon-Shortley harmonics, vector order m = -l..l (contract of property C08)",
    "minimum image = fractional rounding (contract of property C02); generated bonds are never within 0.02/g "
    "(fractional, g = grid size) of a half-cell tie, particles never coincide, no particle lists itself (nan in the unchanged code)",
    "weights are positive (the stated bound q_l <= 1 does not hold for signed weights)",
    "Nmax smaller than a coordination number means: the first Nmax listed neighbours (and weights) are used "
    "(documented behaviour of read_neighbors)",
    "spatial_corr returns the columns of the vector-conditional g(r) of property C13 (r, gr, gA) averaged over "
    "frames with int(Lmin/2/rdelta) bins evaluated in double precision; the prefactor 4 pi/(2l+1) and the ratio gA/gr "
    "of docs eq. (8) are left to the caller, as the repository's own test does",
    "time_corr: all timestep differences equal (also all zero / all negative) = origin-averaged; otherwise the first frame is "
    "the only origin; t = (timestep - first timestep) dt (contract of property C14)",
    "threshold c anywhere in [-1, 1): only listed bonds are counted, the zero padding of the s_ij table is not a bond",
    "tabulated crystal values: Steinhardt et al. 1983 / Mickel et al. 2013, compared at 1e-5",
    "arrays / DataFrames returned by any method are the caller's: later calls on any boo_3d object leave them bit-for-bit unchanged",
]

SQ = math.sqrt


# ============================================================================= generators

PARTIAL_MASKS = [np.array(p, dtype=int) for p in itertools.product([0, 1], repeat=3) if 0 < sum(p) < 3]
ORDERS = ("distance", "id", "rev-id", "random")
PPP_REPRS = ("int64", "int64", "int64", "list", "tuple", "float64", "float32", "int32", "bool")
ID_FORMATS = ("%d", "%d", "%d", "%.1f", "%.6e")
# sizes around the block sizes a "vectorised" loop typically uses (EXTENSION_3 class 1)
NS_QUICK = (31, 32, 33, 33, 63, 64, 65, 65, 99, 100, 101, 101, 127, 128, 129, 129, 129, 133)   # B + 1 weighted up
NS_THOROUGH = (170, 199, 200, 201, 255, 256, 257, 266, 341, 399, 401, 499, 500, 501, 511, 512, 513)
CN_BIG_QUICK = (29, 30, 31, 32, 33, 49, 50, 51, 63, 64, 65)
CN_BIG_THOROUGH = (99, 100, 101, 127, 128, 129, 133, 199, 200, 201)


def _unit(k):
    return ((k * 2654435761) % 2 ** 32) / 2.0 ** 32


_u32 = st.integers(0, 2 ** 32 - 1)


def pick(values):
    """Evenly spread choice (Hypothesis' own integer / sampled_from draws favour the first entries; the scrambled
    index keeps the class histogram flat while still shrinking to values[0])."""
    values = list(values)
    return _u32.map(lambda k: values[min(int(_unit(k) * len(values)), len(values) - 1)])


def _grid_for(N):
    g = 3
    while g ** 3 < N:
        g += 2
    return g


@st.composite
def frames_st(draw, cells, N, g, T, amp, ppp, outside, compact=False):
    """T position arrays on the jittered grid, frame k mapped through ITS OWN cell: lo + f_k @ H_k.
    compact: all sites from the sub-block ijk < (g+1)/2, so that no fractional separation reaches 1/2 (no bond needs
    wrapping).  N > 40: sites / jitter / image offsets come from a numpy generator seeded by a drawn integer."""
    if isinstance(cells, dict):
        cells = [cells] * T
    pos = []
    sites = None
    h = (g + 1) // 2
    pool = [a * g * g + b * g + c for a in range(h) for b in range(h) for c in range(h)] if compact else None
    rng = np.random.default_rng(draw(st.integers(0, 2 ** 32 - 1))) if N > 40 else None
    for k in range(T):
        if sites is None or amp == 0.0 or draw(st.booleans()):
            if rng is not None:
                sites = rng.permutation(g ** 3)[:N].tolist()
            elif compact:
                sites = draw(st.lists(st.sampled_from(pool), min_size=N, max_size=N, unique=True))
            else:
                sites = draw(st.lists(st.integers(0, g ** 3 - 1), min_size=N, max_size=N, unique=True))
        ijk = np.array([[s // (g * g), (s // g) % g, s % g] for s in sites], dtype=float)
        if amp > 0 and rng is not None:
            jit = amp * rng.uniform(-1.0, 1.0, size=(N, 3))
        elif amp > 0:
            jit = amp * draw(hnp.arrays(np.float64, (N, 3), elements=fl(-1.0, 1.0)))
        else:
            jit = np.zeros((N, 3))
        f = (ijk + 0.5 + jit) / g
        offs = np.zeros((N, 3))
        if outside and rng is not None:
            offs = rng.integers(-1, 2, size=(N, 3)).astype(float) * ppp
        elif outside:
            offs = draw(hnp.arrays(np.int64, (N, 3), elements=st.integers(-1, 1))).astype(float) * ppp
        pos.append(cells[k]["lo"] + (f + offs) @ cells[k]["H"])
    return pos


def _lists(rng, pos, H, ppp, mode, cn, order="asis"):
    """Neighbour rows of one frame: WHICH particles (the cn[i] nearest / a random subset) and IN WHICH ORDER they are
    listed (by distance, by increasing id, by decreasing id, random)."""
    N = len(pos)
    out = []
    for i in range(N):
        others = np.delete(np.arange(N), i)
        vec, _ = S.min_image(pos[others] - pos[i], H, ppp)
        d2 = (vec * vec).sum(axis=1)
        if mode == "nearest":
            sel = others[np.argsort(d2, kind="stable")][: cn[i]]
        else:
            sel = rng.permutation(others)[: cn[i]]
        if order == "id":
            sel = np.sort(sel)
        elif order == "rev-id":
            sel = np.sort(sel)[::-1].copy()
        elif order == "random":
            sel = rng.permutation(sel)
        elif order == "distance":
            dd = dict(zip(others.tolist(), d2.tolist()))
            sel = np.array(sorted(sel.tolist(), key=lambda j: dd[j]), dtype=int)
        out.append(np.asarray(sel, dtype=int))
    return out


def _schedule(draw, T, sched):
    """Timesteps of the T frames.  even: constant step; uneven: increasing steps; repeated: one step is 0 (the same
    timestep written twice); back: one step is negative; all-equal: every frame carries the same timestep."""
    t0 = draw(st.integers(0, 10 ** 6))
    if T == 1:
        return [t0], "single"
    step = draw(st.integers(1, 5000))
    if T < 3 and sched == "uneven":
        sched = "even"
    if sched == "even":
        dts = [step] * (T - 1)
    elif sched == "all-equal":
        dts = [0] * (T - 1)
    else:
        dts = [step]
        for _ in range(T - 2):
            dts.append(dts[-1] + draw(st.integers(1, 5000)))
        if sched == "repeated":
            dts[draw(st.integers(0, T - 2))] = 0
        elif sched == "back":
            dts[draw(st.integers(0, T - 2))] = -draw(st.integers(1, 5000))
    ts = [t0]
    for d_ in dts:
        ts.append(ts[-1] + int(d_))
    if min(ts) < 0:
        ts = [t - min(ts) for t in ts]
    return ts, sched


def _rescale_min_edge(cell, Lnew):
    """Copy of `cell` whose shortest edge length is exactly Lnew (the others at least Lnew), tilt ratios kept."""
    H = np.array(cell["H"], dtype=float)
    L = np.diag(H).copy()
    a = int(np.argmin(L))
    Ln = np.maximum(L, Lnew)
    Ln[a] = Lnew
    Hn = np.diag(Ln)
    Hn[1, 0] = H[1, 0] / L[0] * Ln[0]
    Hn[2, 0] = H[2, 0] / L[0] * Ln[0]
    Hn[2, 1] = H[2, 1] / L[1] * Ln[1]
    return dict(cell, H=Hn, origin="arbitrary")


@st.composite
def case_st(draw, frames=(1, 3), ls=(2, 3, 4, 5, 6, 6, 7, 8, 9, 10, 11, 12, 6, 4), weights=("none", "none", "equal", "random", "random", "integer"),
            nmax=30, nmin=2, nmax_classes=("default", "default", "exact", "large", "trunc"), cmaxs=(6, 14, 3, 6, 14, 3, 6, 1), shear=True,
            Ns=None, cn_big=None, n_fixed=None, bins=("frac", "frac", "frac", "crisp-dyadic", "crisp-decimal"), reprs=True,
            scheds=("even", "even", "uneven", "uneven", "repeated", "back", "all-equal")):
    kind = draw(st.sampled_from(["ortho", "tri"]))
    cell = draw(cell_st(3, kind, lmin=2.0, lmax=30.0))
    # ---- bin class of spatial_corr: nbins = int(Lmin / 2 / rdelta) (documented formula, a single correctly rounded
    # quotient whatever the order of the two divisions: halving / doubling are exact).  frac: quotient = n + 0.1 / 0.5 /
    # 0.9; crisp-dyadic: Lmin = 2 n rdelta exactly with rdelta = k/64; crisp-decimal: rdelta a two-digit decimal and
    # Lmin = fl(2 n rdelta), where the floor of the EXACT quotient of the doubles may be n - 1 although the formula gives n
    bincls = draw(pick(bins))
    nb0 = draw(st.integers(1, 30))
    binfrac = draw(st.sampled_from([0.1, 0.5, 0.9]))
    Lmin0 = float(np.diag(cell["H"]).min())
    if bincls == "crisp-dyadic":
        rdelta = max(1, int(round(Lmin0 / (2 * nb0) * 64))) / 64.0
        cell = _rescale_min_edge(cell, 2 * nb0 * rdelta)
    elif bincls == "crisp-decimal":
        rdelta = max(1, int(round(Lmin0 / (2 * nb0) * 100))) / 100.0
        cell = _rescale_min_edge(cell, 2 * nb0 * rdelta)
    else:
        rdelta = None
    # ---- sizes
    if Ns is not None:
        N = draw(pick(Ns))
        g = _grid_for(N)
    elif n_fixed is not None:
        N = int(n_fixed)
        g = draw(st.sampled_from([3, 3, 5])) if N <= 27 else _grid_for(N)
    else:
        g = draw(st.sampled_from([3, 3, 5]))
        # minimal sizes (N = 2..4) are their own small class; otherwise N >= 6 so that coordination can vary inside a frame
        if nmin < 5 and draw(st.sampled_from([False] * 9 + [True])):
            N = draw(st.integers(nmin, 4))
        else:
            N = draw(st.integers(max(nmin, 6), min(nmax, g ** 3)))
    T = draw(st.integers(*frames))
    amp = draw(st.sampled_from([0.0, 0.02, 0.24, 0.24]))
    # all partial masks on tilted cells are their own populated classes: half of the tilted cases draw a partial mask
    if kind == "tri" and draw(st.booleans()):
        ppp = draw(pick(PARTIAL_MASKS)).copy()
    else:
        ppp = draw(ppp_st(3))
    outside = draw(st.booleans())
    # ordinary magnitudes as their own class: every particle inside the cell and inside one half-cell block, so that no
    # bond needs wrapping (a fast path "nothing to wrap" is exact there and only there)
    compact = bool(Ns is None and N <= ((g + 1) // 2) ** 3 and draw(pick(range(6))) == 3)
    if compact:
        outside = False
    # sheared trajectory: same edge lengths and origin (boo_3d asserts constant boxlength), per-frame tilt factors
    sheared = bool(shear and kind == "tri" and T >= 2 and draw(st.integers(0, 2)) > 0)
    cells = [cell]
    for k in range(1, T):
        if sheared:
            Hk = np.diag(np.diag(cell["H"]))
            Lk = np.diag(Hk)
            Hk[1, 0] = Lk[0] * draw(st.one_of(st.just(0.0), fl(-0.5, 0.5)))
            Hk[2, 0] = Lk[0] * draw(fl(-0.5, 0.5))
            Hk[2, 1] = Lk[1] * draw(st.one_of(st.just(0.0), fl(-0.5, 0.5)))
            cells.append(dict(cell, H=Hk))
        else:
            cells.append(cell)
    # general cell matrix (EXTENSION_2 class 10): the tilted cell after an axis permutation, P H P^T, is no longer lower
    # triangular; boo_3d takes whatever snapshot.hmatrix holds (same diagonal, same volume)
    if kind == "tri" and draw(pick(range(4))) == 3:
        perm = list(draw(pick([(0, 2, 1), (1, 0, 2), (1, 2, 0), (2, 0, 1), (2, 1, 0)])))
        cells = [dict(c, H=c["H"][perm][:, perm].copy(), lo=c["lo"][perm].copy(), kind="general", origin="arbitrary") for c in cells]
        cell = cells[0]
        kind = "general"
    pos = draw(frames_st(cells, N, g, T, amp, ppp, outside, compact))
    # ---- integer representation (EXTENSION_2 class 3): a hand-built integer cell (edges and tilts multiples of 2g, integer
    # origin) with the particles on integer coordinates; the snapshot then carries int64 positions / hmatrix / boxlength
    intgrid = bool(reprs and Ns is None and not sheared and draw(pick(range(8))) == 3)
    if intgrid:
        a = np.array([draw(st.integers(1, 3)) for _ in range(3)])
        Hi = np.diag(2 * g * a)
        if kind in ("tri", "general"):
            kind = "tri"
            Hi[1, 0] = 2 * g * draw(st.integers(-(a[0] // 2), a[0] // 2))
            Hi[2, 0] = 2 * g * draw(st.integers(-(a[0] // 2), a[0] // 2))
            Hi[2, 1] = 2 * g * draw(st.integers(-(a[1] // 2), a[1] // 2))
        loi = np.array([draw(st.integers(-20, 20)) for _ in range(3)])
        cell = dict(cell, H=Hi.astype(float), lo=loi.astype(float), origin="arbitrary", kind=kind)
        cells = [cell] * T
        posi = []
        for k in range(T):
            sites = draw(st.lists(st.integers(0, g ** 3 - 1), min_size=N, max_size=N, unique=True))
            ijk = np.array([[s // (g * g), (s // g) % g, s % g] for s in sites], dtype=np.int64)
            offs = np.zeros((N, 3), dtype=np.int64)
            if outside:
                offs = draw(hnp.arrays(np.int64, (N, 3), elements=st.integers(-1, 1))) * ppp
            num = (2 * ijk + 1 + 2 * g * offs) @ Hi
            assert not np.any(num % (2 * g))
            posi.append(loi + num // (2 * g))
        pos = [p.astype(float) for p in posi]
        amp, compact, bincls, rdelta = 0.0, False, "frac", None
    seed = draw(st.integers(0, 2 ** 32 - 1))
    rng = np.random.default_rng(seed)
    mode = draw(st.sampled_from(["nearest", "random"]))
    order = draw(pick(ORDERS))
    cmax = min(draw(st.sampled_from(list(cmaxs))), N - 1)
    uniform_cn = draw(st.sampled_from([False] * 7 + [True]))
    cb = None
    if cn_big is not None:
        ok = [c for c in cn_big if c + 2 <= N - 1]
        if ok and draw(pick(range(3))) > 0:
            cb = draw(pick(ok))
            uniform_cn = False
    nl, w, rows = [], [], []
    wmode = draw(st.sampled_from(list(weights)))
    wconst = draw(st.sampled_from([1.0, 0.37, 12.5]))
    kbig = draw(st.integers(0, T - 1))   # the frame that carries the largest coordination number of the trajectory
    for k in range(T):
        ck = cmax if k == kbig else draw(st.integers(1, cmax))
        if uniform_cn:
            cn = np.full(N, draw(st.integers(1, cmax)), dtype=int)
        else:
            if N > 40:
                cn = rng.integers(1, ck + 1, size=N)
            else:
                cn = draw(hnp.arrays(np.int64, (N,), elements=st.integers(1, ck)))
            # coordination varies inside the frame: particle 1 (index 0) has a single bond (|q_lm|^2 = (2l+1)/4pi, the
            # largest possible, so it is noticed wherever index 0 leaks through zero padding), another one the maximum
            cn[0] = 1
            cn[-1] = ck
            if cb is not None and k == kbig:
                # neighbours per particle around a block size: three particles carry cb - 1, cb, cb + 1 neighbours
                for j, c_ in zip(rng.permutation(np.arange(1, N))[:3], (cb - 1, cb, cb + 1)):
                    cn[j] = c_
        lists = _lists(rng, pos[k], cells[k]["H"], ppp, mode, cn, order)
        nl.append(lists)
        if wmode == "equal":
            w.append([np.full(len(x), wconst) for x in lists])
        elif wmode == "random":
            w.append([np.exp(rng.uniform(math.log(0.05), math.log(20.0), size=len(x))) for x in lists])
        elif wmode == "integer":
            w.append([rng.integers(1, 6, size=len(x)).astype(float) for x in lists])
        else:
            w.append(None)
        rows.append((rng.permutation(N), rng.permutation(N)) if draw(st.booleans()) else (np.arange(N), np.arange(N)))
    maxcn = max(len(x) for fr in nl for x in fr)
    ncls = draw(st.sampled_from(list(nmax_classes)))
    if ncls == "trunc" and maxcn < 2:
        ncls = "exact"
    Nmax = {"default": None, "exact": maxcn, "large": 200,
            "trunc": draw(st.integers(1, max(1, maxcn - 1)))}[ncls]
    ts, sched = _schedule(draw, T, draw(pick(scheds)))
    # spatial_corr bins (Lmin of the final cell)
    Lmin = float(np.diag(cell["H"]).min())
    if rdelta is None:
        rdelta = Lmin / 2.0 / (nb0 + binfrac)
    nbins = int(Lmin / 2.0 / rdelta)
    if nbins < 1:   # cannot happen for the classes above; keep the case valid anyway
        rdelta, bincls = Lmin / 2.0 / 1.5, "frac"
        nbins = 1
    types = draw(st.sampled_from(["ones", "ones", "mixed", "labels13", "label7"]))
    return {
        "cell": cell, "cells": cells, "sheared": sheared, "pos": pos, "ppp": ppp, "timesteps": ts, "l": draw(st.sampled_from(list(ls))),
        "nl": nl, "w": w, "rows": rows, "wmode": wmode, "Nmax": Nmax, "ncls": ncls,
        "wfmt": "%d" if wmode == "integer" else draw(st.sampled_from(["%.6f", "%.10g", "%r"])),
        "nhead": draw(st.sampled_from(["id cn neighborlist", "id     cn     neighborlist", "id   cn   neighborlist"])),
        "whead": draw(st.sampled_from(["id   cn   facearealist", "id cn weightlist", "id cn edgelengthlist"])),
        "trail": draw(st.booleans()),
        "cg": draw(st.booleans()), "c": draw(st.sampled_from([0.7, 0.7, 0.5, 0.0, 0.9, 0.2, -0.3, -1.0])),
        "files": draw(st.integers(0, 3)), "dt": draw(st.sampled_from([0.002, 1.0, 0.005, 1])),
        "nbins": nbins, "rdelta": rdelta, "bincls": bincls, "sched": sched,
        "idfmt": draw(pick(ID_FORMATS)) if reprs else "%d",
        "ppp_repr": draw(pick(PPP_REPRS)) if reprs else "int64",
        "int_repr": draw(st.sampled_from(["int", "int", "np.int64", "np.int32"])) if reprs else "int",
        "intgrid": intgrid, "types": types, "order": order, "nowf": draw(pick(["omit", "omit", "None", "empty"])) if reprs else "omit",
        "inplace": bool(draw(pick(range(5))) == 3),
        "meta": {"g": g, "amp": amp, "mode": mode, "outside": bool(outside), "kind": kind, "seed": seed, "compact": compact},
    }


# ============================================================================= files and reference


def write_files(case, nfile="nb.dat", wfile="w.dat"):
    """Writes the neighbour (and weight) file.  Returns (nfile, wfile|None, eff) where eff[k] = (lists, weights)
    are the lists the files encode for frame k after the Nmax truncation, weights parsed back from the text."""
    T = len(case["pos"])
    Nmax = case["Nmax"] if case["Nmax"] is not None else 30
    sep = " "
    tail = " \n" if case["trail"] else "\n"
    idfmt = case.get("idfmt", "%d")   # neighbour entries as "7", "7.0" or "7.000000e+00" (the reader takes float(entry))
    eff = []
    with open(nfile, "w") as fn:
        fw = open(wfile, "w") if case["wmode"] != "none" else None
        for k in range(T):
            lists = case["nl"][k]
            fn.write(case["nhead"] + "\n")
            for i in case["rows"][k][0]:
                fn.write(sep.join([str(i + 1), str(len(lists[i]))] + [idfmt % (int(j) + 1) for j in lists[i]]) + tail)
            wparsed = None
            if fw is not None:
                fw.write(case["whead"] + "\n")
                wparsed = [None] * len(lists)
                for i in case["rows"][k][1]:
                    strs = [case["wfmt"] % float(x) for x in case["w"][k][i]]
                    fw.write(sep.join([str(i + 1), str(len(lists[i]))] + strs) + tail)
                    wparsed[i] = np.array([float(s) for s in strs])[:Nmax]
            eff.append(([np.asarray(x, dtype=int)[:Nmax] for x in lists], wparsed))
        if fw is not None:
            fw.close()
    return nfile, (wfile if case["wmode"] != "none" else None), eff


def cells_of(case):
    return case.get("cells") or [case["cell"]] * len(case["pos"])


def reference(case, eff, l=None):
    l = case["l"] if l is None else l
    ppp = case["ppp"]
    out = []
    for k, (lists, wts) in enumerate(eff):
        r = S.qlm(l, case["pos"][k], cells_of(case)[k]["H"], ppp, lists, wts)
        assert r["tie"].min() > 1e-6 and r["rmin"].min() > 0, "generator precondition broken (tie / coincident)"
        Q, EQ = S.coarse(r["q"], r["eps"], lists)
        out.append({"q": r["q"], "eps": r["eps"], "Q": Q, "epsQ": EQ, "lists": lists})
    return out


def _types(case, N):
    """boo_3d never looks at particle_type: any labels are accepted (EXTENSION_2 class 2)."""
    t = case.get("types", "ones")
    if t == "mixed":
        return 1 + (np.arange(N) * 7 % 3)
    if t == "labels13":
        return np.where(np.arange(N) % 2 == 0, 1, 3)
    if t == "label7":
        return np.full(N, 7)
    return np.ones(N, dtype=int)


def _as_repr(v, kind):
    """The same value in another accepted representation (probed on the unchanged tree: identical results)."""
    if v is None or kind == "int":
        return None if v is None else int(v)
    return {"np.int64": np.int64, "np.int32": np.int32}[kind](v)


def ppp_as(ppp, kind):
    p = [int(x) for x in ppp]
    if kind == "list":
        return p
    if kind == "tuple":
        return tuple(p)
    if kind == "bool":
        return np.array(p, dtype=bool)
    return np.array(p, dtype={"int64": np.int64, "float64": np.float64, "float32": np.float32, "int32": np.int32}[kind])


def snapshot_int(cell, pos, types, ts):
    """Hand-built snapshot whose positions / hmatrix / boxlength are int64 arrays (values are integers by construction)."""
    H = np.asarray(cell["H"])
    Hi, pi, loi = np.rint(H).astype(np.int64), np.rint(pos).astype(np.int64), np.rint(cell["lo"]).astype(np.int64)
    assert np.array_equal(Hi, H) and np.array_equal(pi, pos)
    L = np.diag(Hi).copy()
    return SingleSnapshot(timestep=int(ts), nparticle=len(pi), particle_type=np.array(types, dtype=int), positions=pi,
                          boxlength=L, boxbounds=np.stack([loi, loi + L], axis=1), realbounds=None, hmatrix=Hi.copy())


def make_snaps(case):
    N = len(case["pos"][0])
    types = _types(case, N)
    if case.get("intgrid"):
        snaps_l = [snapshot_int(c, p, types, ts) for c, p, ts in zip(cells_of(case), case["pos"], case["timesteps"])]
    else:
        snaps_l = [snapshot_from(c, p, types, ts) for c, p, ts in zip(cells_of(case), case["pos"], case["timesteps"])]
    return Snapshots(nsnapshots=len(snaps_l), snapshots=snaps_l)


def make_boo(case, nfile, wfile, l=None):
    snaps = make_snaps(case)
    kw = {}
    ir = case.get("int_repr", "int")
    if case["Nmax"] is not None:
        kw["Nmax"] = _as_repr(case["Nmax"], ir)
    if wfile is not None:
        kw["weightsfile"] = wfile
    elif case.get("nowf", "omit") != "omit":
        kw["weightsfile"] = {"None": None, "empty": ""}[case["nowf"]]   # "no weights" spelt as None or as ""
    return boo_3d(snaps, l=_as_repr(case["l"] if l is None else l, ir), neighborfile=nfile,
                  ppp=ppp_as(case["ppp"], case.get("ppp_repr", "int64")), **kw), snaps


def close_eps(name, got, want, eps, rtol=1e-9):
    """|got - want| <= eps + rtol |want| with eps broadcast against want."""
    want = np.asarray(want)
    g = arr(name, got, shape=want.shape)
    err = np.abs(g - want)
    tol = np.broadcast_to(eps, want.shape) + rtol * np.abs(want)
    bad = ~(err <= tol)
    if bad.any():
        ti = tuple(int(i) for i in np.argwhere(bad)[0])
        raise Violation(f"{name}: {int(bad.sum())}/{g.size} entries differ; first at {ti}: got {g[ti]!r}, want "
                        f"{want[ti]!r}, allowed {tol[ti]:.3e}; max |diff| = {np.nanmax(err):.3e}")


def vectors(boo, ref, T, N, l):
    """Check smallqlm / largeQlm against the reference and return (q, Q) reference stacks with eps."""
    q = np.stack([r["q"] for r in ref])
    Q = np.stack([r["Q"] for r in ref])
    e = np.stack([r["eps"] for r in ref])
    E = np.stack([r["epsQ"] for r in ref])
    sm = arr("smallqlm", boo.smallqlm, shape=(T, N, 2 * l + 1))
    require(np.iscomplexobj(sm), "smallqlm is not complex")
    close_eps("smallqlm (q_lm)", sm, q, e[:, :, None])
    close_eps("largeQlm (Q_lm)", boo.largeQlm, Q, E[:, :, None])
    return q, Q, e, E


def same_bits(name, now, then):
    """A result handed out earlier is bit-for-bit what it was when it was returned (EXTENSION_3 class 3)."""
    a, b = np.asarray(now), np.asarray(then)
    require(a.shape == b.shape and np.array_equal(a, b, equal_nan=a.dtype.kind in "fc"),
            lambda: f"{name}: a result returned earlier changed after later calls on the library "
                    f"(max |change| = {np.nanmax(np.abs(np.asarray(a, dtype=complex) - np.asarray(b, dtype=complex))) if a.shape == b.shape else 'shape'})")


def geometry_tags(case, ref):
    """Measured classes of the bond geometry: wrapping, the tilted-cell critical region, poles, list symmetry."""
    tags = []
    ppp = np.asarray(case["ppp"])
    pole = wraps = nowrap = allwrap = crit = False
    for k, r in enumerate(ref):
        H = cells_of(case)[k]["H"]
        L = np.diag(H)
        scale = float(np.abs(H).max())
        for i, nb in enumerate(r["lists"]):
            raw = case["pos"][k][nb] - case["pos"][k][i]
            v = S.min_image(raw, H, ppp)[0]
            pole = pole or bool(np.any(np.hypot(v[:, 0], v[:, 1]) < 1e-6 * np.abs(v[:, 2])))
            wr = np.abs(raw - v).max(axis=1) > 1e-9 * scale
            wraps = wraps or bool(wr.any())
            nowrap = nowrap or bool((~wr).any())
            allwrap = allwrap or bool(len(nb) >= 2 and wr.all())
            # short in every Cartesian component, yet beyond the half cell in a fractional coordinate (tilted cells)
            crit = crit or bool(np.any(wr & np.all(np.abs(raw) < 0.5 * L, axis=1)))
    if pole:
        tags.append("bond-on-z-axis")
    tags.append("wraps-some" if wraps else "wraps-none")
    if allwrap:
        tags.append("batch-all-bonds-wrap")
    if crit:
        tags.append("bond-cartesian-short-but-wraps")
    lists = ref[0]["lists"]
    sets = [set(np.asarray(x).tolist()) for x in lists]
    sym = all(i in sets[j] for i, nb in enumerate(lists) for j in nb)
    tags.append("lists-symmetric" if sym else "lists-directed")
    return tags


def common_tags(case, ref):
    T = len(case["pos"])
    N = len(case["pos"][0])
    cns = [len(x) for r in ref for x in r["lists"]]
    kind = case["meta"]["kind"]
    mask = "".join(str(int(x)) for x in case["ppp"])
    tags = [kind, f"l{case['l']}", f"frames{T}", "w-" + case["wmode"], "Nmax-" + case["ncls"],
            "lists-" + case["meta"]["mode"], "mask-full" if np.all(case["ppp"]) else "mask-partial",
            "outside" if case["meta"]["outside"] else "inside", f"amp{case['meta']['amp']}",
            "cn-varies" if len(set(cns)) > 1 else "cn-uniform",
            "rows-shuffled" if any(not np.array_equal(r[0], np.arange(len(r[0]))) for r in case["rows"]) else "rows-ordered",
            "cg" if case["cg"] else "local", "sheared" if case.get("sheared") else "fixed-cell", f"N{min(N, 5)}",
            "order-" + case.get("order", "asis"), "idfmt" + case.get("idfmt", "%d"), "ppp-as-" + case.get("ppp_repr", "int64"),
            "l-as-" + case.get("int_repr", "int"), "types-" + case.get("types", "ones"), "l-odd" if case["l"] % 2 else "l-even"]
    if case["wmode"] == "none":
        tags.append("no-weights-as-" + case.get("nowf", "omit"))
    if kind in ("tri", "general"):
        H = case["cell"]["H"]
        tl = (H - np.diag(np.diag(H))).ravel()
        tags.append(f"tri-ppp{mask}")
        tags.append("tilt-mixed-sign" if (tl > 0).any() and (tl < 0).any() else ("tilt-negative" if (tl < 0).any() else "tilt-nonnegative"))
    if case.get("intgrid"):
        tags.append("int64-snapshot")
    if case["meta"].get("compact"):
        tags.append("compact-block")
    if N >= 31:
        tags.append(f"size-boundary-N{N}")
    big = sorted({c for c in cns if c >= 29})
    for c in big[-3:]:
        tags.append(f"cn-boundary-{c}")
    if case["Nmax"] is None and max(len(x) for fr in case["nl"] for x in fr) > 30:
        tags.append("default-Nmax-truncates")
    if any(len(set(len(x) for x in r["lists"])) > 1 for r in ref):
        tags.append("cn-varies-within-frame")
        if all(len(r["lists"][0]) == 1 for r in ref) and min(S.norm(r["q"][0]) for r in ref) > 0.1:
            tags.append("p0-single-bond")
    if min(cns) == 1:
        tags.append("has-single-neighbour")
    if max(cns) >= 9:
        tags.append("cn>=9")
    if case["wmode"] in ("random", "integer") and case.get("order") in ("distance", "rev-id", "random"):
        tags.append("weighted-rows-not-id-sorted")
    return tags + geometry_tags(case, ref)


def nontrivial(case, ref):
    cns = [len(x) for r in ref for x in r["lists"]]
    return bool(len(set(cns)) > 1 or case["wmode"] in ("random", "integer") or len(case["pos"]) >= 2)


# ============================================================================= facet: q_lm, Q_lm, q_l, Q_l


def verify_ql(boo, l, vec, ee, cg, out=None, nm=None):
    nm = nm or ("Q_l" if cg else "q_l")
    got = boo.ql_Ql(coarse_graining=cg, outputfile=out)
    want = S.ql(l, vec)
    close_eps(f"ql_Ql(coarse_graining={cg})", got, want, SQ(4 * math.pi) * ee)
    g = np.asarray(got)
    require(np.all(g >= 0) and np.all(g <= 1 + 1e-9), lambda: f"{nm} outside [0,1]: min {g.min()!r} max {g.max()!r}")
    if out is not None:
        npy = out if out.endswith(".npy") else out + ".npy"
        require(os.path.exists(npy), f"{nm}: {npy} not written")
        close(f"{nm} npy file", np.load(npy), g, rtol=0, atol=0)
        if out.endswith(".dat") or out.endswith(".txt"):
            require(os.path.exists(out), f"{nm}: text file {out} not written")
            txt = np.loadtxt(out, ndmin=2)
            close(f"{nm} text file", txt, g, rtol=0, atol=5.1e-7)
    return got


def check_qlm(case):
    l = case["l"]
    T, N = len(case["pos"]), len(case["pos"][0])
    nfile, wfile, eff = write_files(case)
    ref = reference(case, eff)
    boo, _ = make_boo(case, nfile, wfile)
    q, Q, e, E = vectors(boo, ref, T, N, l)
    held = [("smallqlm attribute", boo.smallqlm, np.array(boo.smallqlm, copy=True)),
            ("largeQlm attribute", boo.largeQlm, np.array(boo.largeQlm, copy=True))]

    again = boo.qlm_Qlm()
    require(isinstance(again, tuple) and len(again) == 2, "qlm_Qlm() does not return a pair")
    close("qlm_Qlm()[0] vs smallqlm", again[0], np.asarray(boo.smallqlm), rtol=0, atol=1e-14)
    close("qlm_Qlm()[1] vs largeQlm", again[1], np.asarray(boo.largeQlm), rtol=0, atol=1e-14)
    held += [("qlm_Qlm()[0]", again[0], np.array(again[0], copy=True)), ("qlm_Qlm()[1]", again[1], np.array(again[1], copy=True))]

    fmode = case["files"]  # 0: nothing / name without extension, 1: npy, 2: dat (+ npy), 3: txt (+ npy)
    for cg, vec, ee, nm in ((False, q, e, "q_l"), (True, Q, E, "Q_l")):
        out = {0: (f"{nm}_noext" if case["trail"] else None), 1: f"{nm}.npy", 2: f"{nm}.dat", 3: f"{nm}.txt"}[fmode]
        got = verify_ql(boo, l, vec, ee, cg, out, nm)
        held.append((f"ql_Ql(coarse_graining={cg})", got, np.array(got, copy=True)))

    tags = common_tags(case, ref) + [f"files{fmode}"]
    if case["wmode"] == "equal":
        # equal weights reproduce the unweighted result
        boo0, _ = make_boo(case, nfile, None)
        close("equal weights vs unweighted (q_lm)", boo.smallqlm, np.asarray(boo0.smallqlm), rtol=0, atol=1e-12)
        close("equal weights vs unweighted (Q_lm)", boo.largeQlm, np.asarray(boo0.largeQlm), rtol=0, atol=1e-12)
    # a second evaluation of every method on the same object, then: everything handed out before is unchanged
    third = boo.qlm_Qlm()
    close_eps("qlm_Qlm()[0], third evaluation", third[0], q, e[:, :, None])
    close_eps("qlm_Qlm()[1], third evaluation", third[1], Q, E[:, :, None])
    verify_ql(boo, l, Q, E, True)
    verify_ql(boo, l, q, e, False)
    for name, now, then in held:
        same_bits(name, now, then)
    if case.get("inplace") and N >= 3:
        # state carried between calls (EXTENSION_1 class 3): the SAME snapshot objects with other contents - the particles'
        # coordinates are permuted in place - then a new boo_3d on the same Snapshots object and the same files: every
        # value must be the reference for the contents at call time (no memo keyed on object identity)
        perm = np.roll(np.arange(N), 1)
        case2 = dict(case, pos=[p[perm].copy() for p in case["pos"]])
        for snap, p2 in zip(boo.snapshots.snapshots, case2["pos"]):
            snap.positions[...] = p2.astype(snap.positions.dtype)
        ref2 = reference(case2, eff)
        kw = {"Nmax": int(case["Nmax"])} if case["Nmax"] is not None else {}
        if wfile is not None:
            kw["weightsfile"] = wfile
        boo2 = boo_3d(boo.snapshots, l=int(l), neighborfile=nfile, ppp=np.array(case["ppp"]), **kw)
        vectors(boo2, ref2, T, N, l)
        tags.append("snapshots-mutated-in-place")
    return {"nontrivial": nontrivial(case, ref), "tags": tags}


# ============================================================================= facet: s_ij


def sij_reference(l, vec, eps, lists):
    """per particle: (s, tol, degenerate)"""
    s = S.sij(vec, lists)
    nq = S.norm(vec)
    out = []
    with np.errstate(divide="ignore", invalid="ignore"):
        cond = SQ(2 * l + 1) * eps / nq
    for i, nb in enumerate(lists):
        t = 2 * cond[i] + 2 * cond[nb]
        deg = ~(t < 1e-3) | ~np.isfinite(s[i])
        out.append((s[i], 1e-6 + np.where(deg, 0.0, t), deg))
    return out


def check_sij(case):
    l, c, cg = case["l"], case["c"], case["cg"]
    T, N = len(case["pos"]), len(case["pos"][0])
    nfile, wfile, eff = write_files(case)
    ref = reference(case, eff)
    boo, _ = make_boo(case, nfile, wfile)
    vectors(boo, ref, T, N, l)
    fmode = case["files"]  # 0: csv only, 1: nothing, 2: csv + sij file, 3: sij file only
    csv = "sum_sij.csv" if fmode in (0, 2) else None
    sfile = "sij.dat" if fmode in (2, 3) else None
    got = boo.sij_ql_Ql(coarse_graining=cg, c=c, outputqlQl=csv, outputsij=sfile)

    sref = []
    for r in ref:
        sref.append(sij_reference(l, r["Q"] if cg else r["q"], r["epsQ"] if cg else r["eps"], r["lists"]))
    maxcn = max(len(x) for r in ref for x in r["lists"])
    ndeg = 0

    def check_rows(name, block, k, atol_extra=0.0):
        nonlocal ndeg
        b = arr(name, block, ndim=2)
        require(b.shape[0] == N and b.shape[1] >= 2 + max(len(x) for x in ref[k]["lists"]),
                f"{name}: shape {b.shape} cannot hold id, cn and the s_ij of {N} particles")
        close(f"{name}: id column", b[:, 0], np.arange(1, N + 1), rtol=0, atol=0)
        close(f"{name}: cn column", b[:, 1], np.array([len(x) for x in ref[k]["lists"]]), rtol=0, atol=0)
        for i in range(N):
            s, tol, deg = sref[k][i]
            row = b[i, 2:2 + len(s)]
            ok = ~deg
            ndeg += int(deg.sum())
            if ok.any():
                close_eps(f"{name}: s_ij of particle {i + 1}", row[ok], s[ok], tol[ok] + atol_extra, rtol=0)
                require(np.all(np.abs(row[ok]) <= 1 + 1e-6), lambda: f"{name}: |s_ij| > 1 for particle {i + 1}: {row[ok]!r}")
            fin = np.isfinite(row)
            require(np.all(np.abs(row[fin]) <= 1 + 1e-5), lambda: f"{name}: |s_ij| > 1 for particle {i + 1}: {row!r}")

    if sfile is None:
        require(isinstance(got, (list, tuple)) and len(got) == T,
                lambda: f"sij_ql_Ql without outputsij: expected one array per snapshot ({T}), got {type(got).__name__}")
        for k in range(T):
            check_rows(f"sij_ql_Ql()[{k}]", got[k], k)
    else:
        g = arr("sij_ql_Ql(outputsij=...) return value", got, shape=(T * N, 2 + maxcn))
        for k in range(T):
            check_rows(f"sij_ql_Ql rows of frame {k}", g[k * N:(k + 1) * N], k)
        require(os.path.exists(sfile), "outputsij file not written")
        with open(sfile) as f:
            head = f.readline().split()
        require([h.lower() for h in head] == ["id", "cn", "sij"], f"outputsij header {head!r} != 'id cn sij'")
        txt = arr("outputsij table", np.loadtxt(sfile, skiprows=1, ndmin=2), shape=(T * N, 2 + maxcn))
        for k in range(T):
            check_rows(f"outputsij rows of frame {k}", txt[k * N:(k + 1) * N], k, atol_extra=5.1e-7)

    amb = 0
    if csv is not None:
        import pandas as pd
        require(os.path.exists(csv), "outputqlQl file not written")
        df = pd.read_csv(csv)
        columns("outputqlQl", df, ["id", "sum_sij", "num_neighbors"])
        require(len(df) == T * N, f"outputqlQl has {len(df)} rows, expected {T * N}")
        ids = col("outputqlQl", df, "id")
        cnt = col("outputqlQl", df, "sum_sij")
        nn = col("outputqlQl", df, "num_neighbors")
        for k in range(T):
            sl = slice(k * N, (k + 1) * N)
            close(f"outputqlQl id (frame {k})", ids[sl], np.arange(1, N + 1), rtol=0, atol=0)
            close(f"outputqlQl num_neighbors (frame {k})", nn[sl], np.array([len(x) for x in ref[k]["lists"]]), rtol=0, atol=0)
            for i in range(N):
                s, tol, deg = sref[k][i]
                margin = 1e-5 + tol
                definite = int(np.sum(~deg & (s > c + margin)))
                ambiguous = int(np.sum(deg | (np.abs(s - c) <= margin)))
                amb += ambiguous
                v = cnt[sl][i]
                require(definite <= v <= definite + ambiguous and float(v) == int(v),
                        lambda: f"outputqlQl: count of s_ij > {c} for particle {i + 1}, frame {k} is {v!r}, "
                                f"reference [{definite}, {definite + ambiguous}] (s = {np.round(s, 6).tolist()})")

    # second evaluation on the same object with the other flag, then the first arguments again (list form): every
    # answer is the one for its own arguments, and the first result is still what it was
    held = [(f"sij_ql_Ql()[{k}]", got[k], np.array(got[k], copy=True)) for k in range(T)] if sfile is None \
        else [("sij_ql_Ql(outputsij) return value", got, np.array(got, copy=True))]
    _sij_list(f"sij_ql_Ql(coarse_graining={not cg}), second call", boo.sij_ql_Ql(coarse_graining=not cg, c=c), ref, l, not cg, T, N)
    _sij_list(f"sij_ql_Ql(coarse_graining={cg}), third call", boo.sij_ql_Ql(coarse_graining=cg, c=c), ref, l, cg, T, N)
    for name, now, then in held:
        same_bits(name, now, then)

    tags = common_tags(case, ref) + [f"c{c}", f"files{fmode}"]
    if ndeg:
        tags.append("has-degenerate-pair")
    if len(set(max(len(x) for x in r["lists"]) for r in ref)) > 1:
        tags.append("max-cn-differs-between-frames")
    ncount = sum(int(np.sum(~d & (s > c))) for fr in sref for s, _, d in fr)
    tags.append("some-above-c" if ncount else "none-above-c")
    return {"nontrivial": nontrivial(case, ref), "tags": tags, "extra": {"degenerate_pairs": ndeg, "ambiguous_threshold": amb}}


# ============================================================================= facet: w_l, w-hat_l


def verify_w(boo, l, vec, ee, cg, T, N, ow=None, oc=None):
    got = boo.w_W_cap(coarse_graining=cg, outputw=ow, outputwcap=oc)
    require(isinstance(got, tuple) and len(got) == 2, "w_W_cap does not return a pair")
    w_ref, wh_ref, im = S.wl(l, vec)
    nq = S.norm(vec)
    dq = SQ(2 * l + 1) * ee
    assert np.all(np.abs(im) <= 1e-12 + 1e-9 * nq ** 3), "reference: w_l not real"
    close_eps(f"w_l (coarse_graining={cg})", got[0], w_ref, 3 * nq ** 2 * dq + 1e-12 * nq ** 3 + 1e-15, rtol=1e-9)
    with np.errstate(divide="ignore", invalid="ignore"):
        tol = 6 * dq / nq
    ok = tol < 1e-3
    gh = arr("w-hat_l", got[1], shape=(T, N))
    if ok.any():
        close_eps(f"w-hat_l (coarse_graining={cg})", gh[ok], wh_ref[ok], tol[ok] + 1e-12, rtol=1e-9)
        require(np.all(np.abs(gh[ok]) <= 1 + 1e-6), "|w-hat_l| > 1")
    return got, gh, ok, wh_ref


def check_w(case):
    l, cg = case["l"], case["cg"]
    T, N = len(case["pos"]), len(case["pos"][0])
    nfile, wfile, eff = write_files(case)
    ref = reference(case, eff)
    boo, _ = make_boo(case, nfile, wfile)
    q, Q, e, E = vectors(boo, ref, T, N, l)
    vec, ee = (Q, E) if cg else (q, e)
    fmode = case["files"]
    ow = {0: None, 1: "w.npy", 2: "w.dat", 3: "w.txt"}[fmode]
    oc = {0: None, 1: "wcap.npy", 2: "wcap.dat", 3: None}[fmode]
    got, gh, ok, wh_ref = verify_w(boo, l, vec, ee, cg, T, N, ow, oc)
    for out, g, nm in ((ow, np.asarray(got[0]), "w"), (oc, gh, "w-hat")):
        if out is None:
            continue
        npy = out if out.endswith(".npy") else out + ".npy"
        require(os.path.exists(npy), f"{nm}: {npy} not written")
        close(f"{nm} npy file", np.load(npy), g, rtol=0, atol=0, equal_nan=True)
        if not out.endswith(".npy"):
            require(os.path.exists(out), f"{nm}: text file {out} not written")
            txt = arr(f"{nm} text file", np.loadtxt(out, ndmin=2), shape=(T, N))
            fin = np.isfinite(g) & (np.abs(g) < 1e6)
            close(f"{nm} text file", txt[fin], g[fin], rtol=1e-12, atol=5.1e-7)
    tags = common_tags(case, ref) + [f"files{fmode}"]
    if l <= 4:
        # second evaluation with the other flag (the Wigner table is rebuilt by sympy on every call: low degrees only;
        # facet history does the same for l <= 6);
        # the first pair is still what it was
        held = [("w_W_cap()[0]", got[0], np.array(got[0], copy=True)), ("w_W_cap()[1]", got[1], np.array(got[1], copy=True))]
        v2, e2 = (q, e) if cg else (Q, E)
        verify_w(boo, l, v2, e2, not cg, T, N)
        for name, now, then in held:
            same_bits(name, now, then)
        tags.append("second-call-other-flag")
    nskip = int((~ok).sum())
    if nskip:
        tags.append("has-degenerate-what")
    tags.append("what-sign-mixed" if (wh_ref[ok] > 0).any() and (wh_ref[ok] < 0).any() else "what-one-sign")
    return {"nontrivial": nontrivial(case, ref) and bool(ok.any()), "tags": tags, "extra": {"what_skipped": nskip, "what_compared": int(ok.sum())}}


# ============================================================================= facet: spatial and time correlation


def bins_of(case):
    """(rdelta, nbins) of the case; nbins = int(Lmin / 2 / rdelta) evaluated in double precision as documented."""
    lmin = float(np.diag(case["cell"]["H"]).min())
    rdelta = case["rdelta"] if "rdelta" in case else lmin / 2.0 / (case["nbins"] + case["binfrac"])
    return rdelta, int(lmin / 2.0 / rdelta)


def verify_spatial(boo, case, vec, ee, cg, sfile="", cache=None):
    import pandas as pd
    T, N = len(case["pos"]), len(case["pos"][0])
    H, ppp, l = case["cell"]["H"], case["ppp"], case["l"]
    nq = S.norm(vec)
    pairerr = 2 * SQ(2 * l + 1) * ee.max() * max(nq.max(), 1e-300)
    lmin = float(np.diag(H).min())
    rdelta, nb = bins_of(case)
    vol = float(np.prod(np.diag(H)))
    if cache is not None and cg in cache:
        frames = cache[cg]
    else:
        frames = [S.vector_gr(case["pos"][k], cells_of(case)[k]["H"], ppp, vec[k], rdelta, lmin, vol) for k in range(T)]
        if cache is not None:
            cache[cg] = frames
    assert all(len(f["r"]) == nb for f in frames)
    gr_ref = sum(f["gr"] for f in frames) / T
    gA_ref = sum(f["gA"] for f in frames) / T
    risky = np.any([f["risky"] for f in frames], axis=0)
    df = boo.spatial_corr(coarse_graining=cg, rdelta=rdelta, outputfile=sfile)
    columns("spatial_corr", df, ["r", "gr", "gA"])
    require(len(df) == nb, f"spatial_corr has {len(df)} bins, expected int(Lmin/2/rdelta) = int({lmin!r}/2/{rdelta!r}) = {nb}")
    close("spatial_corr r", col("spatial_corr", df, "r"), frames[0]["r"], rtol=1e-9, atol=1e-12)
    ok = ~risky
    # every pair in a bin contributes at most `pairerr` (+ summation rounding) times the bin's normalisation
    tolA = gr_ref * (pairerr + 1e-12 * nq.max() ** 2) + 1e-14
    close_eps("spatial_corr gr", col("spatial_corr", df, "gr")[ok], gr_ref[ok], 1e-12, rtol=1e-9)
    close_eps("spatial_corr gA", col("spatial_corr", df, "gA")[ok], gA_ref[ok], tolA[ok], rtol=1e-9)
    if sfile:
        require(os.path.exists(sfile), "spatial_corr outputfile not written")
        d2 = pd.read_csv(sfile)
        columns("spatial_corr csv", d2, ["r", "gr", "gA"])
        require(len(d2) == nb, f"spatial_corr csv has {len(d2)} rows, expected {nb}")
        for cname in ("r", "gr", "gA"):
            close(f"spatial_corr csv {cname}", col("csv", d2, cname), col("df", df, cname), rtol=1e-12, atol=5.1e-9)
    return {"df": df, "gA_ref": gA_ref, "ok": ok, "risky": risky, "lmin": lmin, "rdelta": rdelta, "nb": nb}


def verify_time(boo, case, vec, ee, cg, tfile=""):
    import pandas as pd
    T, N = len(case["pos"]), len(case["pos"][0])
    l = case["l"]
    nq = S.norm(vec)
    pairerr = 2 * SQ(2 * l + 1) * ee.max() * max(nq.max(), 1e-300)
    dt = case["dt"]
    dft = boo.time_corr(coarse_graining=cg, dt=dt, outputfile=tfile)
    columns("time_corr", dft, ["t", "time_corr"])
    require(len(dft) == T, f"time_corr has {len(dft)} rows for {T} frames")
    a0 = float((nq[0] ** 2).sum()) if T < 2 else float((nq ** 2).sum(axis=1).min())
    tvals = col("time_corr", dft, "t")
    cvals = col("time_corr", dft, "time_corr")
    compared = False
    if a0 > 1e-8:
        t_ref, c_ref = S.time_corr(vec, case["timesteps"], dt)
        close("time_corr t", tvals, t_ref, rtol=1e-12, atol=1e-12)
        tolC = 2 * (1 + np.abs(c_ref)) * N * pairerr / a0 + 1e-12
        close_eps("time_corr C_l(t)", cvals, c_ref, tolC, rtol=1e-9)
        require(float(cvals[0]) == 1.0, f"time_corr at lag zero is {cvals[0]!r}, not exactly 1")
        compared = True
        if tfile:
            require(os.path.exists(tfile), "time_corr outputfile not written")
            d2 = pd.read_csv(tfile)
            columns("time_corr csv", d2, ["t", "time_corr"])
            close("time_corr csv t", col("csv", d2, "t"), tvals, rtol=1e-12, atol=5.1e-9)
            close("time_corr csv C", col("csv", d2, "time_corr"), cvals, rtol=1e-12, atol=5.1e-9)
    return {"df": dft, "compared": compared}


def schedule_tag(case):
    T = len(case["pos"])
    if T == 1:
        return "single"
    d = np.diff(case["timesteps"])
    if len(set(d.tolist())) == 1:
        return "all-equal-timesteps" if d[0] == 0 else ("even-backwards" if d[0] < 0 else "even")
    if (d < 0).any():
        return "uneven-goes-back"
    if (d == 0).any():
        return "uneven-repeated-timestep"
    return "uneven"


def check_corr(case):
    l, cg = case["l"], case["cg"]
    T, N = len(case["pos"]), len(case["pos"][0])
    nfile, wfile, eff = write_files(case)
    ref = reference(case, eff)
    boo, _ = make_boo(case, nfile, wfile)
    q, Q, e, E = vectors(boo, ref, T, N, l)
    vec, ee = (Q, E) if cg else (q, e)
    fmode = case["files"]
    cache = {}
    sp = verify_spatial(boo, case, vec, ee, cg, "gl.csv" if fmode in (1, 2) else "", cache)
    tm = verify_time(boo, case, vec, ee, cg, "ct.csv" if fmode in (2, 3) else "")
    # second evaluations on the same object: the other flag, then the first arguments again; the DataFrames handed out
    # first are still what they were
    held = [("spatial_corr DataFrame", sp["df"], sp["df"].values.copy()), ("time_corr DataFrame", tm["df"], tm["df"].values.copy())]
    v2, e2 = (q, e) if cg else (Q, E)
    verify_time(boo, case, v2, e2, not cg)
    verify_spatial(boo, case, v2, e2, not cg, cache=cache)
    verify_spatial(boo, case, vec, ee, cg, cache=cache)
    verify_time(boo, case, vec, ee, cg)
    for name, df, then in held:
        same_bits(name, df.values, then)
    gA_ref, ok, risky = sp["gA_ref"], sp["ok"], sp["risky"]
    rdelta, nb, lmin = sp["rdelta"], sp["nb"], sp["lmin"]
    tags = common_tags(case, ref) + [f"files{fmode}", schedule_tag(case),
                                     "risky-bins" if risky.any() else "no-risky-bins", "bins-" + case.get("bincls", "frac"),
                                     "gA-nonzero-bins>=3" if int((np.abs(gA_ref) > 0).sum()) >= 3 else "gA-few-bins",
                                     "dt-int" if isinstance(case["dt"], int) else "dt-float"]
    if int(lmin // (2.0 * rdelta)) != nb:
        tags.append("floor-division-would-differ")
    if nb == 1:
        tags.append("one-bin")
    if not tm["compared"]:
        tags.append("time-degenerate")
    return {"nontrivial": nontrivial(case, ref) and bool((np.abs(gA_ref[ok]) > 0).any()), "tags": tags,
            "extra": {"risky_bins": int(risky.sum()), "bins_compared": int(ok.sum())}}


# ============================================================================= facet: reference crystals


def _rotation(qv):
    a, b, c, d = qv / np.linalg.norm(qv)
    return np.array([[a * a + b * b - c * c - d * d, 2 * (b * c - a * d), 2 * (b * d + a * c)],
                     [2 * (b * c + a * d), a * a - b * b + c * c - d * d, 2 * (c * d - a * b)],
                     [2 * (b * d - a * c), 2 * (c * d + a * b), a * a - b * b - c * c + d * d]])


_BULK = {  # conventional cell (edges, basis in fractional coordinates), repeats, shells (squared distances in units of a^2)
    "fcc": ((1, 1, 1), [(0, 0, 0), (.5, .5, 0), (.5, 0, .5), (0, .5, .5)], (3, 3, 3), 0.5),
    "bcc8": ((1, 1, 1), [(0, 0, 0), (.5, .5, .5)], (3, 3, 3), 0.75),
    "bcc14": ((1, 1, 1), [(0, 0, 0), (.5, .5, .5)], (3, 3, 3), 1.0),
    "sc": ((1, 1, 1), [(0, 0, 0)], (3, 3, 3), 1.0),
    "hcp": ((1, SQ(3.0), SQ(8.0 / 3.0)), [(0, 0, 0), (.5, .5, 0), (.5, 1 / 6, .5), (0, 2 / 3, .5)], (3, 3, 3), 1.0),
}


@st.composite
def crystal_st(draw):
    name = draw(st.sampled_from(["fcc", "hcp", "bcc8", "bcc14", "sc", "ico"]))
    l = draw(st.sampled_from([4, 6]))
    bulk = name != "ico" and draw(st.integers(0, 2)) == 0
    a = draw(st.sampled_from([1.0, 0.5, 1.37, 3.2]))
    want_w = draw(st.integers(0, 2)) == 0 if l == 6 else draw(st.booleans())
    if bulk:
        edges, basis, reps, r2 = _BULK[name]
        import itertools
        cells = np.array(list(itertools.product(*[range(r) for r in reps])), dtype=float)
        f = (cells[:, None, :] + np.array(basis)[None, :, :]).reshape(-1, 3)
        L = a * np.array(edges) * np.array(reps)
        lo = np.array([draw(st.sampled_from([0.0, -3.25, 11.0])) for _ in range(3)])
        pos = lo + f * (a * np.array(edges))
        H = np.diag(L)
        ppp = np.ones(3, dtype=int)
        Npart = len(pos)
        lists = []
        for i in range(Npart):
            vec, _ = S.min_image(pos - pos[i], H, ppp)
            d2 = (vec * vec).sum(axis=1) / a ** 2
            nb = np.nonzero((d2 > 1e-9) & (d2 < r2 + 1e-6))[0]
            lists.append(nb)
        cell = {"d": 3, "kind": "ortho", "H": H, "lo": lo, "origin": "arbitrary"}
        central = list(range(Npart))
        rotated = False
    else:
        sh = S.shell(name)
        sh = sh / np.linalg.norm(sh, axis=1).min() * a
        rotated = draw(st.integers(0, 4)) > 0
        if rotated:
            qv = np.array([draw(fl(-1.0, 1.0)) for _ in range(4)])
            if np.linalg.norm(qv) < 1e-3:
                qv = np.array([1.0, 0.3, -0.2, 0.5])
            sh = sh @ _rotation(qv).T
        perm = draw(st.permutations(range(len(sh))))
        sh = sh[list(perm)]
        centre_idx = draw(st.integers(0, len(sh)))
        boxL = 40.0
        lo = np.array([draw(st.sampled_from([0.0, -20.0, 7.5])) for _ in range(3)])
        shift = lo + np.array([draw(fl(8.0, 32.0)) for _ in range(3)])
        pts = list(sh)
        pts.insert(centre_idx, np.zeros(3))
        pos = np.array(pts) + shift
        H = np.diag([boxL] * 3)
        ppp = np.array(draw(st.sampled_from([(0, 0, 0), (1, 1, 1), (1, 0, 1)])), dtype=int)
        others = [j for j in range(len(pos)) if j != centre_idx]
        lists = [np.array([centre_idx]) for _ in range(len(pos))]
        lists[centre_idx] = np.array(others)
        cell = {"d": 3, "kind": "ortho", "H": H, "lo": lo, "origin": "arbitrary"}
        central = [centre_idx]
    N = len(pos)
    return {"cell": cell, "pos": [pos], "ppp": ppp, "timesteps": [0], "l": l, "nl": [lists], "w": [None],
            "rows": [(np.arange(N), np.arange(N))], "wmode": "none", "Nmax": None, "ncls": "default", "wfmt": "%r",
            "nhead": "id cn neighborlist", "whead": "", "trail": False, "cg": False, "c": 0.7, "files": 0,
            "name": name, "central": central, "bulk": bulk, "rotated": rotated, "want_w": want_w,
            "meta": {"kind": "ortho", "mode": "crystal", "outside": False, "amp": 0.0}}


def check_crystal(case):
    l, name = case["l"], case["name"]
    tab = S.TABLE[name]
    N = len(case["pos"][0])
    nfile, wfile, eff = write_files(case)
    boo, _ = make_boo(case, nfile, None)
    cen = np.array(case["central"])
    assert all(len(eff[0][0][i]) == tab["cn"] for i in cen), "generator: wrong shell size"
    qloc = arr("ql_Ql", boo.ql_Ql(coarse_graining=False), shape=(1, N))
    close(f"q{l} of {name}", qloc[0, cen], np.full(len(cen), tab[f"q{l}"]), rtol=0, atol=1e-5)
    if case["bulk"]:
        # all particles equivalent: coarse-grained vector = local vector, every bond fully coherent
        Qc = arr("ql_Ql cg", boo.ql_Ql(coarse_graining=True), shape=(1, N))
        if name != "hcp":  # hcp has two orientations of the environment (A and B layers)
            close(f"Q{l} of bulk {name}", Qc[0], np.full(N, tab[f"q{l}"]), rtol=0, atol=1e-5)
            s = boo.sij_ql_Ql(coarse_graining=False, c=0.7)
            b = arr("sij", s[0], ndim=2)
            close(f"s_ij of bulk {name}", b[:, 2:2 + tab["cn"]], np.ones((N, tab["cn"])), rtol=0, atol=2e-6)
    if case["want_w"]:
        w, wh = boo.w_W_cap(coarse_graining=False)
        wh = arr("w-hat", wh, shape=(1, N))
        if tab[f"w{l}"] is not None:
            close(f"w-hat{l} of {name}", wh[0, cen], np.full(len(cen), tab[f"w{l}"]), rtol=0, atol=1e-5)
            wref = tab[f"w{l}"] * (tab[f"q{l}"] ** 2 * (2 * l + 1) / (4 * math.pi)) ** 1.5
            close(f"w{l} of {name}", arr("w", w, shape=(1, N))[0, cen], np.full(len(cen), wref), rtol=0, atol=1e-5)
    # the independent reference agrees with the table as well (guards the table against typos)
    r = S.qlm(l, case["pos"][0], case["cell"]["H"], case["ppp"], eff[0][0])
    assert abs(S.ql(l, r["q"][cen[:1]])[0] - tab[f"q{l}"]) < 2e-6
    tags = [name, f"l{l}", "bulk" if case["bulk"] else "cluster", "rotated" if case["rotated"] else "aligned",
            "with-w" if case["want_w"] else "q-only", "ppp" + "".join(map(str, case["ppp"]))]
    return {"nontrivial": bool(case["bulk"] or case["rotated"]), "tags": tags}


# ============================================================================= facet: the library's own neighbour writers


@st.composite
def libneigh_st(draw, writers=("nnearest", "cutoff", "voronoi", "voronoi")):
    writer = draw(st.sampled_from(list(writers)))
    case = draw(case_st(frames=(1, 2), weights=("none",), nmax_classes=("default",), ls=(2, 3, 4, 6, 7, 10, 12),
                        nmin=20 if writer == "voronoi" else 5, cmaxs=(2, 6, 14)))
    case["writer"] = writer
    N = len(case["pos"][0])
    if writer == "voronoi":
        # freud path: orthogonal, fully periodic, particles inside the cell
        cell = draw(cell_st(3, "ortho", lmin=2.0, lmax=30.0))
        # near-cubic cell: with N ~ 20..30 a strongly anisotropic cell makes particles Voronoi neighbours of
        # their own images (zero bond vector, outside the domain)
        L = cell["H"][0, 0] * np.array([1.0, draw(st.sampled_from([1.0, 0.9, 1.15])), draw(st.sampled_from([1.0, 0.85, 1.1]))])
        cell["H"] = np.diag(L)
        if cell["origin"] in ("centred", "sumzero"):
            cell["lo"] = -L / 2.0
        g, amp = case["meta"]["g"], 0.24
        T = len(case["pos"])
        ppp = np.ones(3, dtype=int)
        case["pos"] = draw(frames_st(cell, N, g, T, amp, ppp, False))
        case["cell"], case["ppp"] = cell, ppp
        case["cells"], case["sheared"] = [cell] * T, False
        case["meta"].update(kind="ortho", outside=False, amp=amp)
        case["use_weights"] = draw(st.sampled_from([True, True, False]))
    elif writer == "nnearest":
        case["k"] = draw(st.integers(1, min(12, N - 2)))
    else:
        case["rfac"] = draw(st.sampled_from([1.0001, 1.2, 1.6]))
    return case


def parse_neighbor_file(fname, N, T, floats=False):
    """Own parser of the `id cn <name>list` format (whitespace separated, one header line per frame)."""
    with open(fname) as f:
        lines = [ln for ln in f.read().split("\n") if ln.strip()]
    require(len(lines) == T * (N + 1), f"{fname}: {len(lines)} non-empty lines, expected {T}*({N}+1)")
    out = []
    for k in range(T):
        block = lines[k * (N + 1):(k + 1) * (N + 1)]
        head = block[0].split()
        require(len(head) == 3 and head[0] == "id" and head[1] == "cn", f"{fname}: header {block[0]!r}")
        lists = [None] * N
        for ln in block[1:]:
            it = ln.split()
            i, cn = int(it[0]) - 1, int(it[1])
            require(len(it) == 2 + cn, f"{fname}: row {ln!r} does not hold cn = {cn} entries")
            lists[i] = np.array([float(x) for x in it[2:]]) if floats else np.array([int(x) - 1 for x in it[2:]], dtype=int)
        require(all(x is not None for x in lists), f"{fname}: some particle id missing in frame {k}")
        out.append(lists)
    return out


def check_libneigh(case):
    l = case["l"]
    T, N = len(case["pos"]), len(case["pos"][0])
    ppp = case["ppp"]
    Hs = [c["H"] for c in cells_of(case)]
    snaps_l = [snapshot_from(c, p, np.ones(N, dtype=int), ts) for c, p, ts in zip(cells_of(case), case["pos"], case["timesteps"])]
    snaps = Snapshots(nsnapshots=T, snapshots=snaps_l)
    wfile = None
    if case["writer"] == "nnearest":
        nfile = "nn.dat"
        Nnearests(snaps, N=int(case["k"]), ppp=np.array(ppp), fnfile=nfile)
    elif case["writer"] == "cutoff":
        # smallest cut-off that gives every particle a neighbour, times a factor
        dmax = 0.0
        for p, H in zip(case["pos"], Hs):
            for i in range(N):
                vec, _ = S.min_image(np.delete(p, i, axis=0) - p[i], H, ppp)
                dmax = max(dmax, float(np.sqrt((vec * vec).sum(axis=1)).min()))
        nfile = "cut.dat"
        cutoffneighbors(snaps, r_cut=dmax * case["rfac"], ppp=np.array(ppp), fnfile=nfile)
    else:
        cal_neighbors(snaps, outputfile="voro")
        nfile = "voro.neighbor.dat"
        if case["use_weights"]:
            wfile = "voro.facearea.dat"
    lists = parse_neighbor_file(nfile, N, T)
    wts = parse_neighbor_file(wfile, N, T, floats=True) if wfile else [None] * T
    maxcn = max(len(x) for fr in lists for x in fr)
    if min(len(x) for fr in lists for x in fr) < 1 or (wfile and min(float(np.sum(x)) for fr in wts for x in fr) <= 0):
        return {"nontrivial": False, "tags": ["writer-" + case["writer"], "skipped-empty-list"]}
    if any(i in x for fr in lists for i, x in enumerate(fr)):
        # tiny periodic systems: a Voronoi cell can share a face with the particle's own image (zero bond vector)
        return {"nontrivial": False, "tags": ["writer-" + case["writer"], "skipped-self-neighbour"]}
    Nmax = max(30, maxcn)
    ref = []
    for k in range(T):
        r = S.qlm(l, case["pos"][k], Hs[k], ppp, lists[k], wts[k])
        Q, EQ = S.coarse(r["q"], r["eps"], lists[k])
        ref.append({"q": r["q"], "eps": r["eps"], "Q": Q, "epsQ": EQ, "lists": lists[k]})
    kw = {"weightsfile": wfile} if wfile else {}
    boo = boo_3d(snaps, l=int(l), neighborfile=nfile, ppp=np.array(ppp), Nmax=Nmax, **kw)
    q, Q, e, E = vectors(boo, ref, T, N, l)
    close_eps("ql_Ql", boo.ql_Ql(coarse_graining=False), S.ql(l, q), SQ(4 * math.pi) * e)
    close_eps("ql_Ql cg", boo.ql_Ql(coarse_graining=True), S.ql(l, Q), SQ(4 * math.pi) * E)
    cns = [len(x) for fr in lists for x in fr]
    dup = any(len(set(x.tolist())) < len(x) for fr in lists for x in fr)
    tags = ["writer-" + case["writer"], case["meta"]["kind"], f"l{l}", f"frames{T}",
            "mask-full" if np.all(ppp) else "mask-partial", "cn-varies" if len(set(cns)) > 1 else "cn-uniform",
            "weights" if wfile else "no-weights"]
    if dup:
        tags.append("duplicate-neighbour")
    return {"nontrivial": bool(len(set(cns)) > 1 or T >= 2 or wfile), "tags": tags}


# ============================================================================= facet: state carried between calls


@st.composite
def calls_st(draw):
    ls = (2, 3, 4, 5, 6)
    case = draw(case_st(frames=(1, 2), ls=ls, nmax=12, weights=("none", "random"), nmax_classes=("default", "exact")))
    case["l2"] = draw(st.sampled_from([x for x in ls if x != case["l"]]))
    case["direct"] = draw(st.booleans())
    return case


def _sij_list(name, got, ref, l, cg, T, N):
    require(isinstance(got, (list, tuple)) and len(got) == T, f"{name}: expected one array per snapshot")
    for k in range(T):
        r = ref[k]
        sref = sij_reference(l, r["Q"] if cg else r["q"], r["epsQ"] if cg else r["eps"], r["lists"])
        b = arr(f"{name}[{k}]", got[k], ndim=2)
        require(b.shape[0] == N and b.shape[1] >= 2 + max(len(x) for x in r["lists"]), f"{name}[{k}]: shape {b.shape}")
        for i in range(N):
            sv, tol, deg = sref[i]
            ok = ~deg
            if ok.any():
                close_eps(f"{name}[{k}] particle {i + 1}", b[i, 2:2 + len(sv)][ok], sv[ok], tol[ok], rtol=0)


def check_calls(case):
    """Two objects with different degree used alternately, the same object asked repeatedly with different
    coarse_graining flags: every answer must be the one for the arguments of THAT call (no memo keyed wrongly)."""
    l1, l2 = case["l"], case["l2"]
    T, N = len(case["pos"]), len(case["pos"][0])
    nfile, wfile, eff = write_files(case)
    refs = {l1: reference(case, eff, l1), l2: reference(case, eff, l2)}
    boos = {l1: make_boo(case, nfile, wfile, l1)[0], l2: make_boo(case, nfile, wfile, l2)[0]}
    vec = {}
    for l in (l1, l2):
        vec[l] = vectors(boos[l], refs[l], T, N, l)

    def ql(l, cg):
        q, Q, e, E = vec[l]
        close_eps(f"ql_Ql(l={l}, coarse_graining={cg})", boos[l].ql_Ql(coarse_graining=cg), S.ql(l, Q if cg else q),
                  SQ(4 * math.pi) * (E if cg else e))

    def sij(l, cg):
        _sij_list(f"sij_ql_Ql(l={l}, coarse_graining={cg})", boos[l].sij_ql_Ql(coarse_graining=cg, c=0.7), refs[l], l, cg, T, N)

    def wcap(l, cg):
        q, Q, e, E = vec[l]
        v, ee = (Q, E) if cg else (q, e)
        got = boos[l].w_W_cap(coarse_graining=cg)
        require(isinstance(got, tuple) and len(got) == 2, "w_W_cap does not return a pair")
        w_ref, wh_ref, _ = S.wl(l, v)
        nq = S.norm(v)
        dq = SQ(2 * l + 1) * ee
        close_eps(f"w_l(l={l}, coarse_graining={cg})", got[0], w_ref, 3 * nq ** 2 * dq + 1e-12 * nq ** 3 + 1e-15)
        with np.errstate(divide="ignore", invalid="ignore"):
            tol = 6 * dq / nq
        ok = tol < 1e-3
        gh = arr("w-hat_l", got[1], shape=(T, N))
        if ok.any():
            close_eps(f"w-hat_l(l={l}, coarse_graining={cg})", gh[ok], wh_ref[ok], tol[ok] + 1e-12)

    def table(l):
        raw = Wignerindex(l)
        try:  # the table holds sympy numbers (object dtype); any numeric representation is acceptable
            tab = np.array(raw, dtype=float)
        except Exception as ex:  # noqa: BLE001
            raise Violation(f"Wignerindex({l}) is not a numeric table: {ex}")
        tab = arr(f"Wignerindex({l})", tab, ndim=2)
        ms = [(a, b, -a - b) for a in range(-l, l + 1) for b in range(-l, l + 1) if abs(a + b) <= l]
        require(tab.shape == (len(ms), 4), f"Wignerindex({l}): shape {tab.shape}, expected ({len(ms)}, 4)")
        got = {tuple(int(round(float(x))) for x in row[:3]): float(row[3]) for row in tab}
        require(set(got) == set(ms), f"Wignerindex({l}): rows are not the triples m1+m2+m3=0 with |m|<={l}")
        want = np.array([S.wigner3j(l, l, l, *m) for m in ms])
        close(f"Wignerindex({l}) values", np.array([got[m] for m in ms]), want, rtol=1e-10, atol=1e-13)

    # same object: flags alternate and repeat; two objects: degrees alternate
    ql(l1, False); sij(l1, True); ql(l1, True); sij(l1, False); ql(l2, True); ql(l1, False); sij(l1, True); sij(l2, False)  # noqa: E702
    if case["direct"]:
        table(l1); table(l2); table(l1)  # noqa: E702
    wcap(l1, case["cg"]); wcap(l2, not case["cg"]); wcap(l1, not case["cg"]); wcap(l2, case["cg"])  # noqa: E702
    # the vectors themselves were not disturbed by the calls
    for l in (l1, l2):
        vectors(boos[l], refs[l], T, N, l)
    tags = [t for t in common_tags(case, refs[l1]) if not t.startswith("l")] + [f"l{l1}-l{l2}", "direct-table" if case["direct"] else "via-w_W_cap"]
    return {"nontrivial": nontrivial(case, refs[l1]), "tags": tags}


# ============================================================================= facet: call histories, results kept alive


METHODS = ("qlm", "ql", "sij", "w", "spatial", "time")


@st.composite
def history_st(draw):
    """Object A (every method named by the statement twice, flags drawn) and object B (SAME degree, other data - in half
    of the cases also the same (frames, N), so that any buffer keyed on degree / shape is shared) used alternately in
    a drawn order."""
    ls = (2, 3, 4, 4, 5, 6, 6)
    kw = dict(ls=ls, nmax=12, weights=("none", "random"), nmax_classes=("default", "exact"), reprs=False,
              bins=("frac",), cmaxs=(6, 3, 6, 8))
    A = draw(case_st(frames=(1, 2), **kw))
    same_shape = draw(pick([True, False]))
    T, N = len(A["pos"]), len(A["pos"][0])
    kw["ls"] = (A["l"],)
    if same_shape:
        B = draw(case_st(frames=(T, T), n_fixed=N, **kw))
    else:
        B = draw(case_st(frames=(1, 2), **kw))
    ops = [("A", m) for m in METHODS] * 2 + [("B", m) for m in METHODS]
    order = draw(st.permutations(range(len(ops))))
    flags = draw(st.lists(st.booleans(), min_size=len(ops), max_size=len(ops)))
    return {"A": A, "B": B, "ops": [(ops[i][0], ops[i][1], bool(flags[i])) for i in order], "same_shape": same_shape,
            # describe() looks at these
            "l": A["l"], "cell": A["cell"], "ppp": A["ppp"], "pos": A["pos"], "wmode": A["wmode"], "Nmax": A["Nmax"], "cg": None,
            "meta": A["meta"], "nl": A["nl"]}


def check_history(case):
    """Every method of boo_3d named by the statement is called twice on object A, interleaved in a drawn order with calls
    on a second object B of the same degree built from other data.  Each answer must be the reference for the object and
    arguments of THAT call; at the end every array / DataFrame handed out earlier (and the smallqlm / largeQlm
    attributes) must still hold, bit for bit, what it held when it was returned."""
    objs = {}
    for key in ("A", "B"):
        c = case[key]
        T, N = len(c["pos"]), len(c["pos"][0])
        nfile, wfile, eff = write_files(c, nfile=f"nb{key}.dat", wfile=f"w{key}.dat")
        ref = reference(c, eff)
        boo, _ = make_boo(c, nfile, wfile)
        vec = vectors(boo, ref, T, N, c["l"])
        objs[key] = {"case": c, "ref": ref, "boo": boo, "vec": vec, "T": T, "N": N}
    held = []
    for key, o in objs.items():
        held += [(f"{key}.smallqlm", o["boo"].smallqlm, np.array(o["boo"].smallqlm, copy=True)),
                 (f"{key}.largeQlm", o["boo"].largeQlm, np.array(o["boo"].largeQlm, copy=True))]

    def keep(name, x):
        held.append((name, x, np.array(x, copy=True)))

    for step, (key, meth, cg) in enumerate(case["ops"]):
        o = objs[key]
        c, boo, ref, T, N = o["case"], o["boo"], o["ref"], o["T"], o["N"]
        l = c["l"]
        q, Q, e, E = o["vec"]
        vec, ee = (Q, E) if cg else (q, e)
        nm = f"step {step}: {key}.{meth}(coarse_graining={cg})"
        try:
            if meth == "qlm":
                got = boo.qlm_Qlm()
                require(isinstance(got, tuple) and len(got) == 2, "qlm_Qlm() does not return a pair")
                close_eps("qlm_Qlm()[0]", got[0], q, e[:, :, None])
                close_eps("qlm_Qlm()[1]", got[1], Q, E[:, :, None])
                keep(nm + "[0]", got[0]); keep(nm + "[1]", got[1])  # noqa: E702
            elif meth == "ql":
                keep(nm, verify_ql(boo, l, vec, ee, cg))
            elif meth == "sij":
                got = boo.sij_ql_Ql(coarse_graining=cg, c=c["c"])
                _sij_list("sij_ql_Ql", got, ref, l, cg, T, N)
                for k in range(T):
                    keep(nm + f"[{k}]", got[k])
            elif meth == "w":
                got = verify_w(boo, l, vec, ee, cg, T, N)[0]
                keep(nm + "[0]", got[0]); keep(nm + "[1]", got[1])  # noqa: E702
            elif meth == "spatial":
                df = verify_spatial(boo, c, vec, ee, cg, cache=o.setdefault("gr_cache", {}))["df"]
                held.append((nm, df, df.values.copy()))
            else:
                df = verify_time(boo, c, vec, ee, cg)["df"]
                held.append((nm, df, df.values.copy()))
        except Violation as v:
            raise Violation(f"{nm}: {v}") from None
        for name, now, then in held:       # after EVERY step: what was handed out before is unchanged
            same_bits(f"{name} (checked after {nm})", now.values if hasattr(now, "columns") else now, then)
    for key, o in objs.items():
        vectors(o["boo"], o["ref"], o["T"], o["N"], o["case"]["l"])
    A = case["A"]
    first = {}
    for key, meth, cg in case["ops"]:
        if key == "A":
            first.setdefault(meth, []).append(cg)
    tags = [f"l{A['l']}", "same-shape" if case["same_shape"] else "other-shape", "first-" + case["ops"][0][0] + "." + case["ops"][0][1],
            "w-" + A["wmode"], A["meta"]["kind"], f"framesA{len(A['pos'])}"]
    tags += [f"{m}-twice-same-flag" if v[0] == v[1] else f"{m}-both-flags" for m, v in sorted(first.items())]
    return {"nontrivial": nontrivial(A, objs["A"]["ref"]) or nontrivial(case["B"], objs["B"]["ref"]), "tags": tags,
            "extra": {"results_kept_alive": len(held)}}


# ============================================================================= facet: size boundaries / deep tier


@st.composite
def sized_st(draw, Ns, cn_big, frames=(1, 2), nmax_classes=("default", "default", "exact", "large", "trunc"), **kw):
    """Sizes around typical block sizes (particles and neighbours per particle), dispatched over the four groups of
    quantities.  w_W_cap rebuilds the sympy table on every call: low degrees there."""
    # the size is the FIRST choice of the case (Hypothesis varies the head of an example most): flat size histogram
    if Ns is not None:
        Ns = (draw(pick(Ns)),)
    what = draw(pick(["qlm", "qlm", "sij", "sij", "corr", "corr", "w"]))
    ls = (2, 2, 3, 4) if what == "w" else (2, 3, 4, 5, 6, 6, 7, 8, 10, 11, 12)
    case = draw(case_st(frames=frames, ls=ls, Ns=Ns, cn_big=cn_big, nmax_classes=nmax_classes, **kw))
    case["what"] = what
    return case


def check_sized(case):
    out = {"qlm": check_qlm, "sij": check_sij, "corr": check_corr, "w": check_w}[case["what"]](case)
    out["tags"] = list(out["tags"]) + ["what-" + case["what"]]
    return out


# ============================================================================= descriptions and facets


def describe(case):
    return {"l": case["l"], "cell": case["cell"]["kind"], "H": np.round(case["cell"]["H"], 4).tolist(),
            "ppp": np.asarray(case["ppp"]).tolist(), "N": int(len(case["pos"][0])), "frames": len(case["pos"]),
            "weights": case["wmode"], "Nmax": case["Nmax"], "cg": case["cg"], "meta": {k: v for k, v in case["meta"].items()},
            "order": case.get("order"), "what": case.get("what"), "ops": case.get("ops"),
            "pos0": np.round(case["pos"][0][:3], 4).tolist(),
            "lists0": [(np.asarray(x) + 1).tolist() for x in case["nl"][0][:3]] if case.get("nl") else None}


FACETS = [
    Facet("qlm", case_st(), check_qlm, quick=400, thorough=16000, describe=describe, shards_quick=4,
          rule="smallqlm / largeQlm / qlm_Qlm() / ql_Ql (local and coarse-grained, npy / dat / txt / extension-less output) "
               "against the reference, every method a second time on the same object, earlier results unchanged; "
               "equal-weights class also against the unweighted library result; non-trivial as in RULE"),
    Facet("sij", case_st(), check_sij, quick=300, thorough=12000, describe=describe, shards_quick=3,
          rule="sij_ql_Ql: per-frame list / stacked array / outputsij text / outputqlQl csv layouts, s_ij values "
               "(float32 margin), |s_ij| <= 1, thresholded count by the interval rule for c in {-1, -0.3, 0, 0.2, 0.5, 0.7, 0.9}; "
               "second and third call with the other / the same flag; non-trivial as in RULE"),
    Facet("w_cap", case_st(ls=(2, 3, 4, 4, 5, 6, 6, 8), nmax=16, frames=(1, 2)), check_w, quick=120, thorough=3000,
          describe=describe, shards_quick=4,
          rule="w_W_cap: w_l and w-hat_l (local or coarse-grained) with exact-rational 3-j symbols, output files; "
               "quick tier l in {2,3,4,5,6,8}; non-trivial = RULE and at least one non-degenerate w-hat compared"),
    Facet("w_cap_high_l", case_st(ls=(7, 9, 10, 11, 12), nmax=10, frames=(1, 1)), check_w, quick=12, thorough=300,
          describe=describe, shards_quick=2,
          rule="as w_cap for l in {7,9,10,11,12} (the library rebuilds the sympy table on every call: few cases)"),
    Facet("corr", case_st(), check_corr, quick=300, thorough=12000, describe=describe, shards_quick=3,
          rule="spatial_corr (frame-averaged vector-conditional g(r): columns r, gr, gA, csv; bins int(Lmin/2/rdelta) with "
               "fractional, exactly dyadic and decimal integer quotients) and time_corr (origin-averaged normalised "
               "autocorrelation; even / uneven / repeated / backward / all-equal timesteps / single frame, csv), each with "
               "both flags and twice; non-trivial = RULE and some compared bin with gA != 0"),
    Facet("calls", calls_st(), check_calls, quick=24, thorough=1500, describe=describe, shards_quick=3,
          rule="two boo_3d objects of different degree (l in 2..6) on the same files used alternately for ql_Ql / sij_ql_Ql / "
               "w_W_cap, the same object asked repeatedly with alternating coarse_graining flags, Wignerindex called "
               "directly for l1, l2, l1: every answer is the reference for the arguments of that call"),
    Facet("history", history_st(), check_history, quick=36, thorough=1500, describe=describe, shards_quick=4,
          rule="all six methods twice on one object in a drawn order, interleaved with a second object of the same degree "
               "(other data, in half of the cases the same shape): each answer is the reference of its own call, and all "
               "results handed out earlier are bit-for-bit unchanged at the end; non-trivial as in RULE for either object"),
    Facet("sizes", sized_st(NS_QUICK, CN_BIG_QUICK), check_sized, quick=56, thorough=1600, describe=describe, shards_quick=8,
          rule="N in {31..33, 63..65, 99..101, 127..129, 133} and 29..33 / 49..51 / 63..65 neighbours per particle "
               "(default Nmax = 30 truncating or not), all four groups of quantities; non-trivial as in RULE"),
    Facet("sizes_large", sized_st(NS_THOROUGH, CN_BIG_QUICK + CN_BIG_THOROUGH, frames=(1, 1)), check_sized, quick=0, thorough=320,
          describe=describe,
          rule="thorough tier only: N in {170, 199..201, 255..257, 266, 341, 399, 401, 499..501, 511..513}, up to 201 neighbours"),
    Facet("deep", sized_st(None, None, frames=(4, 8), nmax=60, cmaxs=(6, 14, 20, 3, 12)), check_sized, quick=0, thorough=1600,
          describe=describe,
          rule="thorough tier only: 4..8 frames, N up to 60 (grid 5), up to 20 neighbours, all l, all four groups"),
    Facet("crystals", crystal_st(), check_crystal, quick=200, thorough=3000, describe=describe, shards_quick=4,
          rule="fcc / hcp / bcc(8) / bcc(14) / sc / icosahedron: rotated open clusters (list for the central atom) and "
               "periodic bulk crystals against the tabulated q4, q6, w-hat4, w-hat6 (1e-5); bulk: Q_l = q_l, s_ij = 1"),
    Facet("libneigh", libneigh_st(), check_libneigh, quick=150, thorough=6000, describe=describe, shards_quick=3,
          rule="neighbour (and Voronoi face-area) files produced by Nnearests / cutoffneighbors / cal_neighbors, parsed "
               "by an independent parser, then q_lm, Q_lm, q_l, Q_l against the reference"),
]

MANIFEST = {
    "text": ("boo_3d on generated 3D configurations, neighbour files and weight files: q_lm and coarse-grained Q_lm, "
             "q_l/Q_l, w_l and w-hat_l, s_ij with its thresholded count and all output layouts, spatial_corr and "
             "time_corr equal an independent implementation of Steinhardt's definitions (facets qlm, sij, w_cap, "
             "w_cap_high_l, corr), also on sheared trajectories (each frame's own cell matrix), general (axis-permuted) cell "
             "matrices, integer-dtype snapshots, every mask on tilted cells, neighbour rows in distance / id / random order, "
             "sizes around block boundaries (N 31..133, 29..65 neighbours; thorough N ..513: facets sizes, sizes_large, deep), "
             "when objects of different degree / different coarse_graining flags are used alternately (facet calls) and when "
             "all methods are called twice in any order on two objects of the same degree with every earlier result kept "
             "alive and unchanged (facet history); equal weights reproduce the unweighted result; 0 <= q_l <= 1, |s_ij| <= 1; perfect "
             "fcc/hcp/bcc/sc/icosahedral environments give the tabulated q4, q6, w-hat4, w-hat6 (facet crystals); "
             "files written by the library's own N-nearest, cut-off and Voronoi writers feed boo_3d consistently "
             "(facet libneigh)."),
    "note": ("Trusted base: pbt/ref/steinhardt.py (own Y_lm recurrence cross-checked against scipy and mpmath, "
             "Racah 3-j in exact rationals cross-checked against sympy), numpy. Assumes the C08 harmonic convention "
             "and the C02 minimum image; generated bonds never sit on a half-cell tie; |q| ~ 0 "
             "items (undefined w-hat, s_ij) are skipped and counted. spatial_corr is compared with the C13 columns "
             "(r, gr, gA), not with the ratio of docs eq. (8). Self-listed neighbours (nan) and signed weights are outside the domain."),
    "technique": ("property-based testing (Hypothesis): reference-model differential with derived error bounds, "
                  "metamorphic relation (equal weights == unweighted), tabulated-constant oracle for crystals, "
                  "call histories with results kept alive"),
}
